SPECIFICATION Spec
CONSTANTS N = 3
          W = 2
          Cap = 0
INVARIANTS TypeOK Complete NoDup
CHECK_DEADLOCK TRUE
