---------------------------- MODULE MergeRound ----------------------------
(* One round (generation) of fst-bin/src/merge.rs: a batcher thread feeds    *)
(* items through a channel of capacity Cap (0 = rendezvous) to the main      *)
(* thread, which forwards each item over a rendezvous channel to W workers;  *)
(* every worker appends what it receives to a local list and, when the work  *)
(* channel is closed and drained, sends the list over a rendezvous channel   *)
(* back to main, which concatenates the lists in the order of arrival.       *)
(* Each action is one scheduling point of the controlled scheduler that runs *)
(* the real code (harness/binharness/src/verif_rt.rs).                       *)
EXTENDS Naturals, Sequences, FiniteSets

CONSTANTS N,    \* number of items (batches / result files) of this round
          W,    \* number of workers (--threads)
          Cap   \* capacity of the batcher channel: min(1, threads / 3)

Workers == 1..W

VARIABLES
  bpc,      \* batcher: "send" | "wait" | "done"
  bi,       \* next item of the batcher
  bq,       \* batcher channel contents
  btaken,   \* number of items taken from bq (rendezvous bookkeeping)
  bclosed,
  mpc,      \* main: "recvb" | "sendw" | "waitw" | "recvr" | "done"
  mitem,    \* item main is forwarding
  wq,       \* work channel (rendezvous: at most one pending deposit)
  wclosed,
  wpc,      \* worker pc: "recv" | "sendr" | "waitr" | "done"
  wlist,    \* worker local result list
  rq,       \* results channel: sequence of <<worker, list>> (at most one pending)
  results   \* main's concatenated results

vars == <<bpc, bi, bq, btaken, bclosed, mpc, mitem, wq, wclosed, wpc, wlist, rq, results>>

BCapEff == IF Cap = 0 THEN 1 ELSE Cap

Init ==
  /\ bpc = "send" /\ bi = 1 /\ bq = <<>> /\ btaken = 0 /\ bclosed = FALSE
  /\ mpc = "recvb" /\ mitem = 0
  /\ wq = <<>> /\ wclosed = FALSE
  /\ wpc = [w \in Workers |-> "recv"]
  /\ wlist = [w \in Workers |-> <<>>]
  /\ rq = <<>> /\ results = <<>>

(* ---- batcher ---- *)
BSend ==
  /\ bpc = "send"
  /\ IF bi > N
       THEN /\ bclosed' = TRUE /\ bpc' = "done" /\ UNCHANGED <<bi, bq>>
       ELSE /\ Len(bq) < BCapEff
            /\ bq' = Append(bq, bi)
            /\ bi' = bi + 1
            /\ bpc' = IF Cap = 0 THEN "wait" ELSE "send"
            /\ UNCHANGED bclosed
  /\ UNCHANGED <<btaken, mpc, mitem, wq, wclosed, wpc, wlist, rq, results>>

BWait ==   \* rendezvous: the send returns once the item has been taken
  /\ bpc = "wait"
  /\ btaken >= bi - 1
  /\ bpc' = "send"
  /\ UNCHANGED <<bi, bq, btaken, bclosed, mpc, mitem, wq, wclosed, wpc, wlist, rq, results>>

(* ---- main ---- *)
MRecvB ==
  /\ mpc = "recvb"
  /\ \/ /\ Len(bq) > 0
        /\ mitem' = Head(bq) /\ bq' = Tail(bq) /\ btaken' = btaken + 1
        /\ mpc' = "sendw"
        /\ UNCHANGED wclosed
     \/ /\ Len(bq) = 0 /\ bclosed
        /\ wclosed' = TRUE      \* drop(self.send)
        /\ mpc' = "recvr"
        /\ UNCHANGED <<mitem, bq, btaken>>
  /\ UNCHANGED <<bpc, bi, bclosed, wq, wpc, wlist, rq, results>>

MSendW ==
  /\ mpc = "sendw"
  /\ Len(wq) = 0
  /\ wq' = <<mitem>>
  /\ mpc' = "waitw"
  /\ UNCHANGED <<bpc, bi, bq, btaken, bclosed, mitem, wclosed, wpc, wlist, rq, results>>

MWaitW ==
  /\ mpc = "waitw"
  /\ Len(wq) = 0          \* the deposit has been picked up
  /\ mpc' = "recvb"
  /\ UNCHANGED <<bpc, bi, bq, btaken, bclosed, mitem, wq, wclosed, wpc, wlist, rq, results>>

AllWorkersDone == \A w \in Workers : wpc[w] = "done"

MRecvR ==
  /\ mpc = "recvr"
  /\ \/ /\ Len(rq) > 0
        /\ results' = results \o Head(rq)[2]
        /\ rq' = Tail(rq)
        /\ UNCHANGED mpc
     \/ /\ Len(rq) = 0 /\ AllWorkersDone
        /\ mpc' = "done"
        /\ UNCHANGED <<rq, results>>
  /\ UNCHANGED <<bpc, bi, bq, btaken, bclosed, mitem, wq, wclosed, wpc, wlist>>

(* ---- workers ---- *)
WRecv(w) ==
  /\ wpc[w] = "recv"
  /\ \/ /\ Len(wq) > 0
        /\ wlist' = [wlist EXCEPT ![w] = Append(@, Head(wq))]
        /\ wq' = Tail(wq)
        /\ UNCHANGED wpc
     \/ /\ Len(wq) = 0 /\ wclosed
        /\ wpc' = [wpc EXCEPT ![w] = "sendr"]
        /\ UNCHANGED <<wq, wlist>>
  /\ UNCHANGED <<bpc, bi, bq, btaken, bclosed, mpc, mitem, wclosed, rq, results>>

WSendR(w) ==
  /\ wpc[w] = "sendr"
  /\ Len(rq) = 0
  /\ rq' = <<<<w, wlist[w]>>>>
  /\ wpc' = [wpc EXCEPT ![w] = "waitr"]
  /\ UNCHANGED <<bpc, bi, bq, btaken, bclosed, mpc, mitem, wq, wclosed, wlist, results>>

WWaitR(w) ==
  /\ wpc[w] = "waitr"
  /\ ~(\E i \in 1..Len(rq) : rq[i][1] = w)    \* taken
  /\ wpc' = [wpc EXCEPT ![w] = "done"]
  /\ UNCHANGED <<bpc, bi, bq, btaken, bclosed, mpc, mitem, wq, wclosed, wlist, rq, results>>

Done == mpc = "done" /\ bpc = "done" /\ AllWorkersDone

Next ==
  \/ BSend \/ BWait \/ MRecvB \/ MSendW \/ MWaitW \/ MRecvR
  \/ \E w \in Workers : WRecv(w) \/ WSendR(w) \/ WWaitR(w)
  \/ (Done /\ UNCHANGED vars)

Spec == Init /\ [][Next]_vars

(* ---- properties ---- *)
TypeOK ==
  /\ Len(bq) <= BCapEff /\ Len(wq) <= 1 /\ Len(rq) <= 1

\* When the round is over, main holds every item exactly once.
IsPerm(s) == Len(s) = N /\ \A i \in 1..N : \E j \in 1..N : s[j] = i
Complete == Done => IsPerm(results)

\* Nothing is ever duplicated, anywhere, at any time.
NoDup == \A i, j \in 1..Len(results) : i # j => results[i] # results[j]

\* For trace conformance: TLC prints every reachable final result order
\* (run with -dump and filter the states where mpc = "done").
=============================================================================
