mod scope;
fn main() {
    for (name, h) in scope::scope_digests() {
        println!("PLAIN {:016x} {}", h, name);
    }
}
