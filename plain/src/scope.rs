// Shared by the guard-off binary (/verif/plain) and the hooks-on harness
// (included by #[path]): a digest over a fixed scope of public-API behaviour.
// Only the public API of `fst` is used.

use fst::automaton::{Levenshtein, Str, Subsequence};
use fst::{Automaton, IntoStreamer, Map, MapBuilder, Set, SetBuilder, Streamer};

fn fnv(h: &mut u64, bytes: &[u8]) {
    for &b in bytes {
        *h = (*h ^ b as u64).wrapping_mul(0x100000001b3);
    }
    *h = (*h ^ 0xff).wrapping_mul(0x100000001b3);
}

fn mix(mut z: u64) -> u64 {
    z = (z ^ (z >> 30)).wrapping_mul(0xbf58476d1ce4e5b9);
    z = (z ^ (z >> 27)).wrapping_mul(0x94d049bb133111eb);
    z ^ (z >> 31)
}

/// One digest per group; the groups are compared one by one.
pub fn scope_digests() -> Vec<(&'static str, u64)> {
    let mut out = vec![];
    // (1) every subset of a 10-key universe as set and as map
    let uni: [&[u8]; 10] = [b"", b"a", b"a\x00", b"aa", b"ab", b"abc", b"b", b"ba", b"c\xff", b"\xff"];
    let mut sorted: Vec<&[u8]> = uni.to_vec();
    sorted.sort();
    let mut h = 0xcbf29ce484222325u64;
    for mask in 0..(1u32 << 10) {
        let mut sb = SetBuilder::memory();
        let mut mb = MapBuilder::memory();
        for (i, k) in sorted.iter().enumerate() {
            if mask >> i & 1 == 1 {
                sb.insert(k).unwrap();
                mb.insert(k, mix(i as u64 + mask as u64) >> (8 * (i % 8))).unwrap();
            }
        }
        fnv(&mut h, &sb.into_inner().unwrap());
        fnv(&mut h, &mb.into_inner().unwrap());
    }
    out.push(("all subsets of a 10-key universe (set + map bytes)", h));
    // (2) wide nodes: every fan-out 1..=256 with 1..8 byte values, final root
    let mut h = 0xcbf29ce484222325u64;
    for n in 1..=256usize {
        let mut mb = MapBuilder::memory();
        mb.insert(b"", u64::MAX - n as u64).unwrap();
        for i in 0..n {
            mb.insert([((i * 256) / n) as u8, b'x'], mix(i as u64) >> (8 * (n % 8))).unwrap();
        }
        fnv(&mut h, &mb.into_inner().unwrap());
    }
    out.push(("fan-outs 1..256 with 1..8 byte values (map bytes)", h));
    // (3) 60000 keys with recurring tails: the default cache under pressure
    let keys: Vec<(Vec<u8>, u64)> = (0..60_000u64)
        .map(|i| (format!("{:06}/{:04x}", i, mix(mix(i) % 9000) % 65536).into_bytes(), i % 1000))
        .collect();
    let mut mb = MapBuilder::memory();
    for (k, v) in &keys {
        mb.insert(k, *v).unwrap();
    }
    let big = mb.into_inner().unwrap();
    let mut h = 0xcbf29ce484222325u64;
    fnv(&mut h, &big);
    let m2 = Map::from_iter(keys.iter().map(|(k, v)| (k, *v))).unwrap();
    fnv(&mut h, m2.as_fst().as_bytes());
    let mut sb = SetBuilder::memory();
    sb.extend_iter(keys.iter().map(|(k, _)| k)).unwrap();
    fnv(&mut h, &sb.into_inner().unwrap());
    out.push(("60000 keys with recurring tails (insert, from_iter, set extend_iter)", h));
    // (4) reading: stream, ranges, lookups, get_key, set operations, searches
    let map = Map::new(big).unwrap();
    let mut h = 0xcbf29ce484222325u64;
    let mut s = map.range().ge("030000").lt("030200").into_stream();
    while let Some((k, v)) = s.next() {
        fnv(&mut h, k);
        fnv(&mut h, &v.to_le_bytes());
    }
    for i in (0..60_000u64).step_by(97) {
        let k = &keys[i as usize].0;
        fnv(&mut h, &map.get(k).unwrap_or(u64::MAX).to_le_bytes());
        fnv(&mut h, &[map.contains_key(&k[..k.len() - 1]) as u8]);
    }
    fnv(&mut h, &(map.len() as u64).to_le_bytes());
    fnv(&mut h, &[map.as_fst().verify().is_ok() as u8]);
    out.push(("range / get / contains_key / len / verify on the big map", h));
    let words: Vec<String> = (0..3000u64).map(|i| format!("{}{}", ["caf\u{e9}", "cafe", "face", "fa\u{e7}ade", "\u{2603}now"][(i % 5) as usize], mix(i) % 400)).collect();
    let mut ws: Vec<&String> = words.iter().collect();
    ws.sort();
    ws.dedup();
    let set = Set::from_iter(ws.iter()).unwrap();
    let evens = Set::from_iter(ws.iter().step_by(2)).unwrap();
    let mut h = 0xcbf29ce484222325u64;
    for (q, d) in [("caf\u{e9}1", 1u32), ("face22", 2), ("\u{2603}now3", 1), ("", 2)] {
        let lev = Levenshtein::new(q, d).unwrap();
        let mut s = set.search(&lev).into_stream();
        while let Some(k) = s.next() {
            fnv(&mut h, k);
        }
        let mut s = set.search((&lev).complement().intersection(Str::new("face1").starts_with())).into_stream();
        while let Some(k) = s.next() {
            fnv(&mut h, k);
        }
    }
    let mut s = set.search(Subsequence::new("fe9")).ge("face").into_stream();
    while let Some(k) = s.next() {
        fnv(&mut h, k);
    }
    out.push(("Levenshtein / Str / Subsequence / combinator searches", h));
    let mut h = 0xcbf29ce484222325u64;
    let mut u = set.op().add(&evens).symmetric_difference();
    while let Some(k) = u.next() {
        fnv(&mut h, k);
    }
    let mut u = set.op().add(&evens).add(set.range().ge("f")).intersection();
    while let Some(k) = u.next() {
        fnv(&mut h, k);
    }
    fnv(&mut h, &[set.is_superset(&evens) as u8, evens.is_subset(&set) as u8, set.is_disjoint(&evens) as u8]);
    out.push(("set operations and predicates", h));
    // (5) get_key on a monotone map
    let mono = Map::from_iter(ws.iter().enumerate().map(|(i, k)| (k.as_bytes(), 3 * i as u64 + 1))).unwrap();
    let mut h = 0xcbf29ce484222325u64;
    for v in 0..200u64 {
        match mono.as_fst().get_key(v) {
            Some(k) => fnv(&mut h, &k),
            None => fnv(&mut h, b"-"),
        }
    }
    out.push(("get_key on a monotone map", h));
    out
}
