#!/bin/sh
# Offline build of the verification harness (and of fst with hooks enabled).
set -e
HERE=$(cd "$(dirname "$0")" && pwd)
export CARGO_NET_OFFLINE=true
unset RUSTFLAGS || true
cd "$HERE/harness"
cargo build --release --offline
# the real fst binary (guard off) for the free-running part of C19
cd /repo
CARGO_TARGET_DIR="$HERE/harness/target/fstbin" cargo build --release --offline -p fst-bin
# the guard-off parity binary of C15 (the library as shipped)
cd "$HERE/plain"
cargo build --release --offline
