#!/bin/sh
# Cross-detection sample: one seeded change per property (the first of each)
# against the quick tier of ALL twenty checks, in an isolated copy (/tmp/mx2).
# Output: /verif/seeded/CROSS.txt (rows = seeded change, columns = checks that alarm)
set -u
MX=/tmp/mx2
rm -rf $MX; mkdir -p $MX
git -C /repo worktree prune
git -C /repo worktree add --detach $MX/repo HEAD -q
mkdir -p $MX/verif
cp -r /verif/harness $MX/verif/harness 2>/dev/null
rm -rf $MX/verif/harness/target
cp -r /verif/golden /verif/model /verif/known_findings.json /verif/check /verif/setup.sh $MX/verif/
cp -r /verif/plain $MX/verif/plain; rm -rf $MX/verif/plain/target
sed -i "s#/repo#$MX/repo#g" $MX/verif/plain/Cargo.toml
grep -rl "/repo" $MX/verif/harness --include=*.rs --include=*.toml | xargs sed -i "s#/repo#$MX/repo#g"
sed -i "s#/repo#$MX/repo#g" $MX/verif/check $MX/verif/setup.sh
(cd $MX/verif && ./setup.sh >/dev/null 2>&1) || { echo "setup failed"; exit 2; }
OUT=/verif/seeded/CROSS.txt
: > $OUT
ALL="C01 C02 C03 C04 C05 C06 C07 C08 C09 C10 C11 C12 C13 C14 C15 C16 C17 C18 C19 C20"
for id in ${SEEDS:-C01-m1 C02-m1 C03-m1 C04-m1 C05-m1 C06-m1 C07-m1 C08-m1 C09-m1 C10-m1 C11-m1 C12-m1 C13-m1 C14-m1 C15-m1 C16-m1 C17-m1 C18-m1 C19-m1 C20-m1 C06-m7 C06-m8 C01-m8 C02-m7 C12-m7 C16-m8}; do
    d=/verif/seeded/$id
    (cd $MX/repo && git checkout -q -- . && git apply $d/patch.diff) || { echo "$id APPLY-FAIL" >> $OUT; continue; }
    line="$id:"
    for c in $ALL; do
        (cd $MX/verif && nice -n 5 ./check $c quick >/dev/null 2>&1); code=$?
        [ $code -eq 1 ] && line="$line $c"
        [ $code -ge 2 ] && line="$line $c(machinery:$code)"
    done
    echo "$line" >> $OUT
    (cd $MX/repo && git checkout -q -- .)
done
git -C /repo worktree remove --force $MX/repo; rm -rf $MX
echo DONE >> $OUT
