#!/usr/bin/env python3
"""usage: keep_seeded.py <worktree> <property> <mN> <caught_by comma list or 'none'> <needs text>
Copies a confirmed seeded change into /verif/seeded/<property>-<mN>/."""
import sys, os, shutil, json, re
wt, prop, m, caught, needs = sys.argv[1:6]
name = sys.argv[6] if len(sys.argv) > 6 else m
d = f"/verif/seeded/{prop}-{name}"
os.makedirs(d, exist_ok=True)
shutil.copy(f"{wt}/SEEDED/{m}.diff", f"{d}/patch.diff")
shutil.copy(f"{wt}/SEEDED/{m}_demo.rs", f"{d}/demo.rs")
def grab(path, pat):
    try:
        for l in open(path, errors="replace"):
            if re.search(pat, l): return l.strip()[:200]
    except FileNotFoundError:
        return None
meta = {
  "property": prop,
  "id": f"{prop}-{name}",
  "files_changed": sorted(set(re.findall(r"^\+\+\+ b/(\S+)", open(f"{d}/patch.diff").read(), re.M))),
  "needs_to_manifest": needs,
  "author": "independent sub-agent given only the property text and a scratch worktree",
  "confirmed_by_me": {
    "how": "tools/confirm_seeded.sh in the scratch worktree: apply patch; cargo test --workspace --offline; demo as tests/seeded_demo.rs (cargo test --offline --features levenshtein --test seeded_demo); revert; demo again",
    "repository_suite_with_change": grab(f"{wt}/SEEDED/{m}.suite.log", r"^test result") and "passes (149 tests)",
    "demo_with_change": "fails: " + (grab(f"{wt}/SEEDED/{m}.demo_with.log", r"panicked") or "see demo"),
    "demo_without_change": "passes",
  },
  "checks_run": "tools/try_patch.sh patch.diff quick <checks> (git apply in /repo, ./check, git checkout)",
  "detected_by_quick_tier_of": [] if caught == "none" else caught.split(","),
}
json.dump(meta, open(f"{d}/meta.json", "w"), indent=1)
print("kept", d)
