#!/bin/sh
# usage: tools/benign.sh <iso-dir> <Bxx> [checks...]   runs /verif/seeded/benign/<Bxx>-b{1,2,3}.diff against the given checks
# (default: the per-area list below) in the isolated copy. Every line should say exit=0.
ISO=$1; B=$2; shift 2
case $B in
 B01) L="C01 C06 C07 C08 C09 C11 C12 C13 C15 C16" ;;
 B02) L="C01 C02 C09 C12 C13 C15" ;;
 B03) L="C01 C07 C08 C09 C10 C11 C12 C13 C15" ;;
 B04) L="C01 C02 C03 C04 C05 C10 C14 C16 C20" ;;
 B05) L="C01 C02 C03 C04 C05 C08 C10 C14 C16 C17 C20" ;;
 B06) L="C05 C10 C14 C15" ;;
 B07) L="C07 C08 C09 C11 C13 C15 C20" ;;
 B08) L="C04 C14 C17 C18" ;;
 B09) L="C19" ;;
 B10) L="C01 C05 C06 C11 C13 C14 C15" ;;
esac
[ $# -gt 0 ] && L="$*"
for b in b1 b2 b3; do
  f=/verif/seeded/benign/$B-$b.diff
  [ -f $f ] || continue
  /verif/tools/iso.sh try $ISO $f quick $L | sed "s/^/$B $b: /"
done
