#!/usr/bin/env python3
"""Rewrites the table of DESIGN.md section 12.4 from /verif/evidence/*.json."""
import json, glob, re
rows = []
for f in sorted(glob.glob('/verif/evidence/C*.json')):
    e = json.load(open(f)); c = e['coverage']
    def n(x):
        x = x or 0
        return f"{x/1e6:.1f} M" if x >= 1e6 else (f"{x/1e3:.0f} k" if x >= 1e4 else str(x))
    rows.append(f"| {e['property_id']} | {e['tier']} | {n(c.get('states'))} | {n(c.get('transitions'))} | {n(c.get('evaluations'))} | {n(c.get('distinct_nontrivial'))} | {len(c.get('scopes_completed') or [])} / {len(c.get('scopes_incomplete') or [])} | {e.get('wall_s', 0):.0f} s |")
table = "| id | tier | states | transitions | evaluations | non-trivial | scopes completed / incomplete | wall |\n|----|------|--------|-------------|-------------|-------------|------|------|\n" + "\n".join(rows)
p = '/verif/DESIGN.md'; s = open(p).read()
b, e_ = '<!-- COVERAGE-TABLE-BEGIN -->', '<!-- COVERAGE-TABLE-END -->'
i, j = s.index(b) + len(b), s.index(e_)
open(p, 'w').write(s[:i] + "\n" + table + "\n" + s[j:])
print(table)
