#!/bin/sh
# usage: tools/confirm_seeded.sh <worktree> <m1|m2|...>
# Confirms in the scratch worktree that (1) the repository's own tests pass
# with the change, (2) the demonstration fails with it, (3) passes without it.
set -u
WT=$1; M=$2
cd "$WT" || exit 2
git checkout -q -- . ; rm -f tests/seeded_demo.rs
git apply "SEEDED/$M.diff" || { echo "APPLY-FAIL"; exit 2; }
if RUSTFLAGS="--cfg burntsushi_fst_verif" cargo build --offline --features levenshtein >/dev/null 2>&1; then echo "hooks-on build: ok"; else echo "hooks-on build: FAIL"; fi
if cargo test --workspace --offline >SEEDED/$M.suite.log 2>&1; then echo "suite with change: pass ($(grep -c '^test .* ok$' SEEDED/$M.suite.log) tests ok)"; else echo "suite with change: FAIL"; grep -E "FAILED|failed|error" SEEDED/$M.suite.log | head -5; fi
cp "SEEDED/${M}_demo.rs" tests/seeded_demo.rs
if cargo test --offline --features levenshtein --test seeded_demo >SEEDED/$M.demo_with.log 2>&1; then echo "demo with change: PASSES (bad)"; else echo "demo with change: fails (good) - $(grep -m1 -E "panicked|assert" SEEDED/$M.demo_with.log | cut -c1-160)"; fi
git checkout -q -- .
if cargo test --offline --features levenshtein --test seeded_demo >SEEDED/$M.demo_without.log 2>&1; then echo "demo without change: passes (good)"; else echo "demo without change: FAILS (bad)"; tail -5 SEEDED/$M.demo_without.log; fi
rm -f tests/seeded_demo.rs
