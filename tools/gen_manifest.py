#!/usr/bin/env python3
"""Regenerates /verif/MANIFEST.json from the table below and validates it."""
import json, subprocess, sys

HOOK_COMMITS = subprocess.run(
    ["git", "-C", "/repo", "log", "--format=%H %s", "--grep", "^verif hook"],
    capture_output=True, text=True).stdout.strip().splitlines()

MC = "model_checking"
# id -> (level, technique, level text, level note, design ref)
CHECKS = {
 "C01": (MC, "explicit-state enumeration of all insert histories of small universes on the real builder/readers vs ordered-map model",
         "Every subset of three 13-15 key universes (every valid insert history), crossed with value patterns, cache geometries (hook H1) and all 17 front ends, plus fan-out 0..256 families, is built by the real code and read back through every reader; result compared with a BTreeMap. Exhaustive inside the named scopes; nothing outside them is claimed.",
         "Trusted: the harness model and enumeration code. Non-raw front ends only run under the default cache geometry.", "DESIGN.md section 5 C01"),
 "C02": (MC, "explicit-state enumeration: every FST of the small universes x full probe closure vs ordered-map model",
         "For every FST of the C01 universes (two cache geometries) and the fan-out families every probe of the closure (keys, prefixes, extensions, substitutions, all 256 bytes under wide nodes) is looked up through Fst/Map/Set get/contains and compared with the model.",
         "Trusted: harness model. Probes outside the closure are not claimed.", "DESIGN.md section 5 C02"),
 "C03": (MC, "explicit-state enumeration: every FST x every (lower kind,key,upper kind,key) incl. inverted ranges and repeated bound calls vs model filter",
         "All bound combinations over a closed set of bound keys around the keys of every FST of the universes, through raw/Map/Set range builders; the stream must equal the model filter and stay ended.",
         "'same kind of bound' is read as the same side (lower: ge/gt, upper: le/lt); the last call on a side wins with its own inclusivity.", "DESIGN.md section 5 C03"),
 "C04": (MC, "explicit-state enumeration: FST x bounds x every small table DFA with every sound hint assignment vs independent run of the table",
         "Every 1-2 (thorough 3) state DFA over two byte classes with every sound can_match assignment is searched (search and search_with_state) over every FST/bounds of the scope and compared with an independent run of the table incl. reported states; shipped automata, combinators, Levenshtein and regex-automata DFAs against specification predicates.",
         "Contract-abiding = deterministic, sound can_match, default accept_eof.", "DESIGN.md section 5 C04"),
 "C05": (MC, "explicit-state enumeration: all k-tuples (k<=6) of subsets of a small universe x stream kinds x 4 operations + 3 predicates vs set algebra",
         "All tuples of subsets, heap-tie values, mixed stream kinds, three OpBuilder front ends; emitted keys and IndexedValue sets compared with set algebra on the models.",
         "Order inside an IndexedValue list is unspecified and normalised.", "DESIGN.md section 5 C05"),
 "C06": (MC, "explicit-state enumeration of all call histories up to a depth on 4 builder kinds + 10 bulk entry points vs reference builder model, step by step",
         "Every history of insert calls (valid/duplicate/smaller/empty keys at every position) up to depth 4-7; every call result with payload and the finished content after EVERY prefix compared with a reference builder; same histories through from_iter/extend_iter/extend_stream.",
         "Mixing add and insert on one raw builder is outside the property.", "DESIGN.md section 5 C06"),
 "C07": (MC, "deviation-bounded exhaustive exploration of sink answer schedules (short writes, Interrupted) on the real builder vs in-memory build",
         "For fixed inputs covering every emission site, every answer sequence of the sink with <= d deviations (d = 2..4), policy sinks deviating on every call, BufWriter and pre-filled containers; bytes, bytes_written() after every insert and verify() compared with the in-memory build.",
         "The sink honours the io::Write contract.", "DESIGN.md section 5 C07"),
 "C08": (MC, "exhaustive single-byte/burst mutation of small FSTs + all chunkings of the checksummer vs independent bitwise CRC-32C",
         "Every byte position x every replacement value (and 2-4 byte bursts) of every small FST must not pass open+verify; the trailer of every builder output equals an independent masked CRC-32C; all 2-/3-cuts across the 16-byte fast path agree (hook H3).",
         "Independent CRC validated on the RFC 3720 vector.", "DESIGN.md section 5 C08"),
 "C09": (MC, "every builder output of the C01 space decoded by an independent decoder written from the format description (tiling, targets, content)",
         "Independent decoder checks header/footer, reference CRC, gap-free tiling, earlier in-bounds targets, index tables, and that reading by the description alone yields the model; includes files with 1-3 (thorough 4) byte deltas.",
         "The format description in DESIGN.md is the documented format.", "DESIGN.md section 5 C09"),
 "C10": (MC, "model space encoded by an independent v1/v2/v3 reference encoder and read by the real reader from every container type; version x length gate grid; golden files",
         "Reference-encoded files (3 versions x 3 layouts) opened from Vec/slice/Cow/Box/Arc/mmap/map_data answer stream/get/range/search/set operations/verify exactly; header gate grid over version values and lengths 0..40; committed golden files.",
         "No earlier fst release is available offline; v1/v2 are produced by the reference encoder, which is bound to the code by the real reader, the independent decoder and byte identity of its v3 output with the real builder.", "DESIGN.md section 5 C10"),
 "C11": ("fault_enumeration", "exhaustive fault injection: every sink call index x failure kind x single/persistent x API, also after one benign deviation",
         "W measured per input; every write/flush call failing with 3 error kinds or Ok(0); the API call in progress must return Err(Io), no panic, no silent success, accepted bytes stay a prefix of the fault-free output.",
         "The caller stops at the first Err.", "DESIGN.md section 5 C11"),
 "C12": (MC, "explicit-state enumeration of all key sets x cache geometries with observed eviction counters vs independently computed minimal DFA / trie",
         "For every build the eviction premise is observed (hook H2); eviction-free builds must have no duplicate nodes and sets must hit the minimal acyclic DFA size; every build obeys the trie bound; corpora sharing ratio > 0.5.",
         "Equivalence is checked as identical node content over already-deduplicated targets. Corpora clause is three fixed evaluations.", "DESIGN.md section 5 C12"),
 "C16": (MC, "explicit-state enumeration of all strictly monotone maps of small universes x all query values vs inverse of the model",
         "Every key set (<=5/7 keys) x every strictly increasing assignment from a small range plus boundary/MAX assignments; get_key/get_key_into (fresh, pre-filled and arena buffers) for all values around the stored ones.",
         "Buffer content after a false return is unspecified.", "DESIGN.md section 5 C16"),
 "C17": (MC, "exhaustive enumeration of all (q,d,k) over an 8-character mixed-width alphabet vs Wagner-Fischer on scalar values; all state limits 0..N+2",
         "All queries |q|<=3, d<=2, all keys |k|<=4 (thorough 5) through the real DFA, plus Set/Map searches and complement/starts_with, plus the state-limit clause via hook H4, plus a finite family of large automata (up to >130000 states behind new_with_limit) against systematic keys 0..5 edits away.",
         "Edit distance without transpositions.", "DESIGN.md section 5 C17"),
 "C18": (MC, "bounded exhaustive enumeration of combinator expressions over real types x all strings up to the pumping bound vs explicit product DFA",
         "About 10^6 expressions built from the real StartsWith/Complement/Union/Intersection types over leaves with every sound hint assignment; is_match equality and hint soundness for every string up to min(n+1, cap); operands also passed by reference; a finite family of long / non-ASCII Str and Subsequence patterns against their definitions.",
         "Strings, not implementation states, are enumerated because state types are opaque.", "DESIGN.md section 5 C18"),
 "C20": ("exploration", "boundary-value grid of headers/footers for lengths 0..64 + all truncations/single-byte mutations of small FSTs under catch_unwind; forbid(unsafe_code) lint",
         "No panic from open + metadata + verify on ~20M untrusted byte strings (overflow checks on), including files of the independent reference encoder in versions 1-3 relabelled to every other version, truncated, and mutated with the checksum recomputed (reaching the code behind the checksum test); the library compiles under -F unsafe_code.",
         "The unsafe clause is a compiler lint, not model checking. Later operations on garbage may panic by the property's wording.", "DESIGN.md section 5 C20"),
 "C13": ("exploration", "invariant on the builder's live heap (counting allocator) checked in every state of exhaustively enumerated small scopes under tiny cache geometries + finite N ladder",
         "After and at the peak during every insert of every history of the small scopes the builder's live heap stays under a bound without any term in the number of keys; four ladders N = 1e4..4e5 (thorough 1e7): fixed-length keys, alternating key lengths, prefix pairs, and distinct wide nodes (fan-out 40), with plateau assertions for small caches. The asymptotic 'for all N' clause is not decided by a bounded exploration.",
         "Bound formula B(rows,cols,F,L) is the harness's reading of 'a constant determined by cache geometry, fan-out and key length'. The ladder is a finite family, not an enumeration.", "DESIGN.md section 5 C13"),
 "C14": ("exploration", "zero-allocation and live-heap invariants (counting allocator) checked at every next() of every traversal/set operation of exhaustively enumerated small scopes + finite N ladder",
         "Open and lookups on borrowed bytes allocate nothing; live heap after every next() of stream/range/search and of k-way set operations is bounded by a function of L and k only; ladder N = 1e4, 1e5 (thorough 1e6) over partially overlapping, identical and disjoint inputs shows identical extra heap, on a narrow ladder and on a wide-node ladder (dense root, N/40 distinct wide nodes, up to 655360 keys).",
         "'for all N' beyond the ladder is not decided.", "DESIGN.md section 5 C14"),
 "C15": (MC, "byte equality over all front ends for the enumerated sequences + exhaustive call-level interleavings of 2-3 concurrent builders + digests across threads and processes",
         "All 17 front ends and 4 sinks give identical bytes (also under evicting cache geometries; also a bulk-load size ladder of 1..400004 items, thorough 3.3 million, through every bulk entry point); every multiset permutation of the API calls of two (three) builders leaves each builder's output equal to its solo run; whole-scope digest equal on 8 threads and in 4 processes; builders moved between fresh threads; a guard-off build of the library agrees with the hooks-on build on a fixed scope.",
         "No synchronisation exists in the library (scanned), so a controlled thread scheduler would be vacuous; threads/processes part is a repetition, not an enumeration.", "DESIGN.md section 5 C15"),
 "C19": (MC, "stateful exhaustive exploration of all channel-level schedules of the real merge pipeline (controlled scheduler, happens-before state caching) x configuration grid vs merge model",
         "The real cmd::map/set::run runs in-process under a controlled scheduler (hook H5): all interleavings of listed configurations (up to 3 batches / 2-3 workers / 2 generations) are explored; every complete execution must give a verifiable FST equal to the model merge and byte-identical across schedules; grid of all small inputs x batch/fd/threads/mode and a many-batches family (5..24 batches) under the default schedule, and the free-running real binary. A TLA+ model of one pipeline round (model/MergeRound.tla) is bound to the code by outcome conformance (for every explored round the set of result orders reachable in the model, from TLC's state dump, equals the set observed in the code) and is then model-checked with TLC for larger rounds (deadlock freedom, nothing lost or duplicated).",
         "Threads interact only through channels (checked by unique-file trace); equal per-thread histories imply equal futures.", "DESIGN.md section 5 C19"),
}
PENDING = {}
SEQREAD = {"C01", "C02", "C03", "C04", "C08", "C10", "C16", "C20"}

def main():
    props = [json.loads(l) for l in open("/verif/properties.jsonl")]
    checks = []
    na = []
    for p in props:
        pid = p["id"]
        if pid in CHECKS:
            level, tech, text, note, ref = CHECKS[pid]
            checks.append({
                "property_id": pid,
                "quick_cmd": f"./check {pid} quick",
                "thorough_cmd": f"./check {pid} thorough",
                "evidence_file": f"/verif/evidence/{pid}.json",
                "replay_cmd_template": f"./check {pid} --replay {{path}}",
                "engine": "binharness" if pid == "C19" else "mc-harness",
                "level_claimed": {"category": level, "text": text + (" Also: every reader call sequence of <= 4 (thorough 5) operations on two handles (DESIGN.md 12.19), judged for this property's operations." if pid in SEQREAD else "") + (" Cases are built after unhappy histories on the same thread (failed, abandoned and rejected builds, abandoned traversals; DESIGN.md 12.19)." if pid != "C19" else ""), "design_ref": ref},
                "level_note": note,
                "technique": tech + ("; bounded exhaustive exploration of reader call sequences (<= 4 calls, thorough 5, over a 46-operation alphabet on two handles) against a reference model" if pid in SEQREAD else "") + ("; TLC explicit-state model checking of a TLA+ protocol model with outcome conformance against the explored implementation" if pid == "C19" else ""),
            })
        else:
            na.append({"property_id": pid, "reason": PENDING.get(pid, "check under construction in this session; not claimed until it is built and shown green on the tree")})
    m = {
        "version": 1,
        "setup_cmd": "./setup.sh",
        "hooks": {
            "guard": "--cfg burntsushi_fst_verif",
            "enable": "harness/.cargo/config.toml sets build.rustflags = [\"--cfg\", \"burntsushi_fst_verif\"] for the harness workspace, which depends on fst by path (/repo) and includes fst-bin sources by #[path]",
            "baseline_off_cmd": "cd /repo && cargo test --workspace --no-fail-fast --offline",
            "source_commits": [l.split()[0] for l in HOOK_COMMITS],
            "add_only": True,
        },
        "engines": [
            {"name": "mc-harness", "path": "/verif/harness/mc", "serves_properties": sorted(k for k in CHECKS if k != "C19"),
             "kind_free_text": "SEQ/ENV engines: bounded exhaustive enumeration of histories, inputs and sink answer schedules on the real library, compared with reference models (Rust)"},
            {"name": "binharness", "path": "/verif/harness/binharness", "serves_properties": ["C19"] if "C19" in CHECKS else [],
             "kind_free_text": "SCHED engine: controlled scheduler over the real fst-bin merge pipeline (channel-level choice points, happens-before state caching)"},
            {"name": "plain", "path": "/verif/plain", "serves_properties": ["C15"],
             "kind_free_text": "guard-OFF parity binary: the library built without the verification cfg digests a fixed scope of public-API behaviour; C15 compares it with the hooks-on process, so that code compiled only when the guard is off is not invisible to the harness"},
        ],
        "checks": checks,
        "not_applicable": na,
        "notes": "See DESIGN.md. Exit codes: 0 held, 1 VIOLATION, 2 machinery failure.",
    }
    json.dump(m, open("/verif/MANIFEST.json", "w"), indent=1)
    try:
        import jsonschema
        jsonschema.validate(m, json.load(open("/root/.vp/MANIFEST.schema.json")))
        print("MANIFEST.json valid;", len(checks), "checks,", len(na), "not claimed")
    except ImportError:
        print("jsonschema not available; not validated")

if __name__ == "__main__":
    main()
