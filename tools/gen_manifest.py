#!/usr/bin/env python3
"""Regenerates /verif/MANIFEST.json from the table below and validates it."""
import json, subprocess, sys

HOOK_COMMITS = subprocess.run(
    ["git", "-C", "/repo", "log", "--format=%H %s", "--grep", "^verif hook"],
    capture_output=True, text=True).stdout.strip().splitlines()

MC = "model_checking"
# id -> (level, technique, level text, level note, design ref)
CHECKS = {
 "C01": (MC, "explicit-state enumeration of all insert histories of small universes on the real builder/readers vs ordered-map model",
         "Every subset of three 13-15 key universes (every valid insert history), crossed with value patterns, cache geometries (hook H1) and all 17 front ends, plus fan-out 0..256 families, is built by the real code and read back through every reader; result compared with a BTreeMap. Exhaustive inside the named scopes; nothing outside them is claimed.",
         "Trusted: the harness model and enumeration code. Non-raw front ends only run under the default cache geometry.", "DESIGN.md section 5 C01"),
}
PENDING = {}

def main():
    props = [json.loads(l) for l in open("/verif/properties.jsonl")]
    checks = []
    na = []
    for p in props:
        pid = p["id"]
        if pid in CHECKS:
            level, tech, text, note, ref = CHECKS[pid]
            checks.append({
                "property_id": pid,
                "quick_cmd": f"./check {pid} quick",
                "thorough_cmd": f"./check {pid} thorough",
                "evidence_file": f"/verif/evidence/{pid}.json",
                "replay_cmd_template": f"./check {pid} --replay {{path}}",
                "engine": "mc-harness",
                "level_claimed": {"category": level, "text": text, "design_ref": ref},
                "level_note": note,
                "technique": tech,
            })
        else:
            na.append({"property_id": pid, "reason": PENDING.get(pid, "check under construction in this session; not claimed until it is built and shown green on the tree")})
    m = {
        "version": 1,
        "setup_cmd": "./setup.sh",
        "hooks": {
            "guard": "--cfg burntsushi_fst_verif",
            "enable": "harness/.cargo/config.toml sets build.rustflags = [\"--cfg\", \"burntsushi_fst_verif\"] for the harness workspace, which depends on fst by path (/repo) and includes fst-bin sources by #[path]",
            "baseline_off_cmd": "cd /repo && cargo test --workspace --no-fail-fast --offline",
            "source_commits": [l.split()[0] for l in HOOK_COMMITS],
            "add_only": True,
        },
        "engines": [
            {"name": "mc-harness", "path": "/verif/harness/mc", "serves_properties": sorted(k for k in CHECKS if k != "C19"),
             "kind_free_text": "SEQ/ENV engines: bounded exhaustive enumeration of histories, inputs and sink answer schedules on the real library, compared with reference models (Rust)"},
            {"name": "binharness", "path": "/verif/harness/binharness", "serves_properties": ["C19"] if "C19" in CHECKS else [],
             "kind_free_text": "SCHED engine: controlled scheduler over the real fst-bin merge pipeline (channel-level choice points, happens-before state caching)"},
        ],
        "checks": checks,
        "not_applicable": na,
        "notes": "See DESIGN.md. Exit codes: 0 held, 1 VIOLATION, 2 machinery failure.",
    }
    json.dump(m, open("/verif/MANIFEST.json", "w"), indent=1)
    try:
        import jsonschema
        jsonschema.validate(m, json.load(open("/root/.vp/MANIFEST.schema.json")))
        print("MANIFEST.json valid;", len(checks), "checks,", len(na), "not claimed")
    except ImportError:
        print("jsonschema not available; not validated")

if __name__ == "__main__":
    main()
