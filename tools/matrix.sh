#!/bin/sh
# Runs every kept seeded change against every quick check in an isolated copy
# (/tmp/mx: copy of /repo HEAD + copy of the harness with paths rewritten), so
# that /repo and /verif are not touched. Output: /verif/seeded/MATRIX.txt
set -u
MX=/tmp/mx
rm -rf $MX; mkdir -p $MX
git -C /repo worktree add --detach $MX/repo HEAD -q
mkdir -p $MX/verif
cp -r /verif/harness $MX/verif/harness 2>/dev/null
rm -rf $MX/verif/harness/target
cp -r /verif/golden /verif/known_findings.json /verif/check /verif/setup.sh $MX/verif/
grep -rl "/repo" $MX/verif/harness --include=*.rs --include=*.toml | xargs sed -i "s#/repo#$MX/repo#g"
sed -i "s#/repo#$MX/repo#g" $MX/verif/check $MX/verif/setup.sh
(cd $MX/verif && ./setup.sh >/dev/null 2>&1) || { echo "setup failed"; exit 2; }
OUT=/verif/seeded/MATRIX.txt
: > $OUT
CHECKS="C01 C02 C03 C04 C05 C06 C07 C08 C09 C10 C11 C12 C13 C14 C15 C16 C17 C18 C20"
for d in /verif/seeded/C*-m*; do
    id=$(basename $d)
    case $id in C19-*) list="C19";; *) list="$CHECKS";; esac
    (cd $MX/repo && git checkout -q -- . && git apply $d/patch.diff) || { echo "$id APPLY-FAIL" >> $OUT; continue; }
    caught=""
    for c in $list; do
        (cd $MX/verif && nice -n 5 ./check $c quick >/dev/null 2>&1); code=$?
        [ $code -eq 1 ] && caught="$caught $c"
        [ $code -ge 2 ] && caught="$caught $c(machinery:$code)"
    done
    echo "$id:$caught" >> $OUT
    (cd $MX/repo && git checkout -q -- .)
done
git -C /repo worktree remove --force $MX/repo; rm -rf $MX
echo DONE >> $OUT
