#!/bin/sh
# For one seeded change per property: the check must report it, the replay of
# the first recorded case must fail with the change and pass without it.
for p in C01 C02 C03 C04 C05 C06 C07 C08 C09 C10 C11 C12 C13 C14 C15 C16 C17 C18 C19 C20; do
  d=/verif/seeded/$p-m1
  git -C /repo diff --quiet || { echo "repo dirty"; exit 2; }
  git -C /repo apply $d/patch.diff || { echo "$p apply fail"; continue; }
  (cd /verif && ./check $p quick >/tmp/rt.out 2>&1); c1=$?
  f=$(grep -m1 -o "replay=[^ ]*" /tmp/rt.out | cut -d= -f2)
  cp "$f" /tmp/rt-case.json 2>/dev/null
  (cd /verif && ./check $p --replay /tmp/rt-case.json >/tmp/rt2.out 2>&1); c2=$?
  git -C /repo checkout -- .
  (cd /verif && ./check $p --replay /tmp/rt-case.json >/tmp/rt3.out 2>&1); c3=$?
  echo "$p check=$c1 replay_with_change=$c2 replay_without=$c3 $(tail -1 /tmp/rt3.out | cut -c1-90)"
done
