#!/bin/sh
# usage: tools/try_patch.sh <patch.diff> <tier> <Cxx> [<Cyy> ...]
# Applies a seeded change to /repo, runs the given checks, and ALWAYS reverts.
# Prints one line per check: "<id> exit=<code>" (1 = violation reported).
set -u
PATCH=$1; TIER=$2; shift 2
if ! git -C /repo diff --quiet; then echo "refusing: /repo is dirty" >&2; exit 2; fi
if ! git -C /repo apply "$PATCH"; then echo "patch does not apply" >&2; exit 2; fi
# the evidence files of /verif must only ever describe runs on the unchanged tree
EVBAK=$(mktemp -d); cp -a /verif/evidence/. "$EVBAK"/
for c in "$@"; do
    out=$(cd /verif && ./check "$c" "$TIER" 2>&1); code=$?
    first=$(printf '%s\n' "$out" | grep -m1 "^  \[$c\]" | cut -c1-260)
    echo "$c exit=$code $first"
done
git -C /repo checkout -- . 
rm -rf /verif/evidence; mkdir -p /verif/evidence; cp -a "$EVBAK"/. /verif/evidence/; rm -rf "$EVBAK"
git -C /repo status --short | grep -v '^??' | head
