#!/bin/sh
# Isolated copy of /repo (a worktree) and of the harness, so that seeded or benign changes can
# be run against the checks while /repo and /verif stay free for other work.
#   tools/iso.sh setup <dir>                          create <dir>/repo + <dir>/verif, build
#   tools/iso.sh sync <dir>                           refresh <dir>/verif from /verif (keeps target dirs)
#   tools/iso.sh try <dir> <patch> <tier> <Cxx>...    apply, run the checks, ALWAYS revert
#         prints "<Cxx> exit=<code> <first violation line>" per check
#   tools/iso.sh drop <dir>                           remove everything again
set -u
cmd=$1; MX=$2; shift 2
copy_verif() {
    mkdir -p $MX/verif
    rsync -a --delete --exclude target /verif/harness/ $MX/verif/harness/
    rsync -a --delete --exclude target /verif/plain/ $MX/verif/plain/
    rsync -a --delete /verif/golden /verif/model $MX/verif/
    cp /verif/known_findings.json /verif/check /verif/setup.sh $MX/verif/
    sed -i "s#/repo#$MX/repo#g" $MX/verif/plain/Cargo.toml
    grep -rl "/repo" $MX/verif/harness --include=*.rs --include=*.toml --exclude-dir=target | xargs sed -i "s#/repo#$MX/repo#g"
    sed -i "s#/repo#$MX/repo#g" $MX/verif/check $MX/verif/setup.sh
}
case $cmd in
setup)
    rm -rf $MX; mkdir -p $MX
    git -C /repo worktree prune
    git -C /repo worktree add --detach $MX/repo HEAD -q || exit 2
    copy_verif
    (cd $MX/verif && ./setup.sh >$MX/setup.log 2>&1) || { echo "setup failed"; tail $MX/setup.log; exit 2; }
    echo "iso ready: $MX" ;;
sync)
    copy_verif ;;
try)
    PATCH=$1; TIER=$2; shift 2
    (cd $MX/repo && git checkout -q -- . && git apply "$PATCH") || { echo "APPLY-FAIL"; exit 2; }
    for c in "$@"; do
        out=$(cd $MX/verif && nice -n 5 ./check "$c" "$TIER" 2>&1); code=$?
        first=$(printf '%s\n' "$out" | grep -m1 "^  \[$c\]" | cut -c1-240)
        [ $code -ge 2 ] && first=$(printf '%s\n' "$out" | tail -3 | tr '\n' ' ' | cut -c1-240)
        echo "$c exit=$code $first"
    done
    (cd $MX/repo && git checkout -q -- .) ;;
drop)
    git -C /repo worktree remove --force $MX/repo; rm -rf $MX; git -C /repo worktree prune ;;
esac
