#!/bin/sh
# usage: tools/heldout.sh <worktree-prefix> <ids...>   e.g. tools/heldout.sh /tmp/wt7- C01 C02
# For every <prefix><id>/SEEDED/m{1,2}: confirm (suite passes, demo fails with / passes without the
# change) and run the quick tier of the property's own check once against the change. One line each.
P=$1; shift
for id in "$@"; do
  for m in m1 m2; do
    d=$P$id/SEEDED
    [ -f $d/$m.diff ] || { echo "$id $m: no diff"; continue; }
    if [ -f $d/${m}_demo.rs ]; then
      conf=$(/verif/tools/confirm_seeded.sh $P$id $m 2>&1 | tr '\n' ' ')
      ok=yes
      echo "$conf" | grep -q "suite with change: pass" || ok=no
      echo "$conf" | grep -q "demo with change: fails (good)" || ok=no
      echo "$conf" | grep -q "demo without change: passes (good)" || ok=no
    else
      ok="sh-demo"
    fi
    r=$(/verif/tools/try_patch.sh $d/$m.diff quick $id | cut -c1-200)
    echo "$id $m: confirmed=$ok :: $r"
  done
done
