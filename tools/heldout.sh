#!/bin/sh
# usage: tools/heldout.sh <worktree-prefix> <ids...>   e.g. tools/heldout.sh /tmp/wt7- C01 C02
# For every <prefix><id>/SEEDED/m{1,2,3}: confirm (suite passes, demo fails with / passes without the
# change) and run the quick tier of the property's own check once against the change, in the isolated
# copy $ISO (default /tmp/iso1, see tools/iso.sh; ISO=none: in /repo itself through try_patch.sh).
P=$1; shift
ISO=${ISO:-/tmp/iso1}
for id in "$@"; do
  for m in m1 m2 m3; do
    d=$P$id/SEEDED
    [ -f $d/$m.diff ] || continue
    if [ -f $d/${m}_demo.rs ]; then
      conf=$(/verif/tools/confirm_seeded.sh $P$id $m 2>&1 | tr '\n' ' ')
      ok=yes
      echo "$conf" | grep -q "suite with change: pass" || ok=no
      echo "$conf" | grep -q "demo with change: fails (good)" || ok=no
      echo "$conf" | grep -q "demo without change: passes (good)" || ok=no
    elif [ -f $d/${m}_demo.sh ]; then
      ok=yes
      ( cd $P$id && git checkout -q -- . && git apply SEEDED/$m.diff &&
        cargo test --workspace --offline > SEEDED/$m.suite.log 2>&1 ) || ok=no-suite
      ( cd $P$id && cargo build --offline -p fst-bin >/dev/null 2>&1; sh SEEDED/${m}_demo.sh $P$id/target/debug/fst > SEEDED/$m.demo_with.log 2>&1 ) && ok=no-demo-passes-with
      ( cd $P$id && git checkout -q -- . && cargo build --offline -p fst-bin >/dev/null 2>&1; sh SEEDED/${m}_demo.sh $P$id/target/debug/fst > SEEDED/$m.demo_without.log 2>&1 ) || ok=no-demo-fails-without
    else
      ok="no-demo"
    fi
    if [ "$ISO" = none ]; then
      r=$(/verif/tools/try_patch.sh $d/$m.diff quick $id | cut -c1-200)
    else
      r=$(/verif/tools/iso.sh try $ISO $d/$m.diff quick $id | cut -c1-200)
    fi
    echo "$id $m: confirmed=$ok :: $r"
  done
done
