#!/bin/sh
# Regression of detection: every kept seeded change against the quick check of
# its own property, in an isolated copy (/tmp/mx). Output: /verif/seeded/OWN.txt
set -u
MX=/tmp/mx
rm -rf $MX; mkdir -p $MX
git -C /repo worktree prune
git -C /repo worktree add --detach $MX/repo HEAD -q
mkdir -p $MX/verif
cp -r /verif/harness $MX/verif/harness 2>/dev/null
rm -rf $MX/verif/harness/target
cp -r /verif/golden /verif/model /verif/known_findings.json /verif/check /verif/setup.sh $MX/verif/
cp -r /verif/plain $MX/verif/plain; rm -rf $MX/verif/plain/target
sed -i "s#/repo#$MX/repo#g" $MX/verif/plain/Cargo.toml
grep -rl "/repo" $MX/verif/harness --include=*.rs --include=*.toml | xargs sed -i "s#/repo#$MX/repo#g"
sed -i "s#/repo#$MX/repo#g" $MX/verif/check $MX/verif/setup.sh
(cd $MX/verif && ./setup.sh >/dev/null 2>&1) || { echo "setup failed"; exit 2; }
OUT=/verif/seeded/OWN.txt
: > $OUT
for d in /verif/seeded/C*-[mf]*; do
    id=$(basename $d); own=${id%%-*}
    # the check of the seed's own property if it is among those that detect it, else the first one listed
    c=$(jq -r --arg p "$own" '(.detected_by_quick_tier_of // []) as $l | if ($l | index($p)) != null then $p else ($l[0] // $p) end' $d/meta.json 2>/dev/null); [ -n "$c" ] || c=$own
    (cd $MX/repo && git checkout -q -- . && git apply $d/patch.diff) || { echo "$id APPLY-FAIL" >> $OUT; continue; }
    (cd $MX/verif && nice -n 5 ./check $c quick >/dev/null 2>&1); code=$?
    echo "$id: $c exit=$code" >> $OUT
    (cd $MX/repo && git checkout -q -- .)
done
# and the unchanged tree
for c in C01 C02 C03 C04 C05 C06 C07 C08 C09 C10 C11 C12 C13 C14 C15 C16 C17 C18 C19 C20; do
    (cd $MX/verif && nice -n 5 ./check $c quick >/dev/null 2>&1); echo "CLEAN: $c exit=$?" >> $OUT
done
git -C /repo worktree remove --force $MX/repo; rm -rf $MX
echo DONE >> $OUT
