#!/bin/sh
# Regression of detection, in parallel: every kept seeded change against the quick check of its own
# property (or the first check listed in its meta.json), spread over the isolated copies given as
# arguments (tools/iso.sh setup/sync them first). Output: /verif/seeded/OWN.txt (sorted), then CLEAN rows.
#   tools/matrix_par.sh /tmp/iso1 /tmp/iso2 /tmp/iso3
set -u
N=$#
OUT=${OUT:-/verif/seeded/OWN.txt}
TMP=$(mktemp -d)
if [ -n "${SEEDS_FILE:-}" ]; then cp "$SEEDS_FILE" $TMP/all; else ls -d /verif/seeded/C*-[mf]* > $TMP/all; fi
i=0
for ISO in "$@"; do
  (
    awk -v n=$N -v i=$i 'NR % n == i' $TMP/all | while read d; do
      id=$(basename $d); own=${id%%-*}
      c=$(jq -r --arg p "$own" '(.detected_by_quick_tier_of // []) as $l | if ($l | index($p)) != null then $p else ($l[0] // $p) end' $d/meta.json 2>/dev/null); [ -n "$c" ] || c=$own
      r=$(/verif/tools/iso.sh try $ISO $d/patch.diff quick $c | head -1 | cut -d' ' -f1-2)
      echo "$id: $r" >> $TMP/out.$i
    done
  ) &
  i=$((i+1))
done
wait
cat $TMP/out.* | sort > $OUT
ISO=$1
for c in C01 C02 C03 C04 C05 C06 C07 C08 C09 C10 C11 C12 C13 C14 C15 C16 C17 C18 C19 C20; do
  (cd $ISO/repo && git checkout -q -- .)
  (cd $ISO/verif && nice -n 5 ./check $c quick >/dev/null 2>&1); echo "CLEAN: $c exit=$?" >> $OUT
done
echo DONE >> $OUT
rm -rf $TMP
