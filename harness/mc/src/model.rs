//! Reference model (ordered map), universes, value patterns, probe closures.

use std::collections::{BTreeMap, BTreeSet};

pub type Key = Vec<u8>;
pub type Kv = (Key, u64);
pub type Model = BTreeMap<Key, u64>;

/// All strings over `alpha` of length <= maxlen, in lexicographic order.
pub fn strings_over(alpha: &[u8], maxlen: usize) -> Vec<Key> {
    let mut out = vec![];
    fn rec(alpha: &[u8], maxlen: usize, cur: &mut Vec<u8>, out: &mut Vec<Key>) {
        out.push(cur.clone());
        if cur.len() == maxlen {
            return;
        }
        for &a in alpha {
            cur.push(a);
            rec(alpha, maxlen, cur, out);
            cur.pop();
        }
    }
    let mut a = alpha.to_vec();
    a.sort();
    rec(&a, maxlen, &mut vec![], &mut out);
    out
}

#[derive(Clone, Debug)]
pub struct Universe {
    pub name: &'static str,
    pub keys: Vec<Key>,
}

pub fn u_ab3() -> Universe {
    Universe { name: "U_ab3", keys: strings_over(b"ab", 3) }
}
pub fn u_ab2() -> Universe {
    Universe { name: "U_ab2", keys: strings_over(b"ab", 2) }
}
pub fn u_abc2() -> Universe {
    Universe { name: "U_abc2", keys: strings_over(b"abc", 2) }
}
pub fn u_raw2() -> Universe {
    Universe { name: "U_raw2", keys: strings_over(&[0x00, 0x7f, 0xff], 2) }
}
pub fn u_ab4() -> Universe {
    Universe { name: "U_ab4", keys: strings_over(b"ab", 4) }
}

pub fn select(keys: &[Key], mask: u64) -> Vec<Key> {
    keys.iter().enumerate().filter(|(i, _)| mask >> i & 1 == 1).map(|(_, k)| k.clone()).collect()
}

/// Calls `f` for every subset of `0..n` with at most `maxk` elements, as a mask.
pub fn for_each_mask_upto(n: usize, maxk: usize, f: &mut dyn FnMut(u64)) {
    fn rec(n: usize, start: usize, left: usize, cur: u64, f: &mut dyn FnMut(u64)) {
        f(cur);
        if left == 0 {
            return;
        }
        for i in start..n {
            rec(n, i + 1, left - 1, cur | (1 << i), f);
        }
    }
    rec(n, 0, maxk, 0, f);
}

pub const BOUNDARY_VALUES: [u64; 17] = [
    0xff,
    0x100,
    0xffff,
    0x1_0000,
    0xff_ffff,
    0x100_0000,
    0xffff_ffff,
    0x1_0000_0000,
    0xff_ffff_ffff,
    0x100_0000_0000,
    0xffff_ffff_ffff,
    0x1_0000_0000_0000,
    0xff_ffff_ffff_ffff,
    0x100_0000_0000_0000,
    u64::MAX,
    1,
    0,
];

/// Value patterns for a key sequence k_0 < ... < k_{n-1}.
#[derive(Clone, Copy, Debug, PartialEq, Eq)]
pub enum Pat {
    Zero,
    Idx,
    Lin3,
    Const7,
    Dec,
    MaxAt(usize),
    MaxMinus,
    Boundary(usize),
}

impl Pat {
    pub fn val(self, i: usize, n: usize) -> u64 {
        match self {
            Pat::Zero => 0,
            Pat::Idx => i as u64,
            Pat::Lin3 => 3 * i as u64 + 1,
            Pat::Const7 => 7,
            Pat::Dec => 1000 - 7 * i as u64,
            Pat::MaxAt(p) => {
                if i == p % n.max(1) {
                    u64::MAX
                } else {
                    0
                }
            }
            Pat::MaxMinus => u64::MAX - i as u64,
            Pat::Boundary(r) => BOUNDARY_VALUES[(i + r) % BOUNDARY_VALUES.len()],
        }
    }
    pub fn name(self) -> String {
        format!("{:?}", self)
    }
    pub fn apply(self, keys: &[Key]) -> Vec<Kv> {
        let n = keys.len();
        keys.iter().enumerate().map(|(i, k)| (k.clone(), self.val(i, n))).collect()
    }
}

pub fn model_of(kvs: &[Kv]) -> Model {
    kvs.iter().cloned().collect()
}

/// Members of the fan-out families for fan-out `n` (see DESIGN.md section 3).
/// Each member is a strictly increasing key sequence.
pub fn fanout_family(n: usize) -> Vec<(String, Vec<Key>)> {
    let mut out = vec![];
    let first: Vec<u8> = (0..n).map(|i| i as u8).collect();
    let last: Vec<u8> = (0..n).map(|i| (256 - n + i) as u8).collect();
    let spread: Vec<u8> = (0..n).map(|i| ((i * 256) / n.max(1)) as u8).collect();
    let mut variants: Vec<(&str, Vec<u8>)> = vec![("first", first)];
    if n > 0 && n < 256 {
        variants.push(("last", last));
        variants.push(("spread", spread));
    }
    for (vname, bytes) in variants {
        for depth in 0..2 {
            for with_empty in [false, true] {
                for ext in [false, true] {
                    let prefix: Vec<u8> = if depth == 0 { vec![] } else { vec![b'p'] };
                    let mut keys: BTreeSet<Key> = BTreeSet::new();
                    if with_empty {
                        keys.insert(vec![]);
                        if depth == 1 {
                            keys.insert(prefix.clone());
                        }
                    }
                    for &b in &bytes {
                        let mut k = prefix.clone();
                        k.push(b);
                        if ext {
                            // one-byte extension under each child; every other
                            // child is itself a key as well
                            let mut k2 = k.clone();
                            k2.push(b'x');
                            keys.insert(k2);
                            if b % 2 == 0 {
                                keys.insert(k);
                            }
                        } else {
                            keys.insert(k);
                        }
                    }
                    out.push((
                        format!("fan{}-{}-d{}-e{}-x{}", n, vname, depth, with_empty as u8, ext as u8),
                        keys.into_iter().collect(),
                    ));
                }
            }
        }
    }
    out
}

pub const FANOUTS_QUICK: [usize; 12] = [0, 1, 2, 3, 31, 32, 33, 34, 63, 64, 255, 256];

/// Probe closure P(model): every key, every proper prefix, every one-byte
/// extension by `ext_bytes`, every single-byte substitution by `ext_bytes`.
pub fn probe_closure(keys: &[Key], ext_bytes: &[u8]) -> Vec<Key> {
    let mut s: BTreeSet<Key> = BTreeSet::new();
    s.insert(vec![]);
    for &b in ext_bytes {
        s.insert(vec![b]);
    }
    for k in keys {
        s.insert(k.clone());
        for i in 0..k.len() {
            s.insert(k[..i].to_vec());
        }
        for &b in ext_bytes {
            let mut e = k.clone();
            e.push(b);
            s.insert(e);
            for i in 0..k.len() {
                let mut m = k.clone();
                m[i] = b;
                s.insert(m);
            }
        }
    }
    s.into_iter().collect()
}

/// Bound keys for range checks: probe closure plus every key with its last
/// byte decremented / incremented.
pub fn bound_keys(keys: &[Key], ext_bytes: &[u8], maxlen: usize) -> Vec<Key> {
    let mut s: BTreeSet<Key> = probe_closure(keys, ext_bytes).into_iter().collect();
    for k in keys {
        if let Some(&l) = k.last() {
            let mut a = k.clone();
            *a.last_mut().unwrap() = l.wrapping_sub(1);
            s.insert(a);
            let mut b = k.clone();
            *b.last_mut().unwrap() = l.wrapping_add(1);
            s.insert(b);
        }
    }
    s.into_iter().filter(|k| k.len() <= maxlen).collect()
}

#[derive(Clone, Copy, Debug, PartialEq, Eq)]
pub enum Lo {
    None,
    Ge,
    Gt,
}
#[derive(Clone, Copy, Debug, PartialEq, Eq)]
pub enum Hi {
    None,
    Le,
    Lt,
}

pub fn in_range(k: &[u8], lo: Lo, lok: &[u8], hi: Hi, hik: &[u8]) -> bool {
    let a = match lo {
        Lo::None => true,
        Lo::Ge => k >= lok,
        Lo::Gt => k > lok,
    };
    let b = match hi {
        Hi::None => true,
        Hi::Le => k <= hik,
        Hi::Lt => k < hik,
    };
    a && b
}

/// Label family: for every byte b, key sets in which b labels a node with a
/// single transition in both single-transition node forms (the common-input
/// table is only used there), with and without outputs.
pub fn label_family() -> Vec<(String, Vec<Kv>)> {
    let mut v = vec![];
    for b in 0..=255u8 {
        v.push((format!("label-{:02x}-single", b), vec![(vec![b], 0)]));
        v.push((format!("label-{:02x}-chain", b), vec![(vec![b, b, b], 0)]));
        v.push((format!("label-{:02x}-valued", b), vec![(vec![b, b'a'], 300), (vec![b, b'b', b], 5)]));
        v.push((format!("label-{:02x}-prefix", b), vec![(vec![], 9), (vec![b], 2), (vec![b, b], 70_000)]));
    }
    v
}

/// Far-target family: a shared suffix that is found again in the node cache
/// after `fill` other keys, so that single-transition nodes point far back
/// (address deltas of 2 and 3 bytes in the single-transition node form).
pub fn far_family() -> Vec<(String, Vec<Kv>)> {
    let mut v = vec![];
    for (name, fill) in [("far-256", 256usize), ("far-2000", 2000), ("far-40000", 40000)] {
        for valued in [false, true] {
            let mut kvs: Vec<Kv> = vec![(b"axyz".to_vec(), if valued { 5 } else { 0 })];
            for i in 0..fill {
                let k = if fill <= 256 { vec![b'm', i as u8] } else { format!("m{:05}", i).into_bytes() };
                kvs.push((k, if valued { mix64(i as u64) % 100_000 } else { 0 }));
            }
            // the node after "z" has the single transition w -> (the node reached
            // by "ax"), which was written `fill` keys earlier
            kvs.push((b"zwyz".to_vec(), if valued { 70_000 } else { 0 }));
            v.push((format!("{}-{}", name, if valued { "map" } else { "set" }), kvs));
        }
    }
    // 3-byte delta: ~85 KB of filler in only 30 (wide, 8-byte-output) nodes,
    // so that the shared suffix is still in the node cache
    for valued in [false, true] {
        let mut kvs: Vec<Kv> = vec![(b"axyz".to_vec(), if valued { 5 } else { 0 })];
        for i in 0..30u8 {
            for b in 0..=255u8 {
                kvs.push((vec![b'm', i, b], (1u64 << 56) | (mix64((i as u64) * 256 + b as u64) >> 9)));
            }
        }
        kvs.push((b"zwyz".to_vec(), if valued { 70_000 } else { 0 }));
        v.push((format!("far-wide-{}", if valued { "map" } else { "mixed" }), kvs));
    }
    v
}

/// splitmix64 finaliser: values that do not factor along the key digits.
pub fn mix64(x: u64) -> u64 {
    let mut z = x.wrapping_add(0x9E37_79B9_7F4A_7C15);
    z = (z ^ (z >> 30)).wrapping_mul(0xBF58_476D_1CE4_E5B9);
    z = (z ^ (z >> 27)).wrapping_mul(0x94D0_49BB_1331_11EB);
    z ^ (z >> 31)
}

/// Long-key family: keys of hundreds to tens of thousands of bytes, alone,
/// as prefix chains and with shared prefixes/suffixes.
pub fn long_key_family() -> Vec<(String, Vec<Kv>)> {
    long_keys_of(&[300usize, 1000, 70_000])
}

/// Twin family: the SAME wide node (n transitions, n across the index
/// threshold) compiled two or three times, after some unrelated narrow nodes,
/// as sets and as maps whose values repeat with period n. Under tiny cache
/// geometries the second copy is found in a cell that was filled by another
/// node before.
pub fn twin_family() -> Vec<(String, Vec<Kv>)> {
    let mut out = vec![];
    for n in [1usize, 2, 31, 32, 33, 34, 64, 200, 256] {
        for heads in [&b"ac"[..], &b"acx"[..]] {
            for depth2 in [false, true] {
                let mut keys: Vec<Key> = vec![b"0q".to_vec(), b"0r".to_vec(), b"1q".to_vec()];
                for &h in heads {
                    for i in 0..n {
                        let b = ((i * 256) / n) as u8;
                        let mut k = vec![h, b];
                        if depth2 {
                            k.push(b'q');
                        }
                        keys.push(k);
                    }
                }
                keys.sort();
                keys.dedup();
                out.push((format!("twin-{}-{}-{}-set", n, heads.len(), depth2), Pat::Zero.apply(&keys)));
                let kvs: Vec<Kv> = keys.iter().enumerate().map(|(i, k)| (k.clone(), if k[0] < b'a' { 0 } else { ((i - 3) % n) as u64 * 3 })).collect();
                out.push((format!("twin-{}-{}-{}-map", n, heads.len(), depth2), kvs));
            }
        }
    }
    out
}

/// Key-length ladder: the long-key shape for EVERY length 2..=1100 and the
/// lengths 2^k-3..2^k+3 for k = 11..16 (buffers that grow by doubling, one-
/// and two-byte length fields, stack depth of the readers). `part` of `parts`.
pub fn key_length_ladder(part: usize, parts: usize) -> Vec<(String, Vec<Kv>)> {
    let mut ns: Vec<usize> = (2..=1100).collect();
    for k in 11..=16u32 {
        ns.extend(((1usize << k) - 3)..=((1usize << k) + 3));
    }
    let ns: Vec<usize> = ns.into_iter().enumerate().filter(|(i, _)| i % parts == part).map(|x| x.1).collect();
    long_keys_of(&ns)
}

pub fn long_keys_of(ns: &[usize]) -> Vec<(String, Vec<Kv>)> {
    let k = |n: usize, seed: u8| -> Key { (0..n).map(|i| b'a' + ((i as u32 * 31 + seed as u32 + (i / 97) as u32) % 26) as u8).collect() };
    let mut v = vec![];
    for &n in ns {
        let base = k(n, 1);
        let mut ext = base.clone();
        ext.push(b'x');
        let mut sib = base.clone();
        *sib.last_mut().unwrap() = b'~';
        let mut other = k(n, 2);
        other[0] = b'z';
        // shares a long suffix with `base`
        let mut suf = base.clone();
        suf[0] = b'y';
        let mut keys = vec![base[..n / 2].to_vec(), base.clone(), ext, sib, suf, other];
        keys.sort();
        keys.dedup();
        v.push((format!("long-{}-set", n), Pat::Zero.apply(&keys)));
        v.push((format!("long-{}-map", n), Pat::MaxMinus.apply(&keys)));
    }
    v
}

/// Mixed mid-size family: a FINITE, deterministic list of key sets between the
/// exhaustive small scopes and the corpora (30..3000 keys; alphabets of 2..256
/// bytes; key lengths 0..14; value widths from 0 to 8 bytes). Member i is a
/// fixed function of i (a counter-based generator); it is a finite family,
/// reported as such, not an enumeration of a space.
pub fn mixed_family(count: usize) -> Vec<(String, Vec<Kv>)> {
    let alphas: [usize; 7] = [2, 3, 5, 17, 40, 64, 256];
    let sizes: [usize; 6] = [30, 60, 150, 400, 1200, 3000];
    let lens: [usize; 5] = [2, 3, 5, 9, 14];
    let mut out = vec![];
    for i in 0..count {
        let a = alphas[i % alphas.len()];
        let n = sizes[(i / 7) % sizes.len()];
        let l = lens[(i / 3) % lens.len()];
        let vmode = (i / 2) % 6;
        let mut keys: std::collections::BTreeSet<Key> = std::collections::BTreeSet::new();
        let mut c = 0u64;
        while keys.len() < n && c < (n as u64) * 20 {
            let r = mix64((i as u64) << 32 | c);
            c += 1;
            let len = (r % (l as u64 + 1)) as usize;
            let mut k = Vec::with_capacity(len);
            let mut x = r >> 8;
            for j in 0..len {
                if j % 6 == 5 {
                    x = mix64(x);
                }
                // skewed choice: low symbols are more frequent (shared prefixes)
                let sym = ((x & 0xff) as usize * ((x >> 8 & 0xff) as usize + 1) / 256) % a;
                x >>= 9;
                let byte = if a == 256 { sym as u8 } else { [b'a', b'b', b'e', 0x00, 0xff, b'W', b'/', b'z'][sym % 8].wrapping_add((sym / 8) as u8 * 3) };
                k.push(byte);
            }
            keys.insert(k);
        }
        let keys: Vec<Key> = keys.into_iter().collect();
        let kvs: Vec<Kv> = keys
            .iter()
            .enumerate()
            .map(|(j, k)| {
                let r = mix64((i as u64) * 1_000_003 + j as u64);
                let v = match vmode {
                    0 => 0,
                    1 => j as u64,
                    2 => r % 7,
                    3 => BOUNDARY_VALUES[(r % 15) as usize],
                    4 => r >> (8 * (r % 8)),
                    _ => (j as u64) * 1000 + r % 1000, // strictly increasing
                };
                (k.clone(), v)
            })
            .collect();
        out.push((format!("mixed-{}-a{}-n{}-l{}-v{}", i, a, kvs.len(), l, vmode), kvs));
    }
    out
}

/// Fan-out x output-width grid: for EVERY fan-out n in 0..=256 and every
/// output width w in 0..=8 bytes a node with n transitions whose outputs need
/// exactly w bytes, final or not, with leaf children or with children that are
/// nodes themselves (larger address deltas). `part`/`parts` split the grid.
pub fn fan_width_grid(part: usize, parts: usize) -> Vec<(String, Vec<Kv>)> {
    let mut out = vec![];
    let mut idx = 0usize;
    for n in 0..=256usize {
        for w in 0..=8usize {
            for fin in [false, true] {
                for ext in [false, true] {
                    idx += 1;
                    if idx % parts != part {
                        continue;
                    }
                    // labels spread over the byte range (gaps between labels)
                    let labels: Vec<u8> = (0..n).map(|i| ((i * 256) / n.max(1)) as u8).collect();
                    let base: u64 = if w == 0 { 0 } else { 1u64 << (8 * (w - 1)) };
                    let mut kvs: Vec<Kv> = vec![];
                    if fin {
                        kvs.push((b"k".to_vec(), if w == 0 { 0 } else { base + 7 }));
                    }
                    for (i, &b) in labels.iter().enumerate() {
                        let v = if w == 0 { 0 } else { base + (mix64(i as u64 + 1000 * n as u64) % base.max(2)) };
                        if ext {
                            // the child is a node of its own with a distinct label
                            kvs.push((vec![b'k', b, b'a' + (i % 23) as u8, (i % 251) as u8], v));
                        } else {
                            kvs.push((vec![b'k', b], v));
                        }
                    }
                    // an unrelated later key sharing a suffix with the last child
                    kvs.push((vec![b'r', b'y', b'a' + ((n + 22) % 23) as u8, (n.wrapping_sub(1) % 251) as u8], if w == 0 { 0 } else { 3 }));
                    kvs.sort();
                    kvs.dedup_by(|a, b| a.0 == b.0);
                    out.push((format!("grid-n{}-w{}-f{}-x{}", n, w, fin as u8, ext as u8), kvs));
                }
            }
        }
    }
    out
}

/// A file larger than 16 MiB made of few, large nodes: 40 x 210 nodes with 256
/// transitions and 8-byte outputs each (4-byte address deltas in a 40-way
/// indexed root... the root has 40 transitions and an index table).
pub fn big_dense_family() -> Vec<Kv> {
    big_dense_variant(0)
}

/// Variant `shift` prepends a key whose node occupies `shift` extra bytes, so
/// that every later node lands at a different offset modulo 4.
pub fn big_dense_variant(shift: usize) -> Vec<Kv> {
    let mut kvs = Vec::with_capacity(40 * 210 * 256 + 1);
    if shift > 0 {
        // a chain of `shift` single-transition nodes with explicit (uncommon) inputs: 2 bytes each... use common inputs: 1 byte each
        kvs.push((std::iter::once(b'!').chain(std::iter::repeat(b'a').take(shift)).collect(), 0));
    }
    for h in 0..40u8 {
        for l in 0..210u8 {
            for b in 0..=255u8 {
                let i = ((h as u64) << 16) | ((l as u64) << 8) | b as u64;
                kvs.push((vec![b'0' + h, l, b], (1u64 << 56) | (mix64(i) >> 9)));
            }
        }
    }
    kvs
}
