use mc::checks;
use mc::ev::{self, Tier};

#[global_allocator]
static GLOBAL: mc::alloc::Counting = mc::alloc::Counting;

fn usage() -> ! {
    eprintln!("usage: checks <Cxx> [quick|thorough] [--replay <file>]");
    std::process::exit(2)
}

fn main() {
    let args: Vec<String> = std::env::args().skip(1).collect();
    if args.is_empty() {
        usage();
    }
    let id = args[0].clone();
    let mut tier = match std::env::var("VERIF_TIER").ok().as_deref() {
        Some("thorough") => Tier::Thorough,
        _ => Tier::Quick,
    };
    let mut replay: Option<String> = None;
    let mut i = 1;
    while i < args.len() {
        match args[i].as_str() {
            "quick" => tier = Tier::Quick,
            "thorough" => tier = Tier::Thorough,
            "--replay" => {
                i += 1;
                replay = Some(args.get(i).cloned().unwrap_or_else(|| usage()));
            }
            _ => usage(),
        }
        i += 1;
    }
    if id == "C15-CHILD" {
        ev::install_quiet_panic_hook();
        checks::c15::child_main();
        return;
    }
    if id == "C10-REGEN-GOLDEN" {
        checks::c10::regen_golden();
        return;
    }
    ev::install_quiet_panic_hook();
    macro_rules! dispatch {
        ($($name:literal => $m:ident),* $(,)?) => {
            match id.as_str() {
                $($name => {
                    if let Some(p) = replay {
                        ev::drive_replay($name, &p, checks::$m::replay)
                    } else {
                        ev::drive(checks::$m::plan(tier), tier)
                    }
                })*
                _ => usage(),
            }
        };
    }
    dispatch!(
        "C01" => c01,
        "C02" => c02,
        "C03" => c03,
        "C04" => c04,
        "C05" => c05,
        "C06" => c06,
        "C07" => c07,
        "C08" => c08,
        "C09" => c09,
        "C10" => c10,
        "C11" => c11,
        "C12" => c12,
        "C13" => c13,
        "C14" => c14,
        "C15" => c15,
        "C16" => c16,
        "C17" => c17,
        "C18" => c18,
        "C20" => c20,
    );
}
