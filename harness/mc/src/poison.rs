//! "Poison" prologues: short histories that END BADLY, run on the thread that
//! is about to build or query the case under test - a builder dropped without
//! finishing, a build whose sink fails hard, rejected calls, a Levenshtein
//! construction that exceeds its limit, streams and set operations abandoned
//! half way, lookups that miss. On a library without state that outlives a
//! call (which is what C15 says of the builders and what every reader
//! property assumes) none of this can influence what follows; state parked
//! per thread or per process and not reset on the unhappy paths can.
//!
//! Results and panics of the prologue itself are ignored (they belong to
//! C06 / C11 / C17); only the case that FOLLOWS is judged, by the check that
//! runs it. `maybe()` is called by `front::build` (every 53rd build of a
//! thread and its first), `all()` by checks that want every variant at once.

use std::cell::Cell;
use std::io::{self, Write};
use std::sync::OnceLock;

use fst::raw::{self, Fst};
use fst::{IntoStreamer, MapBuilder, Streamer};

thread_local! {
    static COUNT: Cell<u64> = Cell::new(0);
    static BUSY: Cell<bool> = Cell::new(false);
}

pub const VARIANTS: u64 = 8;

/// Prologues run in this process (evidence counter).
pub static TOTAL: std::sync::atomic::AtomicU64 = std::sync::atomic::AtomicU64::new(0);

/// Accepts `cap` bytes in total (at most `per` per call), then fails forever.
struct Failing {
    cap: usize,
    per: usize,
    got: usize,
}

impl Write for Failing {
    fn write(&mut self, buf: &[u8]) -> io::Result<usize> {
        if self.got >= self.cap {
            return Err(io::Error::new(io::ErrorKind::Other, "poison sink full"));
        }
        let n = buf.len().min(self.per).min(self.cap - self.got);
        self.got += n;
        Ok(n)
    }
    fn flush(&mut self) -> io::Result<()> {
        if self.got >= self.cap {
            Err(io::Error::new(io::ErrorKind::Other, "poison sink full"))
        } else {
            Ok(())
        }
    }
}

/// Keys with a node of 40 transitions (index table), a long key, shared
/// suffixes and non-zero multi-byte outputs.
fn keys() -> &'static Vec<(Vec<u8>, u64)> {
    static K: OnceLock<Vec<(Vec<u8>, u64)>> = OnceLock::new();
    K.get_or_init(|| {
        let mut v: Vec<(Vec<u8>, u64)> = vec![];
        for b in 0..40u8 {
            v.push((vec![b'P', 0x30 + b, b'x', b'y'], 1000 + 77 * b as u64));
        }
        v.push((vec![b'Q'; 70], 1 << 40));
        v.push((b"Rab".to_vec(), 5));
        v.push((b"Rb".to_vec(), 3));
        v.push((b"Sxy".to_vec(), 9));
        v
    })
}

fn reader_bytes() -> &'static Vec<u8> {
    static B: OnceLock<Vec<u8>> = OnceLock::new();
    B.get_or_init(|| {
        let mut b = raw::Builder::memory();
        for (k, v) in keys() {
            b.insert(k, *v).unwrap();
        }
        b.into_inner().unwrap()
    })
}

fn feed<W: Write>(mut b: raw::Builder<W>, upto: usize) -> raw::Builder<W> {
    for (k, v) in keys().iter().take(upto) {
        if b.insert(k, *v).is_err() {
            break;
        }
    }
    b
}

fn variant(v: u64, round: u64) {
    match v {
        0 => {
            // a builder dropped without finishing (default and tiny cache)
            let b = raw::Builder::new_type(Vec::new(), 0).unwrap();
            drop(feed(b, 44 - (round % 3) as usize));
            let b = raw::Builder::verif_new_with_registry(Vec::new(), 0, 2, 2).unwrap();
            drop(feed(b, 41));
        }
        1 => {
            // a sink that fails hard after a number of bytes that moves through the file
            let cap = [17usize, 40, 90, 170, 300, 420, 470, 520][(round % 8) as usize];
            if let Ok(b) = raw::Builder::new_type(Failing { cap, per: usize::MAX, got: 0 }, 0) {
                let b = feed(b, 44);
                let _ = b.finish();
            }
        }
        2 => {
            // short writes, then a hard failure inside a multi-byte write
            let cap = [33usize, 61, 200, 333, 466][(round % 5) as usize];
            if let Ok(b) = raw::Builder::new_type(Failing { cap, per: 3, got: 0 }, 0) {
                let b = feed(b, 44);
                let _ = b.into_inner();
            }
        }
        3 => {
            // rejected calls, a bulk call rejected half way, then dropped / finished
            let mut b = MapBuilder::memory();
            let _ = b.insert("mm", 7);
            let _ = b.insert("ma", 1);
            let _ = b.insert("mm", 3);
            let _ = b.extend_iter(vec![("mz", 1u64), ("mx", 2), ("n", 3)]);
            if round % 2 == 0 {
                let _ = b.into_inner();
            }
            let mut s = fst::SetBuilder::memory();
            let _ = s.insert("q");
            let _ = s.insert("p");
            let _ = s.extend_iter(vec!["r", "q"]);
        }
        4 => {
            // a Levenshtein construction that exceeds its limit, then one that does not finish its use
            let _ = fst::automaton::Levenshtein::new_with_limit("fo\u{2603}bar", 2, 40 + (round % 7) as usize);
            let _ = fst::automaton::Levenshtein::new_with_limit("", 1, 0);
        }
        5 => {
            // streams dropped half way, stopped by their bounds, polled after the end; lookups that miss
            let f = Fst::new(&reader_bytes()[..]).unwrap();
            let mut s = f.stream();
            for _ in 0..(3 + round % 40) {
                let _ = s.next();
            }
            drop(s);
            let mut s = f.range().ge("P5").le("Rab").into_stream();
            while s.next().is_some() {}
            let _ = s.next();
            let _ = s.next();
            drop(s);
            let mut s = f.range().lt("P1").into_stream();
            let _ = s.next();
            drop(s);
            let _ = f.get("P5x");
            let _ = f.get("Rabc");
            let _ = f.get_key(4);
            let _ = f.get_key(1077);
            let mut buf = vec![1, 2, 3];
            let _ = f.get_key_into(6, &mut buf);
            let aut = fst::automaton::Subsequence::new("xy");
            let mut s = f.search(&aut).gt("P9").into_stream();
            let _ = s.next();
            drop(s);
            let mut s = f.search_with_state(fst::automaton::Str::new("Rb")).into_stream();
            let _ = s.next();
        }
        6 => {
            // set operations abandoned half way, predicates that stop early, operands of unequal size
            let f = Fst::new(&reader_bytes()[..]).unwrap();
            let g = Fst::new(&crate::checks::util::other_fst_bytes()[..]).unwrap();
            let mut u = raw::OpBuilder::new().add(&f).add(&g).add(f.range().ge("Q")).union();
            for _ in 0..(1 + round % 5) {
                let _ = u.next();
            }
            drop(u);
            let _ = f.is_disjoint(&f);
            let _ = f.is_subset(&g);
            let _ = g.is_superset(&f);
            let mut d1 = raw::OpBuilder::new().add(&f).add(&g).difference();
            let mut d2 = raw::OpBuilder::new().add(&g).add(&f).symmetric_difference();
            let _ = d1.next();
            let _ = d2.next();
            let _ = d1.next();
            drop(d2);
            let mut i = raw::OpBuilder::new().add(&f).add(&f).intersection();
            let _ = i.next();
        }
        _ => {
            // a reader re-pointed and cloned over, verify() on altered bytes
            let mut bad = reader_bytes().clone();
            let n = bad.len();
            bad[n / 2] ^= 0x10;
            if let Ok(f) = Fst::new(&bad[..]) {
                let _ = f.verify();
                let _ = f.verify();
            }
            if let Ok(f) = Fst::new(&reader_bytes()[..]) {
                let other: &[u8] = crate::checks::util::other_fst_bytes();
                if let Ok(mut g) = f.clone().map_data(|_| other) {
                    let _ = g.verify();
                    g.clone_from(&f);
                    let _ = g.get("Rb");
                }
            }
        }
    }
}

fn run(f: impl FnOnce()) {
    if BUSY.with(|b| b.replace(true)) {
        return;
    }
    TOTAL.fetch_add(1, std::sync::atomic::Ordering::Relaxed);
    let _ = std::panic::catch_unwind(std::panic::AssertUnwindSafe(f));
    BUSY.with(|b| b.set(false));
}

/// Every variant once, on this thread.
pub fn all(round: u64) {
    run(|| {
        for v in 0..VARIANTS {
            let _ = std::panic::catch_unwind(|| variant(v, round));
        }
    });
}

/// Called before every build of `front::build`: on the first build of a
/// thread and on every 53rd one a variant is run (rotating).
pub fn maybe() {
    let c = COUNT.with(|c| {
        let v = c.get();
        c.set(v + 1);
        v
    });
    if c % 53 == 0 {
        let k = c / 53;
        run(|| variant(k % VARIANTS, k / VARIANTS));
    }
}

/// Number of prologues run on this thread so far.
pub fn count() -> u64 {
    COUNT.with(|c| c.get()).div_ceil(53)
}
