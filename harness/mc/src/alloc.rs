//! Counting global allocator with per-thread counters, so that parallel
//! shards do not disturb each other's measurements.

use std::alloc::{GlobalAlloc, Layout, System};
use std::cell::Cell;

pub struct Counting;

thread_local! {
    static LIVE: Cell<i64> = const { Cell::new(0) };
    static PEAK: Cell<i64> = const { Cell::new(0) };
    static ALLOCS: Cell<u64> = const { Cell::new(0) };
}

#[inline]
fn add(n: i64, is_alloc: bool) {
    let _ = LIVE.try_with(|l| {
        let v = l.get() + n;
        l.set(v);
        if n > 0 {
            let _ = PEAK.try_with(|p| {
                if v > p.get() {
                    p.set(v);
                }
            });
        }
    });
    if is_alloc {
        let _ = ALLOCS.try_with(|a| a.set(a.get() + 1));
    }
}

unsafe impl GlobalAlloc for Counting {
    unsafe fn alloc(&self, l: Layout) -> *mut u8 {
        let p = System.alloc(l);
        if !p.is_null() {
            add(l.size() as i64, true);
        }
        p
    }
    unsafe fn dealloc(&self, p: *mut u8, l: Layout) {
        System.dealloc(p, l);
        add(-(l.size() as i64), false);
    }
    unsafe fn alloc_zeroed(&self, l: Layout) -> *mut u8 {
        let p = System.alloc_zeroed(l);
        if !p.is_null() {
            add(l.size() as i64, true);
        }
        p
    }
    unsafe fn realloc(&self, p: *mut u8, l: Layout, new_size: usize) -> *mut u8 {
        let q = System.realloc(p, l, new_size);
        if !q.is_null() {
            add(new_size as i64 - l.size() as i64, true);
        }
        q
    }
}

/// Bytes currently allocated by this thread (net of frees on this thread).
pub fn live() -> i64 {
    LIVE.with(|l| l.get())
}

/// Highest value of `live()` since the last `reset_peak`.
pub fn peak() -> i64 {
    PEAK.with(|p| p.get())
}

pub fn reset_peak() {
    let v = live();
    PEAK.with(|p| p.set(v));
}

/// Number of allocation calls (alloc, alloc_zeroed, realloc) of this thread.
pub fn allocs() -> u64 {
    ALLOCS.with(|a| a.get())
}

/// Is the counting allocator actually installed in this binary?
pub fn installed() -> bool {
    let a = allocs();
    let v = std::hint::black_box(Vec::<u8>::with_capacity(1024));
    let b = allocs();
    drop(v);
    b > a
}
