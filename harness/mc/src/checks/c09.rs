//! C09 - builder output conforms to the documented version-3 format: decoded
//! by an independent decoder written from the format description.

use serde_json::{json, Value};

use super::util::*;
use crate::codec::{self, Form};
use crate::ev::{guard, unit, Plan, Reporter, Stats, Tier};
use crate::front::{self, Front, Geom, ALL_FRONTS, DEFAULT_GEOM, GEOMS};
use crate::model::*;

pub struct Facts {
    pub nodes: u64,
    pub max_tsize: u64,
    pub max_ot_tsize: u64,
    pub otn: u64,
    pub ot: u64,
    pub at: u64,
    pub indexed: u64,
}

pub fn conforms(bytes: &[u8], ty: u64, kvs: &[Kv]) -> Result<Facts, String> {
    guard(|| {
        let d = codec::decode(bytes)?;
        if d.version != 3 {
            return Err(format!("header version {} (expected 3)", d.version));
        }
        if d.ty != ty {
            return Err(format!("header type {} (requested {})", d.ty, ty));
        }
        if d.nkeys != kvs.len() as u64 {
            return Err(format!("footer key count {} but {} keys were inserted", d.nkeys, kvs.len()));
        }
        let got = d.enumerate()?;
        if got != kvs {
            return Err(format!("reading by the format description gives {} keys; first difference: {:?}", got.len(), got.iter().zip(kvs).find(|(a, b)| a != b)));
        }
        let mut f = Facts { nodes: d.nodes.len() as u64, max_tsize: 0, max_ot_tsize: 0, otn: 0, ot: 0, at: 0, indexed: 0 };
        for n in d.nodes.values() {
            f.max_tsize = f.max_tsize.max(n.tsize as u64);
            match n.form {
                Form::OneTransNext => f.otn += 1,
                Form::OneTrans => {
                    f.ot += 1;
                    f.max_ot_tsize = f.max_ot_tsize.max(n.tsize as u64);
                }
                Form::AnyTrans => f.at += 1,
            }
            f.indexed += n.has_index as u64;
        }
        Ok(f)
    })
    .and_then(|x| x)
}

fn build_ty(fr: Front, geom: Geom, ty: u64, kvs: &[Kv]) -> Result<Vec<u8>, String> {
    if ty == 0 {
        front::build(fr, geom, kvs)
    } else {
        front::build_raw_counted(geom, ty, kvs).map(|x| x.0)
    }
}

fn do_case(kvs: &[Kv], fr: Front, geom: Geom, ty: u64, st: &mut Stats, rep: &Reporter) {
    if fr.set_only() && kvs.iter().any(|x| x.1 != 0) {
        return;
    }
    st.states += 1;
    st.evals += 1;
    st.transitions += kvs.len() as u64 + 1;
    let r = build_ty(fr, geom, ty, kvs).and_then(|b| conforms(&b, ty, kvs));
    match r {
        Ok(f) => {
            crate::ev::obs(crate::ev::hash_kvs(kvs) ^ f.nodes);
            st.count("nodes_decoded", f.nodes);
            st.count("nodes_one_trans_next", f.otn);
            st.count("nodes_one_trans", f.ot);
            st.count("nodes_any_trans", f.at);
            st.count("nodes_with_index", f.indexed);
            st.max("max_delta_bytes", f.max_tsize);
            st.max("max_delta_bytes_in_single_transition_nodes", f.max_ot_tsize);
        }
        Err(msg) if front::is_usage_skip(&msg) => st.count("builds_skipped_because_the_builder_accepted_a_call_it_must_reject", 1),
        Err(msg) => rep.violation(
            format!("{} {:?} {:?} ty={}", if kvs.len() <= 8 { kvs_str(kvs) } else { format!("{} keys", kvs.len()) }, fr, geom, ty),
            msg,
            if kvs.len() > 1_000_000 && kvs[1].0.len() == 3 { json!({"big_dense": true, "shift": if kvs[0].0.len() == 3 { 0 } else { kvs[0].0.len() - 1 }, "front": format!("{:?}", fr), "geom": [geom.0, geom.1], "ty": ty}) } else if kvs.len() <= 2000 { json!({"kvs": kvs_json(kvs), "front": format!("{:?}", fr), "geom": [geom.0, geom.1], "ty": ty}) } else { json!({"size_family": kvs.len(), "front": format!("{:?}", fr), "geom": [geom.0, geom.1], "ty": ty}) },
        ),
    }
}

/// Builders kept in use after rejected calls (raw / map / set): whatever the
/// builder ACCEPTED by its own answers, its output must be a well-formed file
/// holding exactly that. (A call that is wrongly accepted is C06's business;
/// a malformed file produced afterwards is a violation of C09 as well: the
/// statement is about the bytes of ANY builder.) Errors and panics from the
/// calls themselves are left to C06.
pub fn run_noisy(kvs: &[Kv], geom: Geom) -> Result<u64, String> {
    let is_set = kvs.iter().all(|x| x.1 == 0);
    let mut n = 0;
    for kind in 0..3u8 {
        if kind == 2 && !is_set {
            continue;
        }
        for mask in [31u8, 16] {
            let (bytes, accepted, stray) = match front::noisy_build(kind, if kind == 0 { geom } else { DEFAULT_GEOM }, kvs, mask) {
                Err(e) if front::is_usage_skip(&e) => continue,
                r => r?,
            };
            n += 1;
            let mut model: std::collections::BTreeMap<Key, u64> = std::collections::BTreeMap::new();
            let mut distinct = true;
            for (k, v) in &accepted {
                distinct &= model.insert(k.clone(), *v).is_none();
            }
            let what = |e: String| format!("builder kept in use after rejected calls (kind {}, {}): accepted [{}]: {}", kind, stray.clone().unwrap_or_else(|| "every call answered as the contract demands".into()), kvs_str(&accepted), e);
            if distinct {
                let m: Vec<Kv> = model.into_iter().collect();
                conforms(&bytes, 0, &m).map_err(what)?;
            } else {
                // one key accepted twice: no single value to expect; the file must still be well formed
                guard(|| codec::decode(&bytes).and_then(|d| d.enumerate()).map(|_| ())).and_then(|x| x).map_err(what)?;
            }
        }
    }
    Ok(n)
}

/// The same builds through sinks that accept writes reluctantly: the bytes the
/// sink ends up with are what "the builder produced" for such a caller.
pub fn run_sinks(kvs: &[Kv]) -> Result<u64, String> {
    use crate::sink::{Policy, ScriptSink};
    let mut n = 0;
    for pol in [Policy::Cap(1), Policy::Cap(3), Policy::CapInterrupt(2), Policy::Paged(64)] {
        let bytes = guard(|| -> Result<Vec<u8>, String> {
            let mut b = fst::raw::Builder::new(ScriptSink::new(vec![], pol)).map_err(|e| format!("{:?}", e))?;
            for (k, v) in kvs {
                b.insert(k, *v).map_err(|e| format!("{:?}", e))?;
            }
            Ok(b.into_inner().map_err(|e| format!("{:?}", e))?.data)
        })
        .and_then(|x| x)
        .map_err(|e| format!("sink {:?}: {}", pol, e))?;
        conforms(&bytes, 0, kvs).map_err(|e| format!("sink {:?}: {}", pol, e))?;
        n += 1;
    }
    Ok(n)
}

pub fn size_family(n: u64) -> Vec<Kv> {
    (0..n).map(|i| (format!("{:08}", i).into_bytes(), i.wrapping_mul(0x9E37_79B9_7F4A_7C15) >> 8)).collect()
}

pub fn replay(case: &Value) -> Result<String, String> {
    let kvs = if case["big_dense"].as_bool() == Some(true) { big_dense_variant(case["shift"].as_u64().unwrap_or(0) as usize) } else if case["size_family"].is_u64() { size_family(case["size_family"].as_u64().unwrap()) } else { kvs_from(&case["kvs"]) };
    if case["many_builds"].as_bool() == Some(true) {
        fn judge(kvs: &[Kv], bytes: &[u8]) -> Result<(), String> {
            conforms(bytes, 0, kvs).map(|_| ())
        }
        return super::c15::run_many_builds_judged(false, Some(judge)).map(|c| format!("{} rebuilds decoded", c));
    }
    if case["noisy"].as_bool() == Some(true) {
        return run_noisy(&kvs, geom_from(&case["geom"])).map(|n| format!("{} noisy builds conform", n));
    }
    if case["sinks"].as_bool() == Some(true) {
        return run_sinks(&kvs).map(|n| format!("{} builds through reluctant sinks conform", n));
    }
    let fr = front_from(case["front"].as_str().unwrap());
    let geom = geom_from(&case["geom"]);
    let ty = case["ty"].as_u64().unwrap();
    let b = build_ty(fr, geom, ty, &kvs)?;
    conforms(&b, ty, &kvs).map(|f| format!("{} nodes tile the body and decode to the model", f.nodes))
}

pub fn plan(tier: Tier) -> Plan {
    let mut p = Plan::new("C09", "model_checking");
    let thorough = tier.thorough();
    p.rule = "every byte string produced by the builder over the C01 space (all subsets of U_ab3/U_abc2/U_raw2 x value patterns x cache geometries; all 26 front ends (17 entry points + 6 usage variants: builders kept in use after rejected calls, several bulk calls on a populated builder + the 3 memory() constructors with into_fst/into_map/into_set) under the default geometry for small sets; fan-out families 0..256; a label family in which each of the 256 bytes labels single-transition nodes of both forms; type field in {0,1,255,u64::MAX}; size families 3000 / 70000 (thorough: 1200000) keys for 2-,3-,4-byte deltas) is decoded by an independent decoder written from the format description: header/footer fields, reference CRC, backwards tiling of the body without gap or overlap, every target 0 or an earlier tiled node, strictly increasing inputs, index table consistent, depth-first reading == model. Field-width minimality and the choice among legal node forms are not asserted. Also decoded: twelve probe inputs rebuilt 1 .. 65 537 builds after their first build on a thread that creates about 65 550 builders; the output of raw/map/set builders kept in use after rejected calls (every subset of <= 5 keys of U_ab3; the model is what the builder accepted by its own answers) and builds through reluctant sinks (cap 1, cap 3, cap 2 with interrupts, 64-byte pages) of the small sets and fan-out families. non-trivial = files with >= 2 keys".into();
    p.assumptions = vec!["the format description in DESIGN.md section C09 is the documented format; the decoder shares no code or table with the crate (its common-input table is a frozen literal)".into()];
    let small_geoms: Vec<Geom> = if thorough { GEOMS.iter().cloned().filter(|g| *g != DEFAULT_GEOM).collect() } else { vec![(1, 1), (2, 2), (0, 0)] };
    for u in [u_ab3(), u_abc2(), u_raw2()] {
        for (a, b) in ranges(1 << u.keys.len(), 64) {
            let u = u.clone();
            let geoms = small_geoms.clone();
            p.units.push(unit(&format!("{}-subsets", u.name), format!("{} masks {}..{}", u.name, a, b), move |st, rep| {
                for mask in a..b {
                    if rep.stopped() { return; }
                    let keys = select(&u.keys, mask);
                    if u.name == "U_abc2" && mask != 0 && keys.iter().all(|k| !k.contains(&b'c')) { continue; }
                    for pat in patterns_for(keys.len(), thorough) {
                        let kvs = pat.apply(&keys);
                        st.nontrivial += (kvs.len() >= 2) as u64;
                        for g in &geoms {
                            do_case(&kvs, Front::RawInsert, *g, 0, st, rep);
                        }
                        if keys.len() <= 3 || thorough {
                            for ty in [1u64, 255, u64::MAX] {
                                do_case(&kvs, Front::RawInsert, (2, 2), ty, st, rep);
                            }
                        }
                        if keys.len() <= 3 || (thorough && pat == Pat::Lin3) {
                            for fr in ALL_FRONTS {
                                do_case(&kvs, fr, DEFAULT_GEOM, 0, st, rep);
                            }
                        }
                    }
                    if keys.len() <= 5 && u.name == "U_ab3" {
                        for pat in [Pat::Zero, Pat::Lin3] {
                            let kvs = pat.apply(&keys);
                            for g in [(1usize, 1usize), (3, 3)] {
                                match run_noisy(&kvs, g) {
                                    Ok(n) => { st.evals += n; st.count("noisy_builds_decoded", n); }
                                    Err(msg) => rep.violation(format!("noisy {} {:?}", kvs_str(&kvs), g), msg, json!({"kvs": kvs_json(&kvs), "geom": [g.0, g.1], "noisy": true})),
                                }
                            }
                            if keys.len() <= 3 {
                                match run_sinks(&kvs) {
                                    Ok(n) => { st.evals += n; st.count("builds_through_reluctant_sinks_decoded", n); }
                                    Err(msg) => rep.violation(format!("sinks {}", kvs_str(&kvs)), msg, json!({"kvs": kvs_json(&kvs), "sinks": true})),
                                }
                            }
                        }
                    }
                    if mask % 1021 == 3 {
                        st.sample(|| json!({"universe": u.name, "mask": mask, "keys": keys.iter().map(|k| key_str(k)).collect::<Vec<_>>()}));
                    }
                }
            }));
        }
    }
    let fanouts: Vec<usize> = if thorough { (0..=256).collect() } else { FANOUTS_QUICK.to_vec() };
    for n in fanouts {
        p.units.push(unit("fanout-families", format!("fanout {}", n), move |st, rep| {
            for (_, keys) in fanout_family(n) {
                for pat in [Pat::Zero, Pat::Lin3, Pat::MaxMinus, Pat::Boundary(3)] {
                    let kvs = pat.apply(&keys);
                    st.nontrivial += (kvs.len() >= 2) as u64;
                    if pat == Pat::Lin3 || pat == Pat::MaxMinus {
                        match run_sinks(&kvs) {
                            Ok(n) => { st.evals += n; st.count("builds_through_reluctant_sinks_decoded", n); }
                            Err(msg) => rep.violation(format!("sinks fan-out {} {:?}", kvs.len(), pat), msg, json!({"kvs": kvs_json(&kvs), "sinks": true})),
                        }
                    }
                    st.count("fanout_cases", 1);
                    do_case(&kvs, Front::RawInsert, (2, 2), 0, st, rep);
                    do_case(&kvs, Front::RawInsert, DEFAULT_GEOM, 7, st, rep);
                    do_case(&kvs, Front::MapInsert, DEFAULT_GEOM, 0, st, rep);
                }
            }
        }));
    }
    // every assignment from {0,1,2} to every subset of U_abc2 with <= 5 keys
    // (thorough: <= 6) under an evict-always cache
    {
        let u = u_abc2();
        let maxk = if thorough { 6 } else { 5 };
        let mut masks = vec![];
        for_each_mask_upto(u.keys.len(), maxk, &mut |m| masks.push(m));
        let chunk = (masks.len() + 127) / 128;
        for part in masks.chunks(chunk.max(1)) {
            let part = part.to_vec();
            let u = u.clone();
            p.units.push(unit("U_abc2-all-value-assignments-{0,1,2}-cache-1x1", format!("abc2 assignments {} masks from {}", part.len(), part[0]), move |st, rep| {
                for &mask in &part {
                    if rep.stopped() { return; }
                    let keys = select(&u.keys, mask);
                    let n = keys.len();
                    for code in 0..3usize.pow(n as u32) {
                        let mut c = code;
                        let kvs: Vec<Kv> = keys.iter().map(|k| { let v = (c % 3) as u64; c /= 3; (k.clone(), v) }).collect();
                        st.nontrivial += (n >= 2) as u64;
                        do_case(&kvs, Front::RawInsert, (1, 1), 0, st, rep);
                    }
                }
            }));
        }
    }
    for part in 0..8usize {
        p.units.push(unit("label-family-all-256-bytes", format!("labels part {}", part), move |st, rep| {
            for (i, (_, kvs)) in label_family().into_iter().enumerate() {
                if i % 8 != part {
                    continue;
                }
                st.nontrivial += (kvs.len() >= 2) as u64;
                st.count("label_cases", 1);
                do_case(&kvs, Front::RawInsert, (2, 2), 0, st, rep);
                do_case(&kvs, Front::MapInsert, DEFAULT_GEOM, 0, st, rep);
            }
        }));
    }
    p.units.push(unit("far-target-family-(2-and-3-byte-deltas-in-single-transition-nodes)", "far targets".into(), move |st, rep| {
        for (_, kvs) in far_family() {
            st.nontrivial += 1;
            st.count("far_cases", 1);
            do_case(&kvs, Front::RawInsert, DEFAULT_GEOM, 0, st, rep);
            do_case(&kvs, Front::MapInsert, DEFAULT_GEOM, 0, st, rep);
        }
    }));
    {
        let total = if thorough { 1260 } else { 168 };
        for part in 0..16usize {
            p.units.push(unit("mixed-mid-size-family-(finite-family)", format!("mixed part {}", part), move |st, rep| {
                for (i, (_, kvs)) in mixed_family(total).into_iter().enumerate() {
                    if i % 16 != part { continue; }
                    st.nontrivial += 1;
                    do_case(&kvs, Front::RawInsert, DEFAULT_GEOM, 0, st, rep);
                    do_case(&kvs, Front::RawInsert, (3, 3), 0, st, rep);
                }
            }));
        }
    }
    for k in [8u32, 16, 24] {
        p.units.push(unit("root-delta-exactly-at-2^8-2^16-2^24-(calibrated-family)", format!("delta 2^{}", k), move |st, rep| {
            for off in [-1i64, 0, 1] {
                match super::c01::delta_boundary_kvs_x(((1i64 << k) + off) as usize) {
                    Ok((kvs, exact)) => {
                        st.nontrivial += 1;
                        st.count("calibrated_delta_cases", 1);
                        st.count("calibrated_delta_cases_exactly_on_target", exact as u64);
                        do_case(&kvs, Front::RawInsert, DEFAULT_GEOM, 0, st, rep);
                    }
                    Err(msg) => {
                        // measuring a builder output with the independent decoder failed: that is
                        // a finding about the bytes, not a failure of the machinery
                        rep.violation(format!("calibrating a root delta of 2^{}{:+}", k, off), format!("the independent decoder could not read a builder output while calibrating: {}", msg), json!({"calibration": k}));
                    }
                }
            }
        }));
    }
    p.units.push(unit("twin-wide-nodes-under-tiny-caches", "twins".into(), move |st, rep| {
        for (_, kvs) in twin_family() {
            st.nontrivial += 1;
            st.count("twin_cases", 1);
            for g in GEOMS {
                do_case(&kvs, Front::RawInsert, g, 0, st, rep);
            }
        }
    }));
    for part in 0..16usize {
        p.units.push(unit("key-length-ladder-2..1100-(finite-family)", format!("length ladder part {}", part), move |st, rep| {
            for (_, kvs) in key_length_ladder(part, 16) {
                if kvs.iter().any(|x| x.0.len() > 1101) { continue; }
                st.nontrivial += 1;
                st.count("length_ladder_cases", 1);
                do_case(&kvs, Front::RawInsert, (2, 2), 0, st, rep);
            }
        }));
    }
    for part in 0..32usize {
        p.units.push(unit("fanout-x-output-width-grid", format!("grid part {}", part), move |st, rep| {
            for (_, kvs) in fan_width_grid(part, 32) {
                st.nontrivial += (kvs.len() >= 2) as u64;
                st.count("grid_cases", 1);
                do_case(&kvs, Front::RawInsert, (3, 3), 0, st, rep);
            }
        }));
    }
    for shift in 0..(if thorough { 4usize } else { 2 }) {
        p.units.push(unit("file-larger-than-16MiB", format!("big dense shift {}", shift), move |st, rep| {
            let kvs = big_dense_variant(shift);
            st.nontrivial += 1;
            do_case(&kvs, Front::RawInsert, DEFAULT_GEOM, 0, st, rep);
        }));
    }
    let sizes: Vec<u64> = if thorough { vec![3_000, 70_000, 1_200_000] } else { vec![3_000, 70_000] };
    for n in sizes {
        p.units.push(unit("size-families", format!("size family {}", n), move |st, rep| {
            let kvs = size_family(n);
            st.nontrivial += 1;
            do_case(&kvs, Front::RawInsert, DEFAULT_GEOM, 0, st, rep);
            do_case(&kvs, Front::RawInsert, (3, 3), 0, st, rep);
        }));
    }
    p.units.push(unit("many-builds-on-one-thread-(finite-family)", "many builds".into(), move |st, rep| {
        fn judge(kvs: &[Kv], bytes: &[u8]) -> Result<(), String> {
            conforms(bytes, 0, kvs).map(|_| ())
        }
        st.states += 65_550;
        match super::c15::run_many_builds_judged(false, Some(judge)) {
            Ok(c) => { st.evals += c; st.count("rebuilds_decoded_after_many_builds", c); }
            Err(msg) => rep.violation("many builds".into(), msg, json!({"many_builds": true})),
        }
    }));
    p.must_be_nonzero = vec!["far_cases".into(), "label_cases".into(), "fanout_cases".into(), "nodes_with_index".into(), "nodes_one_trans_next".into(), "nodes_one_trans".into()];
    p
}
