//! C14 - traversals and set operations stream with memory independent of the
//! FST size; opening and point lookups allocate nothing (counting allocator).

use std::collections::BTreeMap;
use std::sync::{Arc, Mutex};

use fst::automaton::{AlwaysMatch, Str, Subsequence};
use fst::raw::{self, Fst};
use fst::{Automaton, IntoStreamer, Map, Set, Streamer};
use serde_json::{json, Value};

use super::c03::{apply_bounds, HIS, LOS};
use super::util::*;
use crate::alloc;
use crate::ev::{guard, unit, Plan, Tier};
use crate::front::{self, Front};
use crate::model::*;

/// Heap allowed to one raw stream over keys of length <= l: the stack of
/// frames (<= l+1, doubled by Vec growth), the key buffer and two bound keys.
pub fn stream_bound(l: usize) -> i64 {
    // the constant leaves room for a benign fixed-size scratch buffer; what
    // matters is that no term depends on the number of keys (ladder rule)
    4096 + 2 * 128 * (l as i64 + 2) + 4 * (l as i64 + 16)
}

/// Heap allowed to a set operation over k FST streams.
pub fn op_bound(k: usize, l: usize) -> i64 {
    256 + k as i64 * (stream_bound(l) + 2 * (l.max(64) as i64) + 512)
}

/// (a) zero allocations for open + lookups on borrowed bytes.
pub fn run_zero_alloc(bytes: &[u8], probes: &[Key]) -> Result<u64, String> {
    guard(|| {
        let a0 = alloc::allocs();
        let f = Fst::new(bytes).map_err(|e| format!("{:?}", e))?;
        let m = Map::new(bytes).map_err(|e| format!("{:?}", e))?;
        let s = Set::new(bytes).map_err(|e| format!("{:?}", e))?;
        let a1 = alloc::allocs();
        if a1 != a0 {
            return Err(format!("opening an FST over borrowed bytes performed {} allocations", a1 - a0));
        }
        let mut acc = 0u64;
        for p in probes {
            acc += f.get(p).map(|o| o.value()).unwrap_or(0);
            acc += f.contains_key(p) as u64;
            acc += m.get(p).unwrap_or(0);
            acc += m.contains_key(p) as u64;
            acc += s.contains(p) as u64;
        }
        std::hint::black_box(acc);
        let a2 = alloc::allocs();
        if a2 != a1 {
            return Err(format!("{} point lookups performed {} allocations", 5 * probes.len(), a2 - a1));
        }
        let _ = (f.len(), m.len(), s.len());
        // lookups by value into a caller buffer that is already large enough
        // (no path of an acyclic FST is longer than the file)
        let mut kb: Vec<u8> = Vec::with_capacity(bytes.len() + 16);
        let a3 = alloc::allocs();
        let mut nv = 0u64;
        for p in probes {
            if let Some(v) = m.get(p) {
                for q in [v, v.wrapping_add(1), v.wrapping_sub(1)] {
                    kb.clear();
                    acc += f.get_key_into(q, &mut kb) as u64 + kb.len() as u64;
                    nv += 1;
                }
            }
        }
        for q in 0..8u64 {
            kb.clear();
            acc += f.get_key_into(q, &mut kb) as u64 + kb.len() as u64;
            nv += 1;
        }
        std::hint::black_box(acc);
        let a4 = alloc::allocs();
        if a4 != a3 {
            return Err(format!("{} get_key_into calls into a caller buffer of sufficient capacity performed {} allocations", nv, a4 - a3));
        }
        Ok(5 * probes.len() as u64 + 3 + nv)
    })
    .and_then(|x| x)
}

fn drain_checked<S>(mut s: S, x0: i64, bound: i64, what: &str) -> Result<(u64, i64), String>
where
    S: for<'a> Streamer<'a, Item = (&'a [u8], raw::Output)>,
{
    let mut n = 0u64;
    let mut max = alloc::live() - x0;
    loop {
        let more = s.next().is_some();
        let live = alloc::live() - x0;
        max = max.max(live);
        if live > bound {
            return Err(format!("{}: {} bytes of heap are live after item {} (bound {})", what, live, n, bound));
        }
        if !more {
            break;
        }
        n += 1;
    }
    Ok((n, max))
}

/// (b) stream / range / search on one FST: live heap after every next().
pub fn run_streams(bytes: &[u8], l: usize, bounds: &[Key]) -> Result<(u64, i64), String> {
    guard(|| {
        let f = Fst::new(bytes).map_err(|e| format!("{:?}", e))?;
        let b = stream_bound(l);
        let mut n = 0;
        let mut max = 0;
        let x0 = alloc::live();
        let (c, m) = drain_checked(f.stream(), x0, b, "stream()")?;
        n += c;
        max = max.max(m);
        let empty: Vec<u8> = vec![];
        for lo in LOS {
            let loks: &[Key] = if lo == Lo::None { std::slice::from_ref(&empty) } else { bounds };
            for lok in loks {
                for hi in HIS {
                    let hiks: &[Key] = if hi == Hi::None { std::slice::from_ref(&empty) } else { bounds };
                    for hik in hiks {
                        let x0 = alloc::live();
                        let (c, m) = drain_checked(apply_bounds(f.range(), lo, lok, hi, hik).into_stream(), x0, b, "range stream")?;
                        n += c + 1;
                        max = max.max(m);
                    }
                }
            }
        }
        let x0 = alloc::live();
        let (c, m) = drain_checked(f.search(AlwaysMatch).into_stream(), x0, b, "search(AlwaysMatch)")?;
        n += c + 1;
        max = max.max(m);
        let x0 = alloc::live();
        let (c, m) = drain_checked(f.search(Str::new("a").starts_with()).ge("a").into_stream(), x0, b, "search(Str(a).starts_with())")?;
        n += c + 1;
        max = max.max(m);
        let x0 = alloc::live();
        let (c, m) = drain_checked(f.search(Subsequence::new("ab").complement()).into_stream(), x0, b, "search(Subsequence(ab).complement())")?;
        n += c + 1;
        max = max.max(m);
        Ok((n, max))
    })
    .and_then(|x| x)
}

fn drain_op_checked<S>(mut s: S, x0: i64, bound: i64, what: &str) -> Result<(u64, i64), String>
where
    S: for<'a> Streamer<'a, Item = (&'a [u8], &'a [raw::IndexedValue])>,
{
    let mut n = 0u64;
    let mut max = alloc::live() - x0;
    loop {
        let more = s.next().is_some();
        let live = alloc::live() - x0;
        max = max.max(live);
        if live > bound {
            return Err(format!("{}: {} bytes of heap are live after item {} (bound {})", what, live, n, bound));
        }
        if !more {
            break;
        }
        n += 1;
    }
    Ok((n, max))
}

/// (c) the four set operations over k FST-backed streams.
pub fn run_ops(fsts: &[&[u8]], l: usize) -> Result<(u64, i64), String> {
    guard(|| {
        let fs: Vec<Fst<&[u8]>> = fsts.iter().map(|b| Fst::new(*b).unwrap()).collect();
        let k = fs.len();
        let b = op_bound(k, l);
        let mut n = 0;
        let mut max = 0;
        for op in 0..4 {
            let x0 = alloc::live();
            let mut ob = raw::OpBuilder::new();
            for f in &fs {
                ob.push(f);
            }
            let (c, m) = match op {
                0 => drain_op_checked(ob.union(), x0, b, "union")?,
                1 => drain_op_checked(ob.intersection(), x0, b, "intersection")?,
                2 => drain_op_checked(ob.difference(), x0, b, "difference")?,
                _ => drain_op_checked(ob.symmetric_difference(), x0, b, "symmetric_difference")?,
            };
            n += c + 1;
            max = max.max(m);
        }
        Ok((n, max))
    })
    .and_then(|x| x)
}

/// (d) whole-FST calls that enumerate internally: the three predicates over
/// two FSTs (raw and Set) and the Debug formatting of Set / Map into a sink
/// that does not allocate. Returns (calls, [peak extra heap of predicates,
/// of Debug]).
pub fn run_calls(fsts: &[&[u8]], l: usize) -> Result<(u64, [i64; 2]), String> {
    struct Null(u64);
    impl std::fmt::Write for Null {
        fn write_str(&mut self, s: &str) -> std::fmt::Result {
            self.0 += s.len() as u64;
            Ok(())
        }
    }
    guard(|| {
        let a = Fst::new(fsts[0]).unwrap();
        let b = Fst::new(fsts[1 % fsts.len()]).unwrap();
        let sa = Set::new(fsts[0]).unwrap();
        let sb = Set::new(fsts[1 % fsts.len()]).unwrap();
        let ma = Map::new(fsts[0]).unwrap();
        let bound = op_bound(2, l);
        let mut peaks = [0i64; 2];
        let mut acc = 0u64;
        let mut measure = |what: &str, slot: usize, bound: i64, f: &mut dyn FnMut() -> u64| -> Result<(), String> {
            let x0 = alloc::live();
            alloc::reset_peak();
            acc += f();
            let extra = alloc::peak() - x0;
            if extra > bound {
                return Err(format!("{}: peak extra heap {} bytes (bound {})", what, extra, bound));
            }
            // what stays live after the call (a bounded pool or scratch buffer kept for
            // reuse would be within the property) must be bounded like the peak and must
            // not grow when the same call is repeated
            // (a pool may take a few calls to fill: eight warm-up calls, then four that
            // must leave the live heap exactly where it was)
            for _ in 0..8 {
                acc += f();
            }
            let x1 = alloc::live();
            if x1 - x0 > bound {
                return Err(format!("{}: {} bytes still live after nine calls (bound {})", what, x1 - x0, bound));
            }
            for rep in 0..4 {
                acc += f();
                if alloc::live() != x1 {
                    return Err(format!("{}: the live heap still changes by {} bytes with repetition {} of the same call ({} bytes were live after the ninth)", what, alloc::live() - x1, rep + 10, x1 - x0));
                }
            }
            peaks[slot] = peaks[slot].max(extra);
            Ok(())
        };
        measure("Fst::is_subset", 0, bound, &mut || a.is_subset(&b) as u64)?;
        measure("Fst::is_superset", 0, bound, &mut || a.is_superset(&b) as u64)?;
        measure("Fst::is_disjoint", 0, bound, &mut || a.is_disjoint(&b) as u64)?;
        measure("Fst::is_subset (self)", 0, bound, &mut || a.is_subset(&a) as u64)?;
        measure("Set::is_subset", 0, bound, &mut || sa.is_subset(&sb) as u64)?;
        measure("Set::is_superset", 0, bound, &mut || sa.is_superset(&sb) as u64)?;
        measure("Set::is_disjoint", 0, bound, &mut || sa.is_disjoint(&sb) as u64)?;
        measure("Set::is_subset (range of self)", 0, bound, &mut || sa.is_subset(sa.range().ge(b"")) as u64)?;
        let dbound = stream_bound(l) + 2048;
        measure("Debug for Set", 1, dbound, &mut || {
            let mut w = Null(0);
            let _ = std::fmt::Write::write_fmt(&mut w, format_args!("{:?}", sa));
            w.0
        })?;
        measure("Debug for Map", 1, dbound, &mut || {
            let mut w = Null(0);
            let _ = std::fmt::Write::write_fmt(&mut w, format_args!("{:?}", ma));
            w.0
        })?;
        // traversals abandoned half way: nothing stays live, the peak is bounded
        measure("stream() dropped after 1000 items", 0, bound, &mut || {
            let mut s = a.stream();
            let mut c = 0u64;
            while c < 1000 && s.next().is_some() {
                c += 1;
            }
            c
        })?;
        measure("union dropped after 1000 items", 0, bound, &mut || {
            let mut u = raw::OpBuilder::new().add(&a).add(&b).union();
            let mut c = 0u64;
            while c < 1000 && u.next().is_some() {
                c += 1;
            }
            c
        })?;
        // bounded scans and searches, run to the end and abandoned
        let (lo, hi): (&[u8], &[u8]) = if fsts[0].len() > 0 && a.root().len() > 40 { (&[0x01, 0x25], &[0x03, 0x30, 0x31]) } else { (b"00000400", b"00002000") };
        measure("range().ge().le()", 0, bound, &mut || {
            let mut s = a.range().ge(lo).le(hi).into_stream();
            let mut c = 0u64;
            while s.next().is_some() { c += 1; }
            c
        })?;
        measure("range().gt().lt() dropped after 10 items", 0, bound, &mut || {
            let mut s = a.range().gt(lo).lt(hi).into_stream();
            let mut c = 0u64;
            while c < 10 && s.next().is_some() { c += 1; }
            c
        })?;
        measure("range().le() never advanced", 0, bound, &mut || {
            let s = a.range().le(hi).into_stream();
            drop(s);
            1
        })?;
        measure("search(AlwaysMatch).ge().lt()", 0, bound, &mut || {
            let mut s = a.search(fst::automaton::AlwaysMatch).ge(lo).lt(hi).into_stream();
            let mut c = 0u64;
            while s.next().is_some() { c += 1; }
            c
        })?;
        measure("search_with_state(Subsequence).le()", 0, bound, &mut || {
            let aut = fst::automaton::Subsequence::new("0");
            let mut s = a.search_with_state(&aut).le(hi).into_stream();
            let mut c = 0u64;
            while c < 500 && s.next().is_some() { c += 1; }
            c
        })?;
        measure("Map::range().le() / Set::range().lt()", 0, bound, &mut || {
            let mut s = ma.range().le(hi).into_stream();
            let mut c = 0u64;
            while c < 100 && s.next().is_some() { c += 1; }
            let mut t = sa.range().lt(hi).into_stream();
            while c < 200 && t.next().is_some() { c += 1; }
            c
        })?;
        measure("intersection of two bounded ranges", 0, bound, &mut || {
            let mut u = raw::OpBuilder::new().add(a.range().le(hi)).add(b.range().ge(lo)).intersection();
            let mut c = 0u64;
            while c < 1000 && u.next().is_some() { c += 1; }
            c
        })?;
        measure("difference and symmetric_difference, run to the end and abandoned", 0, bound, &mut || {
            let mut d = raw::OpBuilder::new().add(&a).add(&b).difference();
            let mut c = 0u64;
            while d.next().is_some() { c += 1; }
            let mut d = raw::OpBuilder::new().add(&b).add(&a).difference();
            let _ = d.next();
            drop(d);
            let mut x = raw::OpBuilder::new().add(&a).add(&b).symmetric_difference();
            while c < 2_000 && x.next().is_some() { c += 1; }
            let y = raw::OpBuilder::new().add(&a).add(&b).add(&a).symmetric_difference();
            drop(y);
            c
        })?;
        // all but the last five items polled, the rest collected: the collection holds five items
        measure("stream polled to its last five items, then into_byte_vec / into_byte_keys / into_values", 0, bound, &mut || {
            let n = a.len();
            let mut c = 0u64;
            for how in 0..3 {
                let mut s = a.stream();
                for _ in 0..n.saturating_sub(5) {
                    let _ = s.next();
                }
                c += match how {
                    0 => s.into_byte_vec().len(),
                    1 => s.into_byte_keys().len(),
                    _ => s.into_values().len(),
                } as u64;
            }
            let mut s = ma.stream();
            for _ in 0..n.saturating_sub(5) {
                let _ = s.next();
            }
            c + s.into_byte_vec().len() as u64
        })?;
        measure("two streams advanced alternately", 0, bound, &mut || {
            let (mut s1, mut s2) = (a.stream(), a.range().ge(b"0").into_stream());
            let mut c = 0u64;
            loop {
                let x = s1.next().is_some();
                let y = s2.next().is_some();
                c += 1;
                if !x && !y {
                    break c;
                }
            }
        })?;
        std::hint::black_box(acc);
        Ok((22 * 13, peaks))
    })
    .and_then(|x| x)
}

/// Key i of the ladder of the given shape. Shape 0: 8-byte decimal keys
/// (fan-out <= 10). Shape 1: 3-byte keys [i/2560, 0x20 + (i/40)%64, 0x30 + i%40]:
/// a root of up to 256 transitions, below it distinct 64-wide nodes, below
/// those distinct 40-wide nodes (N/40 distinct wide non-root nodes).
fn ladder_key(i: u64, shape: u64, out: &mut Vec<u8>) {
    out.clear();
    if shape == 0 {
        out.extend_from_slice(format!("{:08}", i).as_bytes());
    } else {
        out.extend_from_slice(&[(i / 2560) as u8, 0x20 + ((i / 40) % 64) as u8, 0x30 + (i % 40) as u8]);
    }
}

fn ladder_fst(n: u64, variant: u64, shape: u64) -> Vec<u8> {
    // variant v keeps the keys whose index is not divisible by (v+2), so
    // that the inputs of an operation overlap partially
    let mut b = raw::Builder::new(Vec::with_capacity(1 << 20)).unwrap();
    let mut k = vec![];
    for i in 0..n {
        if variant > 0 && i % (variant + 2) == 0 {
            continue;
        }
        ladder_key(i, shape, &mut k);
        b.insert(&k, i.wrapping_mul(0x9E37_79B9_7F4A_7C15) >> 20).unwrap();
    }
    b.into_inner().unwrap()
}

/// The keys of the ladder with index parity `par` (disjoint halves).
fn ladder_part(n: u64, par: u64, shape: u64) -> Vec<u8> {
    let mut b = raw::Builder::new(Vec::with_capacity(1 << 20)).unwrap();
    let mut k = vec![];
    for i in 0..n {
        if i % 2 == par {
            ladder_key(i, shape, &mut k);
            b.insert(&k, if shape == 0 { i } else { i.wrapping_mul(0x9E37_79B9_7F4A_7C15) >> 30 }).unwrap();
        }
    }
    b.into_inner().unwrap()
}

fn ladder_probes(shape: u64) -> (Vec<Key>, Key) {
    if shape == 0 {
        (vec![b"00000500".to_vec(), b"0000050".to_vec(), b"99999999".to_vec(), b"".to_vec()], b"00005000".to_vec())
    } else {
        (vec![vec![1, 0x21, 0x31], vec![1, 0x21], vec![0xff, 0x5f, 0x57], vec![0, 0x20, 0x30], vec![3, 0x10, 0x30], vec![]], vec![1, 0x30, 0x40])
    }
}

/// History independence: the heap a traversal or set operation needs is
/// determined by ITS inputs (k and the longest key), not by what earlier
/// operations of the thread or the process have seen. On a fresh thread:
/// peak extra heap of a union / intersection over 16 tiny sets and of a stream,
/// before and after this thread and another one ran the same operations over
/// FSTs holding a 65 536-byte key.
pub fn run_history_independence() -> Result<Vec<(String, i64, i64)>, String> {
    fn tiny(i: u64) -> Vec<u8> {
        let mut b = raw::Builder::memory();
        for j in 0..6u64 {
            b.insert(format!("k{}{}", j, (i + j) % 7), i + j).unwrap();
        }
        b.into_inner().unwrap()
    }
    fn giant(seed: u8) -> Vec<u8> {
        let mut b = raw::Builder::memory();
        b.insert("a", 1).unwrap();
        b.insert(vec![b'a' + seed % 2; 65_536], 2).unwrap();
        b.insert("z", 3).unwrap();
        b.into_inner().unwrap()
    }
    fn ops(files: &[Vec<u8>]) -> Vec<(String, i64)> {
        let fsts: Vec<Fst<&[u8]>> = files.iter().map(|f| Fst::new(&f[..]).unwrap()).collect();
        let mut out = vec![];
        let mut measure = |what: &str, f: &mut dyn FnMut() -> u64| {
            let x0 = alloc::live();
            alloc::reset_peak();
            std::hint::black_box(f());
            out.push((what.to_string(), alloc::peak() - x0));
        };
        measure("union", &mut || {
            let mut ob = raw::OpBuilder::new();
            for f in &fsts { ob.push(f); }
            let mut u = ob.union();
            let mut c = 0;
            while u.next().is_some() { c += 1; }
            c
        });
        measure("intersection", &mut || {
            let mut ob = raw::OpBuilder::new();
            for f in &fsts { ob.push(f); }
            let mut u = ob.intersection();
            let mut c = 0;
            while u.next().is_some() { c += 1; }
            c
        });
        measure("stream + bounded range + search", &mut || {
            let mut c = 0;
            let mut s = fsts[0].stream();
            while s.next().is_some() { c += 1; }
            let mut s = fsts[0].range().ge("k1").le("k5").into_stream();
            while s.next().is_some() { c += 1; }
            let mut s = fsts[0].search(fst::automaton::Subsequence::new("k")).into_stream();
            while s.next().is_some() { c += 1; }
            c
        });
        measure("is_subset + get_key", &mut || fsts[0].is_subset(&fsts[1]) as u64 + fsts[0].get_key(3).is_some() as u64);
        out
    }
    std::thread::spawn(|| -> Result<Vec<(String, i64, i64)>, String> {
        guard(|| {
            let small: Vec<Vec<u8>> = (0..16).map(tiny).collect();
            let big: Vec<Vec<u8>> = (0..3).map(giant).collect();
            let before = ops(&small);
            let _ = ops(&big);
            let big2 = big.clone();
            let _ = std::thread::spawn(move || ops(&big2)).join();
            let after = ops(&small);
            before.into_iter().zip(after).map(|(b, a)| (b.0, b.1, a.1)).collect()
        })
    })
    .join()
    .map_err(|_| "thread panicked".to_string())?
}

pub fn replay(case: &Value) -> Result<String, String> {
    if case["history_independence"].as_bool() == Some(true) {
        let rows = run_history_independence()?;
        for (what, b, a) in &rows {
            if (a - b).abs() > 4096 {
                return Err(format!("{}: {} bytes before, {} after", what, b, a));
            }
        }
        return Ok(format!("{} measurements unchanged", rows.len()));
    }
    if let Some(n) = case["ladder_n"].as_u64() {
        let k = case["k"].as_u64().unwrap_or(1) as usize;
        let shape = case["shape"].as_u64().unwrap_or(0);
        let (probes, bound) = ladder_probes(shape);
        if k == 301 || k == 302 {
            let (a, b) = (ladder_fst(n, 0, shape), ladder_fst(n, 1, shape));
            return run_calls(&[&a[..], &b[..]], 8).map(|(c, pk)| format!("{} calls, peak extra heap {:?}", c, pk));
        }
        if k == 0 {
            return run_zero_alloc(&ladder_fst(n, 0, shape), &probes).map(|c| format!("{} calls without allocation", c));
        }
        if k >= 100 {
            let all = ladder_fst(n, 0, shape);
            let (e, o) = (ladder_part(n, 0, shape), ladder_part(n, 1, shape));
            let refs: Vec<&[u8]> = match k {
                102 => vec![&all[..], &all[..]],
                103 => vec![&all[..], &all[..], &all[..]],
                104 => vec![&all[..], &all[..], &all[..], &all[..]],
                202 => vec![&e[..], &o[..]],
                _ => vec![&e[..], &o[..], &e[..]],
            };
            return run_ops(&refs, 8).map(|(c, m)| format!("{} items, max extra heap {}", c, m));
        }
        let fsts: Vec<Vec<u8>> = (0..k as u64).map(|v| ladder_fst(n, v, shape)).collect();
        if k == 1 {
            return run_streams(&fsts[0], 8, &[bound]).map(|(c, m)| format!("{} items, max extra heap {}", c, m));
        }
        let refs: Vec<&[u8]> = fsts.iter().map(|f| &f[..]).collect();
        return run_ops(&refs, 8).map(|(c, m)| format!("{} items, max extra heap {}", c, m));
    }
    let kvs = kvs_from(&case["kvs"]);
    let bytes = front::build(Front::RawInsert, (3, 3), &kvs)?;
    let keys: Vec<Key> = kvs.iter().map(|x| x.0.clone()).collect();
    let l = keys.iter().map(|k| k.len()).max().unwrap_or(0);
    run_zero_alloc(&bytes, &probe_closure(&keys, &[b'a', b'b', 0xff]))?;
    let (a, b) = front::partition(&kvs);
    let ba = front::build(Front::RawInsert, (3, 3), &a)?;
    let bb = front::build(Front::RawInsert, (3, 3), &b)?;
    run_ops(&[&bytes, &ba, &bb], l)?;
    run_streams(&bytes, l, &strings_over(b"`abc", 2)).map(|(c, m)| format!("{} items, max extra heap {}", c, m))
}

pub fn plan(tier: Tier) -> Plan {
    let mut p = Plan::new("C14", "exploration");
    let thorough = tier.thorough();
    p.rule = "counting allocator, per-thread. (1) exhaustive in small scopes: for every FST of all subsets of U_ab3 and U_raw2 (values 3i+1), of the fan-out families and of the 256-byte label family: (a) Fst::new/Map::new/Set::new over borrowed bytes and every get/contains_key/contains of the probe closure perform ZERO allocations (allocation count), and so does get_key_into for every value found, its neighbours and 0..7 into a caller buffer of sufficient capacity; (b) stream(), every range (all kind pairs x bound keys of length <= 2; large sets <= 1) and three automaton searches: live heap after EVERY next() <= heap before construction + 4096 + 256*(L+2) + 4*(L+16); (c) union/intersection/difference/symmetric_difference over k = 2..4 FST-backed streams (the FST, its even- and odd-indexed halves, itself): live heap after every next() <= before + 256 + k*(stream bound + 2*max(L,64) + 512). (2) finite ladder (not exhaustive): FSTs of N = 1e4, 1e5 (thorough 1e6) 8-byte keys: full stream/range/search, k = 2..8 way operations over partially overlapping FSTs, and operations over 2-4 identical and over disjoint FSTs (long runs in which nothing is emitted): max extra heap identical (+-256 B) for all N; the same on a wide-node ladder (3-byte keys: root of up to 256 transitions, N/40 distinct non-root nodes of 64 and 40 transitions; N = 10240, 102400, 655360 - the last one a dense root in a file > 64 KiB), with zero-allocation open/lookups on each; on both ladders also is_subset / is_superset / is_disjoint (raw and Set, also against a range stream) and the Debug formatting of Set and Map into a non-allocating sink, traversals abandoned after 1000 items and two streams of one FST advanced alternately: bounded range scans and searches (run to the end, abandoned, never advanced), difference / symmetric_difference, a stream polled down to its last five items and then collected; each call is repeated (8 warm-up calls, then 4 measured ones): peak extra heap bounded and identical for all N, what stays live after a call bounded likewise and NOT growing with repetition (a leak per traversal is growth with use). (3) history independence: peak extra heap of union / intersection / stream / range / search / predicates over 16 tiny sets on a fresh thread, before and after this thread and another one ran them over FSTs with a 65 536-byte key, differs by <= 4 KiB. non-trivial = traversals yielding >= 2 items".into();
    p.assumptions = vec![
        "'for all N' beyond the ladder is not decided; transient per-item allocations that are freed again do not violate the property as stated".into(),
        "memory of user-supplied streams is outside the property".into(),
    ];
    p.exhaustive = false;
    if !alloc::installed() {
        eprintln!("machinery: counting allocator is not installed");
        std::process::exit(2);
    }
    {
        let u = u_ab3();
        for (a, b) in ranges(1 << u.keys.len(), 128) {
            let u = u.clone();
            p.units.push(unit("U_ab3-subsets-zero-alloc-and-streaming", format!("U_ab3 masks {}..{}", a, b), move |st, rep| {
                let bounds2 = strings_over(b"`abc", 2);
                let bounds1 = strings_over(b"`abc", 1);
                for mask in a..b {
                    if rep.stopped() { return; }
                    let keys = select(&u.keys, mask);
                    let kvs = Pat::Lin3.apply(&keys);
                    let l = keys.iter().map(|k| k.len()).max().unwrap_or(0);
                    let bytes = match front::build(Front::RawInsert, (3, 3), &kvs) { Ok(b) => b, Err(_) => continue };
                    let case = || json!({"kvs": kvs_json(&kvs)});
                    st.states += 1;
                    match run_zero_alloc(&bytes, &probe_closure(&keys, &[b'a', b'b', 0xff])) {
                        Ok(n) => { st.evals += n; st.count("zero_alloc_calls", n); }
                        Err(msg) => rep.violation(format!("alloc {}", kvs_str(&kvs)), msg, case()),
                    }
                    let small = keys.len() <= 4;
                    if small || thorough || mask % 4 == 1 {
                        match run_streams(&bytes, l, if small || thorough { &bounds2 } else { &bounds1 }) {
                            Ok((n, m)) => { st.evals += n; st.transitions += n; st.states += n; st.max("max_extra_heap_stream", m as u64); st.nontrivial += (keys.len() >= 2) as u64; }
                            Err(msg) => rep.violation(format!("stream {}", kvs_str(&kvs)), msg, case()),
                        }
                        let (ea, eb) = front::partition(&kvs);
                        let ba = front::build(Front::RawInsert, (3, 3), &ea).unwrap();
                        let bb = front::build(Front::RawInsert, (3, 3), &eb).unwrap();
                        for fs in [vec![&bytes[..], &ba[..]], vec![&bytes[..], &ba[..], &bb[..]], vec![&ba[..], &bb[..], &bytes[..], &bytes[..]], vec![&bytes[..], &bytes[..]], vec![&ba[..], &bb[..]]] {
                            match run_ops(&fs, l) {
                                Ok((n, m)) => { st.evals += n; st.transitions += n; st.states += n; st.max(&format!("max_extra_heap_op_k{}", fs.len()), m as u64); }
                                Err(msg) => rep.violation(format!("ops k={} {}", fs.len(), kvs_str(&kvs)), msg, case()),
                            }
                        }
                    }
                    if mask == 0x1234 {
                        st.sample(|| json!({"kvs": kvs_str(&kvs), "stream_bound": stream_bound(l), "op_bound_k3": op_bound(3, l)}));
                    }
                }
            }));
        }
    }
    for n in [2usize, 33, 64, 256] {
        p.units.push(unit("fanout-families-zero-alloc-and-streaming", format!("fanout {}", n), move |st, rep| {
            for (name, keys) in fanout_family(n) {
                if !name.contains("first") { continue; }
                let kvs = Pat::Lin3.apply(&keys);
                let l = keys.iter().map(|k| k.len()).max().unwrap_or(0);
                let bytes = front::build(Front::RawInsert, (3, 3), &kvs).unwrap();
                let all: Vec<u8> = (0..=255u8).step_by(5).collect();
                let case = || json!({"kvs": kvs_json(&kvs)});
                match run_zero_alloc(&bytes, &probe_closure(&keys[..keys.len().min(40)], &all)) {
                    Ok(c) => { st.evals += c; st.count("zero_alloc_calls", c); }
                    Err(msg) => rep.violation(format!("alloc fanout {}", name), msg, case()),
                }
                match run_streams(&bytes, l, &[b"p".to_vec(), vec![0x40], vec![0xff]]) {
                    Ok((c, m)) => { st.evals += c; st.states += c; st.max("max_extra_heap_stream", m as u64); st.nontrivial += 1; }
                    Err(msg) => rep.violation(format!("stream fanout {}", name), msg, case()),
                }
            }
        }));
    }
    // keys over uncommon bytes (explicit input bytes in single-transition
    // nodes): label family and all subsets of U_raw2
    p.units.push(unit("label-family-and-U_raw2-zero-alloc-and-streaming", "uncommon labels".into(), move |st, rep| {
        let mut inputs: Vec<Vec<Kv>> = label_family().into_iter().map(|x| x.1).collect();
        let u = u_raw2();
        for mask in 0..(1u64 << u.keys.len()) {
            inputs.push(Pat::Lin3.apply(&select(&u.keys, mask)));
        }
        for kvs in inputs {
            let keys: Vec<Key> = kvs.iter().map(|x| x.0.clone()).collect();
            let l = keys.iter().map(|k| k.len()).max().unwrap_or(0);
            let bytes = match front::build(Front::RawInsert, (3, 3), &kvs) { Ok(b) => b, Err(_) => continue };
            let case = || json!({"kvs": kvs_json(&kvs)});
            match run_zero_alloc(&bytes, &probe_closure(&keys, &[0x00, b'a', 0x7f, 0xff])) {
                Ok(n) => { st.evals += n; st.count("zero_alloc_calls", n); }
                Err(msg) => rep.violation(format!("alloc {}", kvs_str(&kvs)), msg, case()),
            }
            if let Err(msg) = run_streams(&bytes, l, &[vec![0x7f], vec![0xff, 0x00]]) {
                rep.violation(format!("stream {}", kvs_str(&kvs)), msg, case());
            }
        }
    }));
    // ladder
    let ns: Vec<u64> = if thorough { vec![10_000, 100_000, 1_000_000] } else { vec![10_000, 100_000] };
    let ns_wide: Vec<u64> = vec![10_240, 102_400, 655_360];
    let table: Arc<Mutex<BTreeMap<(usize, u64), i64>>> = Arc::new(Mutex::new(BTreeMap::new()));
    for (shape, n) in ns.iter().map(|&n| (0u64, n)).chain(ns_wide.iter().map(|&n| (1u64, n))) {
        let table = table.clone();
        let sh = shape as usize * 1000;
        p.units.push(unit(if shape == 0 { "ladder-(finite-family)" } else { "wide-node-ladder-(finite-family)" }, format!("ladder shape {} N={}", shape, n), move |st, rep| {
            let fsts: Vec<Vec<u8>> = (0..8u64).map(|v| ladder_fst(n, v, shape)).collect();
            let (probes, bound) = ladder_probes(shape);
            match run_zero_alloc(&fsts[0], &probes) {
                Ok(c) => st.evals += c,
                Err(msg) => rep.violation(format!("ladder alloc shape {} N={}", shape, n), msg, json!({"ladder_n": n, "k": 0, "shape": shape})),
            }
            match run_streams(&fsts[0], 8, &[bound]) {
                Ok((c, m)) => { st.evals += c; st.states += c; st.transitions += c; st.nontrivial += 1; st.count("ladder_points", 1); table.lock().unwrap().insert((sh + 1, n), m); }
                Err(msg) => rep.violation(format!("ladder stream shape {} N={}", shape, n), msg, json!({"ladder_n": n, "k": 1, "shape": shape})),
            }
            match run_calls(&[&fsts[0][..], &fsts[1][..]], 8) {
                Ok((c, pk)) => {
                    st.evals += c;
                    st.count("ladder_points", 2);
                    table.lock().unwrap().insert((sh + 301, n), pk[0]);
                    table.lock().unwrap().insert((sh + 302, n), pk[1]);
                }
                Err(msg) => rep.violation(format!("ladder calls shape {} N={}", shape, n), msg, json!({"ladder_n": n, "k": 301, "shape": shape})),
            }
            // inputs for which an operation emits nothing for long runs:
            // identical FSTs (symmetric difference of an even number, difference)
            // and disjoint FSTs (intersection)
            let evens = ladder_part(n, 0, shape);
            let odds = ladder_part(n, 1, shape);
            for (tag, refs) in [
                (102usize, vec![&fsts[0][..], &fsts[0][..]]),
                (104, vec![&fsts[0][..], &fsts[0][..], &fsts[0][..], &fsts[0][..]]),
                (103, vec![&fsts[0][..], &fsts[0][..], &fsts[0][..]]),
                (202, vec![&evens[..], &odds[..]]),
                (203, vec![&evens[..], &odds[..], &evens[..]]),
            ] {
                match run_ops(&refs, 8) {
                    Ok((c, m)) => { st.evals += c; st.states += c; st.transitions += c; st.count("ladder_points", 1); table.lock().unwrap().insert((sh + tag, n), m); }
                    Err(msg) => rep.violation(format!("ladder ops case {} shape {} N={}", tag, shape, n), msg, json!({"ladder_n": n, "k": tag, "shape": shape})),
                }
            }
            for k in 2..=8usize {
                let refs: Vec<&[u8]> = fsts[..k].iter().map(|f| &f[..]).collect();
                match run_ops(&refs, 8) {
                    Ok((c, m)) => { st.evals += c; st.states += c; st.transitions += c; st.count("ladder_points", 1); table.lock().unwrap().insert((sh + k, n), m); }
                    Err(msg) => rep.violation(format!("ladder ops k={} shape {} N={}", k, shape, n), msg, json!({"ladder_n": n, "k": k, "shape": shape})),
                }
            }
        }));
    }
    let ns2 = ns.clone();
    p.finish = Some(Box::new(move |st, rep| {
        let t = table.lock().unwrap();
        st.samples.push(json!({"ladder_max_extra_heap": t.iter().map(|((k, n), v)| json!({"shape": k / 1000, "k_streams": k % 1000, "N": n, "bytes": v})).collect::<Vec<_>>()}));
        for (shape, ns) in [(0usize, &ns2), (1, &ns_wide)] {
            for k in (1..=8usize).chain([102, 103, 104, 202, 203, 301, 302]) {
                for w in ns.windows(2) {
                    if let (Some(a), Some(b)) = (t.get(&(shape * 1000 + k, w[0])), t.get(&(shape * 1000 + k, w[1]))) {
                        if (a - b).abs() > 256 {
                            rep.violation(format!("ladder growth shape {} k={} N={}..{}", shape, k, w[0], w[1]), format!("extra heap of a traversal over k={} inputs is {} bytes for N={} but {} for N={} (ladder shape {})", k, a, w[0], b, w[1], shape), json!({"ladder_n": w[1], "k": k, "shape": shape}));
                        }
                    }
                }
            }
        }
    }));
    p.units.push(unit("history-independence-(after-operations-over-a-65536-byte-key)", "history independence".into(), move |st, rep| {
        st.evals += 1;
        match run_history_independence() {
            Ok(rows) => {
                st.count("history_independence_measurements", rows.len() as u64);
                st.sample(|| json!({"history_independence": rows.iter().map(|(w, b, a)| json!({"what": w, "before": b, "after": a})).collect::<Vec<_>>()}));
                for (what, b, a) in rows {
                    if (a - b).abs() > 4096 {
                        rep.violation(format!("history independence: {}", what), format!("{} over 16 tiny sets: peak extra heap {} bytes on a fresh thread, {} bytes for the same operation after this thread and another one ran it over FSTs with a 65536-byte key: the heap depends on what earlier operations have seen", what, b, a), json!({"history_independence": true}));
                    }
                }
            }
            Err(msg) => rep.violation("history independence".into(), msg, json!({"history_independence": true})),
        }
    }));
    p.must_be_nonzero = vec!["ladder_points".into(), "zero_alloc_calls".into()];
    p
}
