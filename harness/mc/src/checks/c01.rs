//! C01 - build-then-enumerate round trip (SEQ engine).

use fst::raw::Fst;
use fst::{IntoStreamer, Map, Set, Streamer};
use serde_json::{json, Value};

use super::util::*;
use crate::ev::{fnv, guard, unit, Plan, Reporter, Stats, Tier};
use crate::front::{self, Front, Geom, ALL_FRONTS, DEFAULT_GEOM, GEOMS};
use crate::model::*;

fn check_readback(bytes: &[u8], kvs: &[Kv], full: bool) -> Result<(), String> {
    let n = kvs.len();
    let f = Fst::new(bytes).map_err(|e| format!("Fst::new failed: {:?}", e))?;
    let got = f.stream().into_byte_vec();
    if got != kvs {
        return Err(format!("Fst::stream gave {} expected {}", kvs_str(&got), kvs_str(kvs)));
    }
    if f.len() != n || f.is_empty() != (n == 0) {
        return Err(format!("Fst::len={} is_empty={} expected {}", f.len(), f.is_empty(), n));
    }
    if !full {
        return Ok(());
    }
    let got = front::into_stream_vec(&f);
    if got != kvs {
        return Err(format!("(&Fst).into_stream gave {}", kvs_str(&got)));
    }
    let m = Map::new(bytes).map_err(|e| format!("Map::new failed: {:?}", e))?;
    let got = m.stream().into_byte_vec();
    if got != kvs {
        return Err(format!("Map::stream gave {}", kvs_str(&got)));
    }
    let keys: Vec<Key> = kvs.iter().map(|x| x.0.clone()).collect();
    let vals: Vec<u64> = kvs.iter().map(|x| x.1).collect();
    if front::collect_keys(m.keys()) != keys {
        return Err("Map::keys differs".into());
    }
    let mut vs = vec![];
    let mut s = m.values();
    while let Some(v) = s.next() {
        vs.push(v);
    }
    if vs != vals {
        return Err(format!("Map::values gave {:?}", vs));
    }
    if m.stream().into_byte_keys() != keys || m.stream().into_values() != vals {
        return Err("Map::stream into_byte_keys/into_values differs".into());
    }
    if front::collect_map_stream((&m).into_stream()) != kvs {
        return Err("(&Map).into_stream differs".into());
    }
    if m.len() != n || m.is_empty() != (n == 0) {
        return Err("Map::len/is_empty".into());
    }
    // by hand through the public node API
    let walked = walk_nodes(&f, n + 10)?;
    if walked != kvs {
        return Err(format!("walking root()/node()/transitions() gave {} expected {}", kvs_str(&walked), kvs_str(kvs)));
    }
    // usage variants of the readers: two streams of one object advanced
    // alternately, a stream dropped half way and another started, lookups
    // between two next() calls, clones and conversions
    {
        let mut s1 = f.stream();
        let mut s2 = f.stream();
        let (mut g1, mut g2): (Vec<Kv>, Vec<Kv>) = (vec![], vec![]);
        loop {
            let a = s1.next().map(|(k, v)| (k.to_vec(), v.value()));
            if let Some((k, _)) = &a {
                let _ = f.get(k);
            }
            let b = s2.next().map(|(k, v)| (k.to_vec(), v.value()));
            let done = a.is_none() && b.is_none();
            g1.extend(a);
            g2.extend(b);
            if done {
                break;
            }
        }
        if g1 != kvs || g2 != kvs {
            return Err(format!("two streams of one Fst advanced alternately gave {} and {}", kvs_str(&g1), kvs_str(&g2)));
        }
        let mut half = f.stream();
        for _ in 0..n / 2 {
            half.next();
        }
        drop(half);
        if f.stream().into_byte_vec() != kvs {
            return Err("a stream started after another one was dropped half way differs".into());
        }
        let fc = f.clone();
        let mc = Map::from(fc.clone()).clone();
        let sc = Set::from(fc);
        let via_asref: &Fst<&[u8]> = mc.as_ref();
        if via_asref.stream().into_byte_vec() != kvs || sc.stream().into_bytes() != keys || mc.clone().into_fst().stream().into_byte_vec() != kvs || sc.as_fst().len() != n {
            return Err("clones / From<Fst> / AsRef<Fst> / into_fst readers differ".into());
        }
    }
    // readers that were pointed at these bytes through map_data (from an empty / another FST)
    let m0: Map<Vec<u8>> = Map::default();
    let m0 = m0.map_data(|_| bytes).map_err(|e| format!("Map::default().map_data failed: {:?}", e))?;
    if m0.stream().into_byte_vec() != kvs || m0.len() != n || m0.is_empty() != (n == 0) {
        return Err(format!("a Map pointed at the bytes through map_data streams {} (len {})", kvs_str(&m0.stream().into_byte_vec()), m0.len()));
    }
    let other = Set::new(other_fst_bytes()).map_err(|e| format!("{:?}", e))?;
    let s1 = other.map_data(|_| bytes).map_err(|e| format!("Set::map_data failed: {:?}", e))?;
    if s1.stream().into_bytes() != keys || s1.len() != n {
        return Err(format!("a Set pointed at the bytes through map_data has len {} and streams {:?}", s1.len(), s1.stream().into_bytes().iter().map(|k| key_str(k)).collect::<Vec<_>>()));
    }
    let s = Set::new(bytes).map_err(|e| format!("Set::new failed: {:?}", e))?;
    if s.stream().into_bytes() != keys || front::collect_keys((&s).into_stream()) != keys {
        return Err("Set::stream differs".into());
    }
    if s.len() != n || s.is_empty() != (n == 0) {
        return Err("Set::len/is_empty".into());
    }
    if keys.iter().all(|k| std::str::from_utf8(k).is_ok()) {
        let want: Vec<(String, u64)> =
            kvs.iter().map(|(k, v)| (String::from_utf8(k.clone()).unwrap(), *v)).collect();
        match m.stream().into_str_vec() {
            Ok(g) if g == want => {}
            other => return Err(format!("Map into_str_vec gave {:?}", other)),
        }
        match s.stream().into_strs() {
            Ok(g) if g == want.iter().map(|x| x.0.clone()).collect::<Vec<_>>() => {}
            other => return Err(format!("Set into_strs gave {:?}", other)),
        }
    }
    Ok(())
}

/// A map whose ROOT has a transition with an address delta of exactly
/// `target` (2^8, 2^16, 2^24 and their neighbours: the boundaries between 1-,
/// 2-, 3- and 4-byte deltas). Keys: "ax" (compiled first, so its node has a
/// small address), a bulk of wide nodes under 'b', and a chain "c" + "z"*L
/// whose length L is calibrated with the independent decoder until the delta
/// of the root's 'a' transition is the target.
pub fn delta_boundary_kvs(target: usize) -> Result<Vec<Kv>, String> {
    delta_boundary_kvs_x(target).map(|x| x.0)
}

/// The second component says whether the independent decoder reads exactly
/// the target delta in the final build. It may not on a builder that is wrong
/// AT the boundary - that is for the check to report, not a machinery failure.
pub fn delta_boundary_kvs_x(target: usize) -> Result<(Vec<Kv>, bool), String> {
    let make = |wide: usize, l: usize| -> Vec<Kv> {
        let mut kvs: Vec<Kv> = vec![(b"ax".to_vec(), 3)];
        'outer: for h in 0..=255u8 {
            for lo in 0..=255u8 {
                if (h as usize) * 256 + lo as usize >= wide {
                    break 'outer;
                }
                for b in 0..=255u8 {
                    let i = ((h as u64) << 16) | ((lo as u64) << 8) | b as u64;
                    kvs.push((vec![b'b', h, lo, b], (1u64 << 56) | (mix64(i) >> 9)));
                }
            }
        }
        let mut filler = vec![b'c'];
        filler.extend(std::iter::repeat(b'z').take(l));
        kvs.push((filler, 1));
        kvs
    };
    let measure = |kvs: &[Kv]| -> Result<usize, String> {
        let bytes = front::build(Front::RawInsert, DEFAULT_GEOM, kvs)?;
        let d = crate::codec::decode(&bytes).map_err(|e| format!("machinery: decoder: {}", e))?;
        let root = d.nodes.get(&d.root).ok_or("machinery: no root")?;
        let t = root.trans.iter().find(|t| t.0 == b'a').ok_or("machinery: no 'a' transition")?;
        Ok(root.start - t.2)
    };
    // size of the bulk: measured, not assumed
    let base = measure(&make(0, 1))?;
    let per = (measure(&make(8, 1))? - base) / 8 + 1;
    let wide = if target > base + 3 * per { (target - base - 2 * per) / per } else { 0 };
    // calibrate on target + 9 (not a boundary value, so that a builder that is wrong AT the
    // boundary does not disturb the calibration), then take 9 filler bytes away unmeasured:
    // every filler byte is one 1-byte node
    let aim = target + 9;
    let mut l = 10usize;
    for _ in 0..6 {
        let got = measure(&make(wide, l))?;
        if got == aim {
            let kvs = make(wide, l - 9);
            // on a correct builder the delta is now exactly the target (a decoder error here
            // is left to the check itself: the builder may be wrong at the boundary)
            let exact = measure(&kvs).map(|d| d == target).unwrap_or(false);
            return Ok((kvs, exact));
        }
        if got > aim + l {
            return Err(format!("machinery: the bulk alone already gives a delta of {} > {}", got, aim));
        }
        l = (l as i64 + aim as i64 - got as i64).max(10) as usize;
    }
    Err(format!("machinery: could not calibrate a root delta of {}", target))
}

/// One case: build through `front` under `geom`, read back through every
/// reader. Returns the FNV of the produced bytes as the observation.
pub fn run_case(kvs: &[Kv], fr: Front, geom: Geom, full: bool) -> Result<u64, String> {
    let bytes = front::build(fr, geom, kvs)?;
    guard(|| check_readback(&bytes, kvs, full)).and_then(|x| x)?;
    Ok(fnv(&bytes))
}

fn case_json(kvs: &[Kv], fr: Front, geom: Geom) -> Value {
    json!({"kvs": kvs_json(kvs), "front": format!("{:?}", fr), "geom": [geom.0, geom.1]})
}

pub fn replay(case: &Value) -> Result<String, String> {
    if let Some(r) = super::seqread::replay(case) {
        return r;
    }
    if case["many_builds"].as_bool() == Some(true) {
        fn judge(kvs: &[Kv], bytes: &[u8]) -> Result<(), String> {
            guard(|| check_readback(bytes, kvs, false)).and_then(|x| x)
        }
        return super::c15::run_many_builds_judged(false, Some(judge)).map(|c| format!("{} rebuilds read back", c));
    }
    if let Some(t) = case["delta_target"].as_u64() {
        let kvs = delta_boundary_kvs(t as usize)?;
        return run_case(&kvs, Front::RawInsert, DEFAULT_GEOM, false).map(|h| format!("bytes fnv {:x}", h));
    }
    let kvs = if case["big_dense"].as_bool() == Some(true) { big_dense_family() } else { kvs_from(&case["kvs"]) };
    let fr = front_from(case["front"].as_str().unwrap());
    let geom = geom_from(&case["geom"]);
    run_case(&kvs, fr, geom, true).map(|h| format!("bytes fnv {:x}", h))
}

fn do_case(kvs: &[Kv], fr: Front, geom: Geom, full: bool, st: &mut Stats, rep: &Reporter) {
    if fr.set_only() && kvs.iter().any(|x| x.1 != 0) {
        return;
    }
    st.states += 1;
    st.transitions += kvs.len() as u64 + 1;
    st.evals += 1;
    match run_case(kvs, fr, geom, full) {
        Ok(h) => st.outcome(h),
        Err(msg) if front::is_usage_skip(&msg) => st.count("builds_skipped_because_the_builder_accepted_a_call_it_must_reject", 1),
        Err(msg) => {
            if kvs.len() > 5000 {
                rep.violation(format!("{} keys from {} {:?} {:?}", kvs.len(), key_str(&kvs[0].0), fr, geom), msg, json!({"big_dense": true, "front": format!("{:?}", fr), "geom": [geom.0, geom.1]}));
            } else {
                rep.violation(format!("{} {:?} {:?}", kvs_str(kvs), fr, geom), msg, case_json(kvs, fr, geom));
            }
        }
    }
}

/// Does this mask of `u` duplicate a key set already enumerated in U_ab3?
fn dup_of_ab3(u: &Universe, keys: &[Key]) -> bool {
    u.name == "U_abc2" && keys.iter().all(|k| !k.contains(&b'c'))
}

pub fn plan(tier: Tier) -> Plan {
    let mut p = Plan::new("C01", "model_checking");
    p.rule = "every subset of each key universe (= every valid insert history) x value patterns x cache geometries x front ends is built with the real builder, finished and read back through every reader; a case is non-trivial when it has >= 2 keys; cases are distinct by construction (key sets of U_abc2 without 'c' are skipped as duplicates of U_ab3); maps calibrated (with the independent decoder) so that the root reaches a node by an address delta of exactly 2^8, 2^16, 2^24 and their neighbours; the same wide node compiled again under every tiny cache geometry; about 65 550 builders on one thread with twelve probe inputs rebuilt 1 .. 65 537 builds after their first build and read back; readers also through map_data, clone/From/AsRef conversions, alternating and half-dropped streams and a node-by-node walk through the public node API".into();
    p.assumptions = vec![
        "harness reference model (BTreeMap order) is the specification of 'lexicographic byte order'".into(),
        "front ends other than raw::Builder can only be run under the default cache geometry".into(),
    ];
    let thorough = tier.thorough();
    let universes = vec![u_ab3(), u_abc2(), u_raw2()];
    let small_geoms: Vec<Geom> = if thorough {
        GEOMS.iter().cloned().filter(|g| *g != DEFAULT_GEOM).collect()
    } else {
        vec![(1, 1), (2, 2), (0, 0)]
    };
    // (a) all subsets x patterns x small geometries, raw front ends
    for u in universes.iter().cloned() {
        let total = 1u64 << u.keys.len();
        for (a, b) in ranges(total, 64) {
            let u = u.clone();
            let geoms = small_geoms.clone();
            p.units.push(unit(
                &format!("{}-subsets-smallgeom", u.name),
                format!("{} masks {}..{}", u.name, a, b),
                move |st, rep| {
                    for mask in a..b {
                        if rep.stopped() {
                            return;
                        }
                        let keys = select(&u.keys, mask);
                        if dup_of_ab3(&u, &keys) && mask != 0 {
                            continue;
                        }
                        for pat in patterns_for(keys.len(), thorough) {
                            let kvs = pat.apply(&keys);
                            if kvs.len() >= 2 {
                                st.nontrivial += 1;
                            }
                            st.sample(|| json!({"universe": u.name, "mask": mask, "pattern": pat.name(), "kvs": kvs_str(&kvs)}));
                            for (gi, g) in geoms.iter().enumerate() {
                                do_case(&kvs, Front::RawInsert, *g, gi == 0, st, rep);
                                if thorough || gi == 0 {
                                    do_case(&kvs, Front::RawAdd, *g, false, st, rep);
                                    do_case(&kvs, Front::RawExtendStreamVec, *g, false, st, rep);
                                }
                            }
                        }
                    }
                },
            ));
        }
    }
    // (b) default geometry x every front end (quick: subsets with <= 3 keys)
    for u in universes.iter().cloned() {
        let maxk = if thorough { u.keys.len() } else { 3 };
        let mut masks = vec![];
        for_each_mask_upto(u.keys.len(), maxk, &mut |m| masks.push(m));
        let chunk = (masks.len() + 63) / 64;
        for part in masks.chunks(chunk.max(1)) {
            let part = part.to_vec();
            let u = u.clone();
            p.units.push(unit(
                &format!("{}-allfronts-defaultgeom-upto{}", u.name, maxk),
                format!("{} {} masks from {}", u.name, part.len(), part[0]),
                move |st, rep| {
                    for &mask in &part {
                        if rep.stopped() {
                            return;
                        }
                        let keys = select(&u.keys, mask);
                        if dup_of_ab3(&u, &keys) && mask != 0 {
                            continue;
                        }
                        for pat in patterns_for(keys.len(), false) {
                            let kvs = pat.apply(&keys);
                            for fr in ALL_FRONTS {
                                do_case(&kvs, fr, DEFAULT_GEOM, fr == Front::MapInsert, st, rep);
                            }
                        }
                    }
                },
            ));
        }
    }
    // (c) exhaustive value assignments from {0,1,2,255,256} for all sets of <= 4 keys of U_ab3
    {
        let u = u_ab3();
        let mut masks = vec![];
        for_each_mask_upto(u.keys.len(), 4, &mut |m| masks.push(m));
        let chunk = (masks.len() + 63) / 64;
        for part in masks.chunks(chunk.max(1)) {
            let part = part.to_vec();
            let u = u.clone();
            p.units.push(unit(
                "U_ab3-upto4-all-value-assignments-{0,1,2,255,256}",
                format!("value assignments, {} masks from {}", part.len(), part[0]),
                move |st, rep| {
                    const VALS: [u64; 5] = [0, 1, 2, 255, 256];
                    for &mask in &part {
                        if rep.stopped() {
                            return;
                        }
                        let keys = select(&u.keys, mask);
                        let n = keys.len();
                        let total = 5usize.pow(n as u32);
                        for code in 0..total {
                            let mut c = code;
                            let kvs: Vec<Kv> = keys
                                .iter()
                                .map(|k| {
                                    let v = VALS[c % 5];
                                    c /= 5;
                                    (k.clone(), v)
                                })
                                .collect();
                            if n >= 2 {
                                st.nontrivial += 1;
                            }
                            do_case(&kvs, Front::RawInsert, (2, 2), false, st, rep);
                            if thorough {
                                do_case(&kvs, Front::RawInsert, (1, 1), false, st, rep);
                                do_case(&kvs, Front::RawInsert, (3, 3), false, st, rep);
                            }
                        }
                    }
                },
            ));
        }
    }
    // (c2) every assignment from {0,1,2} to every subset of U_abc2 with <= 6
    // keys (thorough: <= 7) under evict-always caches: non-monotone values on
    // prefix pairs give final outputs, and equal differences in different
    // subtrees make cache cells look alike (stale-cell and wrong-merge bugs)
    {
        let u = u_abc2();
        let maxk = if thorough { 7 } else { 6 };
        let mut masks = vec![];
        for_each_mask_upto(u.keys.len(), maxk, &mut |m| masks.push(m));
        let chunk = (masks.len() + 255) / 256;
        for part in masks.chunks(chunk.max(1)) {
            let part = part.to_vec();
            let u = u.clone();
            p.units.push(unit(
                "U_abc2-upto6-all-value-assignments-{0,1,2}-tiny-caches",
                format!("abc2 value assignments, {} masks from {}", part.len(), part[0]),
                move |st, rep| {
                    for &mask in &part {
                        if rep.stopped() {
                            return;
                        }
                        let keys = select(&u.keys, mask);
                        let n = keys.len();
                        let total = 3usize.pow(n as u32);
                        for code in 0..total {
                            let mut c = code;
                            let kvs: Vec<Kv> = keys
                                .iter()
                                .map(|k| {
                                    let v = (c % 3) as u64;
                                    c /= 3;
                                    (k.clone(), v)
                                })
                                .collect();
                            if n >= 2 {
                                st.nontrivial += 1;
                            }
                            do_case(&kvs, Front::RawInsert, (1, 1), false, st, rep);
                            if n <= 5 || thorough {
                                do_case(&kvs, Front::RawInsert, (1, 2), false, st, rep);
                                do_case(&kvs, Front::RawInsert, (2, 2), false, st, rep);
                            }
                        }
                    }
                },
            ));
        }
    }
    // (d) fan-out families
    let fanouts: Vec<usize> =
        if thorough { (0..=256).collect() } else { FANOUTS_QUICK.to_vec() };
    for n in fanouts {
        p.units.push(unit("fanout-families", format!("fanout {}", n), move |st, rep| {
            for (name, keys) in fanout_family(n) {
                for pat in [Pat::Zero, Pat::Lin3, Pat::MaxMinus, Pat::Boundary(3)] {
                    let kvs = pat.apply(&keys);
                    st.nontrivial += (kvs.len() >= 2) as u64;
                    st.count("fanout_cases", 1);
                    if n == 33 {
                        st.sample(|| json!({"family": name, "pattern": pat.name(), "nkeys": kvs.len()}));
                    }
                    do_case(&kvs, Front::RawInsert, (2, 2), true, st, rep);
                    do_case(&kvs, Front::RawInsert, DEFAULT_GEOM, false, st, rep);
                    do_case(&kvs, Front::MapInsert, DEFAULT_GEOM, false, st, rep);
                    do_case(&kvs, Front::SetInsert, DEFAULT_GEOM, false, st, rep);
                }
            }
        }));
    }
    // (d2) label family: every byte as the label of a single-transition node
    for part in 0..8usize {
        p.units.push(unit("label-family-all-256-bytes", format!("labels part {}", part), move |st, rep| {
            for (i, (_, kvs)) in label_family().into_iter().enumerate() {
                if i % 8 != part {
                    continue;
                }
                st.nontrivial += (kvs.len() >= 2) as u64;
                st.count("label_cases", 1);
                do_case(&kvs, Front::RawInsert, (2, 2), true, st, rep);
                do_case(&kvs, Front::MapInsert, DEFAULT_GEOM, false, st, rep);
            }
        }));
    }
    // (d3) far-target family
    p.units.push(unit("far-target-family", "far targets".into(), move |st, rep| {
        for (_, kvs) in far_family() {
            st.nontrivial += 1;
            do_case(&kvs, Front::RawInsert, DEFAULT_GEOM, true, st, rep);
            do_case(&kvs, Front::MapInsert, DEFAULT_GEOM, false, st, rep);
        }
    }));
    // (d4) long keys
    p.units.push(unit("long-key-family", "long keys".into(), move |st, rep| {
        for (_, kvs) in long_key_family() {
            st.nontrivial += 1;
            st.count("long_key_cases", 1);
            do_case(&kvs, Front::RawInsert, (2, 2), true, st, rep);
            do_case(&kvs, Front::SetInsert, DEFAULT_GEOM, false, st, rep);
            do_case(&kvs, Front::MapExtendStreamMap, DEFAULT_GEOM, false, st, rep);
        }
    }));
    // (d4a) twin family: the same wide node compiled again, under every tiny cache geometry
    p.units.push(unit("twin-wide-nodes-under-tiny-caches", "twins".into(), move |st, rep| {
        for (_, kvs) in twin_family() {
            st.nontrivial += 1;
            st.count("twin_cases", 1);
            for g in GEOMS {
                do_case(&kvs, Front::RawInsert, g, false, st, rep);
            }
            do_case(&kvs, Front::MapInsert, DEFAULT_GEOM, false, st, rep);
        }
    }));
    // (d4c) address deltas exactly at the 1/2/3/4-byte boundaries
    for k in [8u32, 16, 24] {
        for off in [-1i64, 0, 1] {
            let target = ((1i64 << k) + off) as usize;
            p.units.push(unit("root-delta-exactly-at-2^8-2^16-2^24-(calibrated-family)", format!("delta {}", target), move |st, rep| {
                match delta_boundary_kvs_x(target) {
                    Ok((kvs, exact)) => {
                        st.nontrivial += 1;
                        st.count("calibrated_delta_cases", 1);
                        st.count("calibrated_delta_cases_exactly_on_target", exact as u64);
                        do_case(&kvs, Front::RawInsert, DEFAULT_GEOM, false, st, rep);
                        // lookups through the calibrated transition
                        let bytes = match front::build(Front::RawInsert, DEFAULT_GEOM, &kvs) { Ok(b) => b, Err(_) => return };
                        let f = match Fst::new(&bytes[..]) { Ok(f) => f, Err(_) => return };
                        if f.get(b"ax").map(|o| o.value()) != Some(3) || f.get(b"a").is_some() || f.get(&kvs.last().unwrap().0).map(|o| o.value()) != Some(1) {
                            rep.violation(format!("delta {}", target), format!("get(ax) = {:?}, get(a) = {:?} on a map whose root reaches 'a' by an address delta of exactly {}", f.get(b"ax").map(|o| o.value()), f.get(b"a").map(|o| o.value()), target), json!({"delta_target": target}));
                        }
                    }
                    Err(msg) => {
                        // the calibration measures builder outputs with the independent decoder; if
                        // that fails the builder's FORMAT is off (C09 reports it) - nothing to read back
                        let _ = msg;
                        st.count("calibrations_abandoned_because_the_decoder_rejected_a_build", 1);
                    }
                }
            }));
        }
    }
    // (d4b) key-length ladder: every length 2..1100 and around 2^11..2^16
    for part in 0..16usize {
        p.units.push(unit("key-length-ladder-(finite-family)", format!("length ladder part {}", part), move |st, rep| {
            for (name, kvs) in key_length_ladder(part, 16) {
                st.nontrivial += 1;
                st.count("length_ladder_cases", 1);
                let short = kvs.iter().map(|x| x.0.len()).max().unwrap() < 300;
                if name.ends_with("set") {
                    do_case(&kvs, Front::SetInsert, (2, 2), short, st, rep);
                    do_case(&kvs, Front::RawAdd, DEFAULT_GEOM, false, st, rep);
                } else {
                    do_case(&kvs, Front::RawInsert, (2, 2), short, st, rep);
                    do_case(&kvs, Front::MapExtendStreamMap, DEFAULT_GEOM, false, st, rep);
                }
            }
        }));
    }
    // (d5) mixed mid-size family (finite family, not an enumeration)
    {
        let total = if thorough { 1260 } else { 168 };
        for part in 0..16usize {
            p.units.push(unit("mixed-mid-size-family-(finite-family)", format!("mixed part {}", part), move |st, rep| {
                for (i, (_, kvs)) in mixed_family(total).into_iter().enumerate() {
                    if i % 16 != part { continue; }
                    st.nontrivial += 1;
                    st.count("mixed_cases", 1);
                    do_case(&kvs, Front::RawInsert, DEFAULT_GEOM, true, st, rep);
                    do_case(&kvs, Front::RawInsert, (3, 3), false, st, rep);
                    do_case(&kvs, Front::MapExtendStreamUnion, DEFAULT_GEOM, false, st, rep);
                    do_case(&kvs, Front::SetFromIter, DEFAULT_GEOM, false, st, rep);
                }
            }));
        }
    }
    // (d6) fan-out x output-width grid (all 257 fan-outs x 9 widths x final x child kind)
    for part in 0..32usize {
        p.units.push(unit("fanout-x-output-width-grid", format!("grid part {}", part), move |st, rep| {
            for (_, kvs) in fan_width_grid(part, 32) {
                st.nontrivial += (kvs.len() >= 2) as u64;
                st.count("grid_cases", 1);
                do_case(&kvs, Front::RawInsert, (3, 3), false, st, rep);
                do_case(&kvs, Front::RawInsert, DEFAULT_GEOM, false, st, rep);
            }
        }));
    }
    // (d7) a file larger than 16 MiB (4-byte address deltas) made of few large nodes
    p.units.push(unit("file-larger-than-16MiB", "big dense".into(), move |st, rep| {
        let kvs = big_dense_family();
        st.nontrivial += 1;
        st.count("big_file_cases", 1);
        do_case(&kvs, Front::RawInsert, DEFAULT_GEOM, false, st, rep);
    }));
    // (e) size families (thorough): 2-, 3- and 4-byte address deltas
    if thorough {
        for n in [3_000u64, 70_000, 1_200_000] {
            p.units.push(unit("size-families", format!("size family {}", n), move |st, rep| {
                let kvs: Vec<Kv> = (0..n)
                    .map(|i| (format!("{:08}", i).into_bytes(), i.wrapping_mul(0x9E37_79B9_7F4A_7C15) >> 8))
                    .collect();
                st.nontrivial += 1;
                do_case(&kvs, Front::RawInsert, DEFAULT_GEOM, false, st, rep);
                do_case(&kvs, Front::MapInsert, DEFAULT_GEOM, false, st, rep);
                do_case(&kvs, Front::RawInsert, (3, 3), false, st, rep);
            }));
        }
    }
    p.extra.insert("universes".into(), json!(["U_ab3 (15 keys, 32768 subsets)", "U_abc2 (13 keys)", "U_raw2 (13 keys, bytes 00 7f ff)"]));
    p.extra.insert("geometries".into(), json!(GEOMS.iter().map(|g| format!("{}x{}", g.0, g.1)).collect::<Vec<_>>()));
    // many builders on one thread (anything parked per thread between builds must not leak into a later file)
    p.units.push(unit("many-builds-on-one-thread-(finite-family)", "many builds".into(), move |st, rep| {
        fn judge(kvs: &[Kv], bytes: &[u8]) -> Result<(), String> {
            guard(|| check_readback(bytes, kvs, false)).and_then(|x| x)
        }
        st.states += 65_550;
        match super::c15::run_many_builds_judged(false, Some(judge)) {
            Ok(c) => { st.evals += c; st.count("rebuilds_read_back_after_many_builds", c); }
            Err(msg) => rep.violation("many builds".into(), msg, json!({"many_builds": true})),
        }
    }));
    p.must_be_nonzero = vec!["fanout_cases".into()];
    p.rule.push_str(super::seqread::RULE);
    super::seqread::add_units(&mut p, super::seqread::Class::Meta, if tier.thorough() { 5 } else { 4 });
    p
}
