//! C10 - readers accept every supported format version and previously
//! written files. Models are encoded by an independent reference encoder in
//! versions 1, 2, 3; the real reader must answer every query from them.

use std::borrow::Cow;
use std::sync::Arc;

use fst::raw::{self, Fst};
use fst::{IntoStreamer, Map, Set, Streamer};
use serde_json::{json, Value};

use super::c03::{apply_bounds, drain, expected as range_expected, HIS, LOS};
use super::util::*;
use crate::codec::{self, EncodeOpts, Layout};
use crate::dfa::{all_dfas, ClassFn, TableDfa};
use crate::ev::{guard, hex, unit, verif_dir, Plan, Reporter, Stats, Tier};
use crate::front::{self, Front};
use crate::model::*;

fn err_kind<T>(r: &fst::Result<T>) -> &'static str {
    match r {
        Ok(_) => "Ok",
        Err(fst::Error::Fst(raw::Error::Version { .. })) => "Version",
        Err(fst::Error::Fst(raw::Error::Format { .. })) => "Format",
        Err(fst::Error::Fst(raw::Error::ChecksumMissing)) => "ChecksumMissing",
        Err(fst::Error::Fst(raw::Error::ChecksumMismatch { .. })) => "ChecksumMismatch",
        Err(_) => "Other",
    }
}

/// Every query API on an opened FST against the model.
fn exercise<D: AsRef<[u8]>>(f: &Fst<D>, kvs: &[Kv], version: u64, auts: &[TableDfa], deep: bool) -> Result<u64, String> {
    let mut n = 0u64;
    let got = f.stream().into_byte_vec();
    n += 1;
    if got != kvs {
        return Err(format!("stream gave {} expected {}", kvs_str(&got), kvs_str(kvs)));
    }
    if f.len() != kvs.len() || f.is_empty() != kvs.is_empty() {
        return Err(format!("len() = {}", f.len()));
    }
    // by hand through the public node API
    if deep {
        let walked = walk_nodes(f, kvs.len() + 10)?;
        n += 1;
        if walked != kvs {
            return Err(format!("walking root()/node()/transitions() gave {} expected {}", kvs_str(&walked), kvs_str(kvs)));
        }
    }
    let want_verify = if version >= 3 { "Ok" } else { "ChecksumMissing" };
    let v = f.verify();
    if err_kind(&v) != want_verify {
        return Err(format!("verify() gave {} expected {}", err_kind(&v), want_verify));
    }
    let model = model_of(kvs);
    let keys: Vec<Key> = kvs.iter().map(|x| x.0.clone()).collect();
    let ext: Vec<u8> = if deep { vec![0x00, b'a', b'b', b'c', 0xff] } else { vec![b'a', 0xff] };
    for p in probe_closure(&keys, &ext) {
        n += 1;
        let want = model.get(&p).copied();
        if f.get(&p).map(|o| o.value()) != want || f.contains_key(&p) != want.is_some() {
            return Err(format!("get/contains_key({}) disagrees with the model ({:?})", key_str(&p), want));
        }
    }
    if keys.len() > 64 {
        // fan-out families: every byte under the root / under 'p'
        for b in 0..=255u8 {
            for p in [vec![b], vec![b'p', b]] {
                n += 1;
                let want = model.get(&p).copied();
                if f.get(&p).map(|o| o.value()) != want {
                    return Err(format!("get({}) disagrees with the model ({:?})", key_str(&p), want));
                }
            }
        }
    }
    let bks: Vec<Key> = if deep {
        strings_over(&[b'`', b'a', b'b', b'c'], 1).into_iter().chain(keys.iter().take(6).cloned()).collect()
    } else {
        vec![b"a".to_vec(), b"ab".to_vec()]
    };
    let empty: Vec<u8> = vec![];
    for lo in LOS {
        let loks: &[Key] = if lo == Lo::None { std::slice::from_ref(&empty) } else { &bks };
        for lok in loks {
            for hi in HIS {
                let hiks: &[Key] = if hi == Hi::None { std::slice::from_ref(&empty) } else { &bks };
                for hik in hiks {
                    n += 1;
                    let got = drain(apply_bounds(f.range(), lo, lok, hi, hik).into_stream())?;
                    if got != range_expected(kvs, lo, lok, hi, hik) {
                        return Err(format!("range {:?}({}) {:?}({}) gave {}", lo, key_str(lok), hi, key_str(hik), kvs_str(&got)));
                    }
                }
            }
        }
    }
    for a in auts {
        n += 1;
        for bk in [&b"a"[..], b"ab", b"b", b"ba", b"c"] {
            let got = drain(f.search(a).ge(bk).into_stream())?;
            let want: Vec<Kv> = kvs.iter().filter(|(k, _)| a.accepts(k) && k.as_slice() >= bk).cloned().collect();
            if got != want {
                return Err(format!("search {} ge({}) gave {} expected {}", a.describe(), key_str(bk), kvs_str(&got), kvs_str(&want)));
            }
            let got = drain(f.search(a).gt(bk).into_stream())?;
            let want: Vec<Kv> = kvs.iter().filter(|(k, _)| a.accepts(k) && k.as_slice() > bk).cloned().collect();
            if got != want {
                return Err(format!("search {} gt({}) gave {} expected {}", a.describe(), key_str(bk), kvs_str(&got), kvs_str(&want)));
            }
        }
    }
    // set operations against a v3 FST of the even-indexed keys built by the real builder
    let (evens, _) = front::partition(kvs);
    let other = Fst::new(front::build(Front::RawInsert, (3, 3), &evens)?).map_err(|e| format!("{:?}", e))?;
    let mut u = f.op().add(&other).union();
    let mut i = 0;
    while let Some((k, ivs)) = u.next() {
        if i >= kvs.len() || k != &kvs[i].0[..] || ivs.len() != 1 + (i % 2 == 0) as usize {
            return Err(format!("union with a sub-FST: item {} is {} with {} values", i, key_str(k), ivs.len()));
        }
        i += 1;
    }
    if i != kvs.len() {
        return Err("union with a sub-FST ended early".into());
    }
    let mut x = f.op().add(&other).intersection();
    let mut j = 0;
    while let Some((k, _)) = x.next() {
        if j >= evens.len() || k != &evens[j].0[..] {
            return Err("intersection with a sub-FST differs".into());
        }
        j += 1;
    }
    if j != evens.len() || !f.is_superset(&other) || f.is_disjoint(&other) != evens.is_empty() {
        return Err("intersection/is_superset/is_disjoint with a sub-FST differ".into());
    }
    n += 4;
    Ok(n)
}

struct ArcBytes(Arc<[u8]>);
impl AsRef<[u8]> for ArcBytes {
    fn as_ref(&self) -> &[u8] {
        &self.0
    }
}

/// Opens `bytes` from every container type and exercises each.
fn all_containers(bytes: &[u8], kvs: &[Kv], version: u64, auts: &[TableDfa], mmap: bool) -> Result<u64, String> {
    guard(|| {
        let mut n = 0;
        let e = |e: fst::Error| format!("open failed: {:?}", e);
        n += exercise(&Fst::new(bytes.to_vec()).map_err(e)?, kvs, version, auts, true)?;
        n += exercise(&Fst::new(bytes).map_err(e)?, kvs, version, auts, false)?;
        n += exercise(&Fst::new(Cow::Borrowed(bytes)).map_err(e)?, kvs, version, auts, false)?;
        n += exercise(&Fst::new(Cow::<[u8]>::Owned(bytes.to_vec())).map_err(e)?, kvs, version, auts, false)?;
        n += exercise(&Fst::new(bytes.to_vec().into_boxed_slice()).map_err(e)?, kvs, version, auts, false)?;
        n += exercise(&Fst::new(ArcBytes(Arc::from(bytes))).map_err(e)?, kvs, version, auts, false)?;
        // map_data re-validates
        let f = Fst::new(bytes.to_vec()).map_err(e)?;
        let g = f.map_data(|v| v.into_boxed_slice()).map_err(e)?;
        n += exercise(&g, kvs, version, auts, false)?;
        // map_data that hands an existing reader DIFFERENT bytes: same as opening them
        let small = Fst::new(crate::codec::encode(&[(b"zz".to_vec(), 1), (b"zzz".to_vec(), 2)], &opts(3, Layout::Shared, false))).map_err(e)?;
        n += exercise(&small.map_data(|_| bytes.to_vec()).map_err(e)?, kvs, version, auts, false)?;
        let m0: Map<Vec<u8>> = Map::default();
        n += exercise(m0.map_data(|_| bytes).map_err(e)?.as_fst(), kvs, version, auts, false)?;
        let s0: Set<Vec<u8>> = Set::default();
        n += exercise(s0.map_data(|_| Cow::Borrowed(bytes)).map_err(e)?.as_fst(), kvs, version, auts, false)?;
        if Fst::new(bytes.to_vec()).map_err(e)?.map_data(|mut v| { v.truncate(9); v }).is_ok() {
            return Err("map_data to 9 bytes of the file returned Ok".into());
        }
        // clone_from into readers that held other files (of the same and of other versions)
        for ov in [version % 3 + 1] {
            let other = crate::codec::encode(&[(b"zz".to_vec(), 1), (b"zzz".to_vec(), 2)], &opts(ov, Layout::Shared, false));
            let mut slot = Fst::new(other.clone()).map_err(e)?;
            slot.clone_from(&Fst::new(bytes.to_vec()).map_err(e)?);
            n += exercise(&slot, kvs, version, auts, false)?;
            let mut slots = vec![Fst::new(other.clone()).map_err(e)?, Fst::new(other).map_err(e)?];
            slots.clone_from(&vec![Fst::new(bytes.to_vec()).map_err(e)?]);
            n += exercise(&slots[0], kvs, version, auts, false)?;
        }
        // clone_from into a reader of a SIBLING file: same version, same number of keys,
        // the same shape (values with their lowest bit flipped, or the last byte of the last
        // key changed) - metadata that compares equal must not be taken for the same file
        if let Some(last) = kvs.last() {
            let mut sib: Vec<Kv> = kvs.iter().map(|(k, v)| (k.clone(), if *v == 0 { 0 } else { *v ^ 1 })).collect();
            if sib == kvs && !last.0.is_empty() && *last.0.last().unwrap() < 255 {
                let l = sib.len() - 1;
                *sib[l].0.last_mut().unwrap() += 1;
            }
            if sib != kvs {
                let sibling = crate::codec::encode(&sib, &opts(version, Layout::Shared, false));
                let mut slot = Fst::new(sibling).map_err(e)?;
                slot.clone_from(&Fst::new(bytes.to_vec()).map_err(e)?);
                n += exercise(&slot, kvs, version, auts, false).map_err(|m| format!("after clone_from into a reader of a sibling file of the same shape: {}", m))?;
            }
        }
        let mut ms = Map::new(other_fst_bytes().to_vec()).map_err(e)?;
        ms.clone_from(&Map::new(bytes.to_vec()).map_err(e)?);
        let mut ss = Set::new(other_fst_bytes().to_vec()).map_err(e)?;
        ss.clone_from(&Set::new(bytes.to_vec()).map_err(e)?);
        if ms.stream().into_byte_vec() != kvs || ms.len() != kvs.len() || ss.len() != kvs.len() || ss.stream().into_bytes() != kvs.iter().map(|x| x.0.clone()).collect::<Vec<_>>() {
            return Err("Map / Set clone_from into a reader of another file differs".into());
        }
        // Map / Set wrappers
        let m = Map::new(bytes).map_err(e)?;
        if m.stream().into_byte_vec() != kvs {
            return Err("Map::stream differs".into());
        }
        let s = Set::new(bytes).map_err(e)?;
        if s.stream().into_bytes() != kvs.iter().map(|x| x.0.clone()).collect::<Vec<_>>() {
            return Err("Set::stream differs".into());
        }
        let m2 = m.map_data(|b| b.to_vec()).map_err(e)?;
        if m2.len() != kvs.len() {
            return Err("Map::map_data differs".into());
        }
        if mmap {
            let path = format!("/dev/shm/fstverif-c10-{}-{:?}.fst", std::process::id(), std::thread::current().id());
            std::fs::write(&path, bytes).map_err(|e| format!("machinery: cannot write {}: {}", path, e))?;
            let file = std::fs::File::open(&path).map_err(|e| format!("machinery: {}", e))?;
            let mm = unsafe { memmap2::Mmap::map(&file) }.map_err(|e| format!("machinery: mmap: {}", e))?;
            let r = Fst::new(mm).map_err(e).and_then(|f| exercise(&f, kvs, version, auts, false));
            let _ = std::fs::remove_file(&path);
            n += r?;
        }
        Ok(n)
    })
    .and_then(|x| x)
}

/// Light variant for large families: every version, shared layout, one
/// container; stream, len, verify kind, get of every key and of its last-byte
/// neighbours, a lower-bound range at a sample of keys.
/// Wide nodes with gaps between labels (the C03/C04 gap family) written by the
/// reference encoder in versions 1, 2 and 3 and read by the real reader.
/// parts: 1 = ranges with every byte as one-/two-byte lower and upper bound,
/// 2 = the same bounds through search / search_with_state (AlwaysMatch and a
/// Subsequence), 4 = get_key for every value of the map re-valued
/// monotonically.
pub fn run_gaps_versions(n: usize, variant: usize, depth: usize, parts: u8) -> Result<u64, String> {
    use fst::automaton::{AlwaysMatch, Subsequence};
    use fst::{IntoStreamer, Streamer};
    let base = super::c04::gap_kvs(n, variant, depth);
    let mono: Vec<Kv> = base.iter().enumerate().map(|(i, (k, _))| (k.clone(), 2 * i as u64 + 1)).collect();
    let mut cnt = 0u64;
    for version in [1u64, 2, 3] {
        for kvs in [&base, &mono] {
            if std::ptr::eq(kvs, &mono) && parts & 4 == 0 {
                continue;
            }
            let bytes = codec::encode(kvs, &opts(version, Layout::Shared, false));
            let r = guard(|| {
                let f = Fst::new(&bytes[..]).map_err(|e| format!("open failed: {:?}", e))?;
                let mut c = 0u64;
                let collect = |mut s: fst::raw::Stream<'_, _>| -> Vec<Kv> {
                    let mut v = vec![];
                    while let Some((k, o)) = s.next() {
                        v.push((k.to_vec(), o.value()));
                        if v.len() > 100_000 {
                            break;
                        }
                    }
                    v
                };
                if std::ptr::eq(kvs, &mono) {
                    for v in 0..=(2 * kvs.len() as u64 + 2) {
                        c += 1;
                        let want = kvs.iter().find(|x| x.1 == v).map(|x| x.0.clone());
                        if f.get_key(v) != want {
                            return Err(format!("get_key({}) = {:?}, expected {:?}", v, f.get_key(v).map(|k| key_str(&k)), want.map(|k| key_str(&k))));
                        }
                    }
                    return Ok(c);
                }
                for b in 0..=255u8 {
                    let bound: Vec<u8> = if depth == 1 { vec![b'p', b] } else { vec![b] };
                    let bound2: Vec<u8> = bound.iter().cloned().chain([b'x']).collect();
                    for bk in [&bound, &bound2] {
                        for (kind, keep) in [
                            ("ge", Box::new(|k: &[u8]| k >= &bk[..]) as Box<dyn Fn(&[u8]) -> bool>),
                            ("gt", Box::new(|k: &[u8]| k > &bk[..])),
                            ("le", Box::new(|k: &[u8]| k <= &bk[..])),
                            ("lt", Box::new(|k: &[u8]| k < &bk[..])),
                        ] {
                            let want: Vec<Kv> = kvs.iter().filter(|x| keep(&x.0)).cloned().collect();
                            if parts & 1 != 0 {
                                let rb = f.range();
                                let rb = match kind { "ge" => rb.ge(bk), "gt" => rb.gt(bk), "le" => rb.le(bk), _ => rb.lt(bk) };
                                c += 1;
                                let got = collect(rb.into_stream());
                                if got != want {
                                    return Err(format!("range().{}({}) gave {} items, expected {}", kind, key_str(bk), got.len(), want.len()));
                                }
                            }
                            if parts & 2 != 0 {
                                let sb = f.search(AlwaysMatch);
                                let sb = match kind { "ge" => sb.ge(bk), "gt" => sb.gt(bk), "le" => sb.le(bk), _ => sb.lt(bk) };
                                c += 1;
                                let got = collect(sb.into_stream());
                                if got != want {
                                    return Err(format!("search(AlwaysMatch).{}({}) gave {} items, expected {}", kind, key_str(bk), got.len(), want.len()));
                                }
                                let wantx: Vec<Kv> = want.iter().filter(|x| x.0.contains(&b'x')).cloned().collect();
                                let sub = Subsequence::new("x");
                                let wb = f.search_with_state(&sub);
                                let wb = match kind { "ge" => wb.ge(bk), "gt" => wb.gt(bk), "le" => wb.le(bk), _ => wb.lt(bk) };
                                let mut ws = wb.into_stream();
                                let mut gotx: Vec<Kv> = vec![];
                                while let Some((k, o, _)) = ws.next() {
                                    gotx.push((k.to_vec(), o.value()));
                                }
                                c += 1;
                                if gotx != wantx {
                                    return Err(format!("search_with_state(Subsequence(x)).{}({}) gave {} items, expected {}", kind, key_str(bk), gotx.len(), wantx.len()));
                                }
                            }
                        }
                    }
                }
                Ok(c)
            })
            .and_then(|x| x)
            .map_err(|e| format!("version-{} file with a node of {} spread labels (layout {}, depth {}): {}", version, n, variant, depth, e))?;
            cnt += r;
        }
    }
    Ok(cnt)
}

fn ladder_kvs(l: usize) -> Vec<Kv> {
    vec![(vec![b'a'; l], 77), (b"b".to_vec(), 3), (b"bc".to_vec(), 1 << 40)]
}

pub fn run_model_light(kvs: &[Kv], st: &mut Stats) -> Result<u64, String> {
    let mut n = 0u64;
    for version in [1u64, 2, 3] {
        let bytes = codec::encode(kvs, &opts(version, Layout::Shared, false));
        let r = guard(|| {
            let f = Fst::new(&bytes[..]).map_err(|e| format!("open failed: {:?}", e))?;
            let mut cnt = 0u64;
            let mut s = f.stream();
            let mut i = 0usize;
            while let Some((k, v)) = s.next() {
                if i >= kvs.len() || k != &kvs[i].0[..] || v.value() != kvs[i].1 {
                    return Err(format!("stream item {} is {}={} but the model has {:?}", i, key_str(k), v.value(), kvs.get(i).map(|x| (key_str(&x.0), x.1))));
                }
                i += 1;
            }
            if i != kvs.len() || f.len() != kvs.len() {
                return Err(format!("stream ended after {} of {} items (len() = {})", i, kvs.len(), f.len()));
            }
            let want_verify = if version >= 3 { "Ok" } else { "ChecksumMissing" };
            if err_kind(&f.verify()) != want_verify {
                return Err(format!("verify() gave {} expected {}", err_kind(&f.verify()), want_verify));
            }
            let model = model_of(kvs);
            let step = (kvs.len() / 3000).max(1);
            for (k, v) in kvs.iter().step_by(step) {
                cnt += 3;
                if f.get(k).map(|o| o.value()) != Some(*v) {
                    return Err(format!("get({}) = {:?}, expected {}", key_str(k), f.get(k).map(|o| o.value()), v));
                }
                for d in [1u8, 255] {
                    let mut m = k.clone();
                    if let Some(l) = m.last_mut() {
                        *l = l.wrapping_add(d);
                    }
                    if f.get(&m).map(|o| o.value()) != model.get(&m).copied() {
                        return Err(format!("get({}) disagrees with the model", key_str(&m)));
                    }
                }
            }
            let rstep = (kvs.len() / 40).max(1);
            for (idx, (k, _)) in kvs.iter().enumerate().step_by(rstep) {
                cnt += 1;
                let mut b = k.clone();
                if let Some(l) = b.last_mut() {
                    *l = l.wrapping_sub(1);
                }
                let want = kvs.iter().filter(|x| x.0 >= b).count();
                let mut s = f.range().ge(&b).into_stream();
                let mut c = 0usize;
                let mut first: Option<Vec<u8>> = None;
                while let Some((kk, _)) = s.next() {
                    if first.is_none() {
                        first = Some(kk.to_vec());
                    }
                    c += 1;
                }
                if c != want {
                    return Err(format!("range ge({}) yields {} items (first {:?}), the model has {} (key index {})", key_str(&b), c, first.map(|x| key_str(&x)), want, idx));
                }
            }
            Ok(cnt)
        })
        .and_then(|x| x)
        .map_err(|e| format!("v{} shared file of {} bytes: {}", version, bytes.len(), e))?;
        n += r;
        st.count(&format!("files_v{}", version), 1);
    }
    Ok(n)
}

fn opts(version: u64, layout: Layout, any_only: bool) -> EncodeOpts {
    EncodeOpts { version, ty: 0, layout, any_trans_only: any_only }
}

/// One model through the encoder in all versions/layouts.
pub fn run_model(kvs: &[Kv], auts: &[TableDfa], mmap: bool, st: &mut Stats) -> Result<u64, String> {
    let mut n = 0;
    for version in [1u64, 2, 3] {
        for (layout, any_only) in [(Layout::Shared, false), (Layout::Trie, false), (Layout::Shared, true)] {
            let bytes = codec::encode(kvs, &opts(version, layout, any_only));
            // binding of the encoder: the independent decoder reads it back
            let d = codec::decode(&bytes).map_err(|e| format!("machinery: reference encoder output v{} {:?} rejected by the reference decoder: {}", version, layout, e))?;
            if d.enumerate()? != kvs {
                return Err(format!("machinery: reference encoder/decoder disagree on v{} {:?}", version, layout));
            }
            n += all_containers(&bytes, kvs, version, auts, mmap && layout == Layout::Shared && !any_only)
                .map_err(|e| format!("v{} {:?}{} file ({} bytes: {}): {}", version, layout, if any_only { " any-trans-only" } else { "" }, bytes.len(), if bytes.len() <= 80 { hex(&bytes) } else { "...".into() }, e))?;
            st.count(&format!("files_v{}", version), 1);
            if version == 3 && layout == Layout::Shared && !any_only {
                if let Ok(b) = front::build(Front::RawInsert, front::DEFAULT_GEOM, kvs) {
                    st.count("v3_encoder_files_compared_with_builder", 1);
                    if b == bytes {
                        st.count("v3_encoder_files_identical_to_builder", 1);
                    }
                }
            }
        }
    }
    Ok(n)
}

/// Expected outcome of Fst::new for the gate grid. None = either is accepted.
fn gate_expect(version: u64, len: usize, well_formed: bool) -> Option<&'static str> {
    let bad_version = version == 0 || version > 3;
    if len < 8 {
        return Some("Format");
    }
    if bad_version {
        // shorter than the smallest well-formed file of ANY version: either
        // error is accepted; from 32 bytes on only the version clause applies
        // (an unsupported version has no "smallest well-formed file")
        return if len < 32 { None } else { Some("Version") };
    }
    let min = if version <= 2 { 32 } else { 36 };
    if len < min {
        return Some("Format");
    }
    if well_formed {
        return Some("Ok");
    }
    None
}

/// Files of the gate grid: `well_formed` ones are real encodings.
fn gate_file(version: u64, len: usize, well_formed: bool) -> Option<Vec<u8>> {
    if well_formed {
        // the well-formed files of at most 40 bytes
        let cands: Vec<Vec<Kv>> = vec![vec![], vec![(vec![], 0)], vec![(vec![], 1)], vec![(b"a".to_vec(), 0)], vec![(b"a".to_vec(), 0), (b"b".to_vec(), 0)]];
        if version == 0 || version > 3 {
            return None;
        }
        for c in cands {
            let b = codec::encode(&c, &opts(version, Layout::Shared, false));
            if b.len() == len {
                return Some(b);
            }
        }
        None
    } else {
        let mut b = vec![0u8; len];
        for i in 0..8.min(len) {
            b[i] = (version >> (8 * i)) as u8;
        }
        Some(b)
    }
}

pub fn run_gate() -> Result<(u64, Vec<String>), String> {
    let mut n = 0;
    let mut seen = vec![];
    for version in [0u64, 1, 2, 3, 4, 255, 1 << 32, u64::MAX] {
        for len in 0..=40usize {
            for wf in [false, true] {
                let bytes = match gate_file(version, len, wf) { Some(b) => b, None => continue };
                n += 1;
                let r = guard(|| Fst::new(&bytes[..]).map(|_| ())).map_err(|p| format!("version {} length {}: {}", version, len, p))?;
                let got = err_kind(&r);
                if wf {
                    seen.push(format!("v{} len {} -> {}", version, len, got));
                }
                if let Some(want) = gate_expect(version, len, wf) {
                    if got != want {
                        return Err(format!("Fst::new on a {} file with version field {} and length {} gave {}, expected {} ({})", if wf { "well-formed" } else { "zero-filled" }, version, len, got, want, hex(&bytes)));
                    }
                } else if got != "Version" && got != "Format" && !(got == "Ok" && !(version == 0 || version > 3)) {
                    return Err(format!("Fst::new with version field {} and length {} gave {}", version, len, got));
                }
                // the wrappers apply the same gate
                let rm = Map::new(&bytes[..]).map(|_| ());
                let rs = Set::new(&bytes[..]).map(|_| ());
                if err_kind(&rm) != got || err_kind(&rs) != got {
                    return Err(format!("Map::new/Set::new disagree with Fst::new for version {} length {}", version, len));
                }
            }
        }
    }
    Ok((n, seen))
}

fn golden_models() -> Vec<(String, Vec<Kv>)> {
    let mut v: Vec<(String, Vec<Kv>)> = vec![];
    let u = u_ab3();
    for (i, mask) in [0u64, 1, 2, 3, 0b101, 0b1111, 0x7fff, 0x1234, 0x00ff, 0x7f00, 0x5555, 0x2aaa, 0x0421].iter().enumerate() {
        for pat in [Pat::Zero, Pat::Lin3, Pat::Boundary(i)] {
            v.push((format!("ab3-{:04x}-{}", mask, pat.name().replace(['(', ')'], "")), pat.apply(&select(&u.keys, *mask))));
        }
    }
    for n in [33usize, 256] {
        let (name, keys) = fanout_family(n).swap_remove(0);
        v.push((name, Pat::Lin3.apply(&keys)));
    }
    v
}

pub fn regen_golden() {
    let dir = format!("{}/golden", verif_dir());
    std::fs::create_dir_all(&dir).unwrap();
    let mut index = vec![];
    for (name, kvs) in golden_models() {
        for version in [1u64, 2] {
            let b = codec::encode(&kvs, &opts(version, Layout::Shared, false));
            std::fs::write(format!("{}/{}.v{}.fst", dir, name, version), &b).unwrap();
        }
        let b = front::build(Front::RawInsert, front::DEFAULT_GEOM, &kvs).unwrap();
        std::fs::write(format!("{}/{}.v3.fst", dir, name), &b).unwrap();
        index.push(json!({"name": name, "kvs": kvs_json(&kvs)}));
    }
    std::fs::write(format!("{}/index.json", dir), serde_json::to_string_pretty(&json!({"comment": "v1/v2: reference encoder; v3: real builder at the pinned revision", "models": index})).unwrap()).unwrap();
    println!("golden files written to {}", dir);
}

fn run_golden(auts: &[TableDfa]) -> Result<u64, String> {
    let dir = format!("{}/golden", verif_dir());
    let idx: Value = serde_json::from_str(&std::fs::read_to_string(format!("{}/index.json", dir)).map_err(|e| format!("machinery: golden index: {}", e))?).map_err(|e| format!("machinery: {}", e))?;
    let mut n = 0;
    for m in idx["models"].as_array().unwrap() {
        let name = m["name"].as_str().unwrap();
        let kvs = kvs_from(&m["kvs"]);
        for version in [1u64, 2, 3] {
            let bytes = std::fs::read(format!("{}/{}.v{}.fst", dir, name, version)).map_err(|e| format!("machinery: golden file: {}", e))?;
            n += all_containers(&bytes, &kvs, version, auts, version == 1).map_err(|e| format!("golden file {}.v{}.fst: {}", name, version, e))?;
            if version <= 2 {
                let now = codec::encode(&kvs, &opts(version, Layout::Shared, false));
                if now != bytes {
                    return Err(format!("machinery: the reference encoder no longer reproduces golden file {}.v{}.fst", name, version));
                }
            }
        }
    }
    Ok(n)
}

pub fn replay(case: &Value) -> Result<String, String> {
    if let Some(r) = super::seqread::replay(case) {
        return r;
    }
    let auts = sample_auts();
    match case["kind"].as_str().unwrap() {
        "model" => {
            let kvs = kvs_from(&case["kvs"]);
            let mut st = Stats::default();
            run_model(&kvs, &auts, true, &mut st).map(|n| format!("{} queries agree", n))
        }
        "light" => {
            let mut st = Stats::default();
            run_model_light(&kvs_from(&case["kvs"]), &mut st).map(|n| format!("{} queries agree", n))
        }
        "gapsv" => run_gaps_versions(case["n"].as_u64().unwrap() as usize, case["variant"].as_u64().unwrap() as usize, case["depth"].as_u64().unwrap() as usize, 7).map(|n| format!("{} queries agree", n)),
        "light-ladder" => {
            let mut st = Stats::default();
            let l = case["len"].as_u64().unwrap() as usize;
            std::thread::Builder::new().stack_size(1 << 31).spawn(move || run_model_light(&ladder_kvs(l), &mut st).map(|n| format!("{} queries agree", n))).unwrap().join().unwrap()
        }
        "light-big" => {
            let mut st = Stats::default();
            run_model_light(&big_dense_family(), &mut st).map(|n| format!("{} queries agree", n))
        }
        "gate" => run_gate().map(|(n, _)| format!("{} gate cases as expected", n)),
        _ => run_golden(&auts).map(|n| format!("{} golden queries agree", n)),
    }
}

fn sample_auts() -> Vec<TableDfa> {
    let all = all_dfas(2, ClassFn::IsA, false);
    let mut v: Vec<TableDfa> = all.into_iter().step_by(11).collect();
    // two automata with a dead state that reports can_match == false: one dies on the
    // class 'a', one on every other byte (a lower bound can lead into the dead state)
    v.push(TableDfa { classes: ClassFn::IsA, delta: vec![[1, 0], [1, 1]], accept: vec![true, false], can: vec![true, false], always: vec![false, false] });
    v.push(TableDfa { classes: ClassFn::IsA, delta: vec![[0, 1], [1, 1]], accept: vec![true, false], can: vec![true, false], always: vec![false, false] });
    v
}

fn do_model(kvs: &[Kv], auts: &[TableDfa], mmap: bool, st: &mut Stats, rep: &Reporter) {
    st.states += 9;
    match run_model(kvs, auts, mmap, st) {
        Ok(n) => {
            st.evals += n;
            st.transitions += n;
        }
        Err(msg) => rep.violation(format!("model {}", if kvs.len() < 10 { kvs_str(kvs) } else { format!("{} keys from {}", kvs.len(), key_str(&kvs[0].0)) }), msg, json!({"kind": "model", "kvs": kvs_json(kvs)})),
    }
}

pub fn plan(tier: Tier) -> Plan {
    let mut p = Plan::new("C10", "model_checking");
    let thorough = tier.thorough();
    p.rule = "every model of U_ab3 (quick: <= 4 keys and every 7th larger subset; thorough: all) x patterns {0, 3i+1, boundary values} and the fan-out families (where version 1 has no index above 32 transitions) is encoded by an independent reference encoder in versions 1, 2, 3 x layouts {suffix-shared, trie, shared with multi-transition node form only}; each file is opened from Vec, &[u8], Cow (both), Box<[u8]>, Arc<[u8]> newtype, memmap2::Mmap, through map_data (also from readers of other files) and clone_from into readers of other files and versions and of sibling files of the same version and shape, and node-by-node walk through the public node API/stream/len/get/contains_key (probe closure)/range (all kind pairs)/search (sampled 2-state DFAs)/union/intersection/is_superset/is_disjoint/verify are compared with the model (verify: ChecksumMissing for v1-2, Ok for v3); golden files committed under /verif/golden; gate grid: version field in {0,1,2,3,4,255,2^32,u64::MAX} x total length 0..40 x {zero-filled, well-formed}; 110 file lengths around each of 2^12..2^17 (quick: 2^12 and 2^16) in all three versions (stream, verify, get). non-trivial = encoded files with >= 2 keys; the gap family (fan-outs 2..256, five label layouts) in all three versions: every byte as bound of range / search / search_with_state, and get_key on the monotone re-valuation".into();
    p.assumptions = vec![
        "no earlier fst release is available offline: 'as emitted by earlier builders' is represented by the documented layout differences (v1: no transition index; v1-2: no checksum) produced by the reference encoder".into(),
        "the reference encoder is bound to the code three ways: its v3 output is read by the real reader and passes the real verify(), every output is read back by the independent decoder, and the decoder reads the real builder's output (C09)".into(),
        "where both a Version and a Format error are defensible (bad version field in a file shorter than 36 bytes) either is accepted".into(),
    ];
    let auts = Arc::new(sample_auts());
    {
        let u = u_ab3();
        let mut masks = vec![];
        for_each_mask_upto(u.keys.len(), 15, &mut |m| masks.push(m));
        let masks: Vec<u64> = masks.into_iter().filter(|m| thorough || m.count_ones() <= 4 || m % 7 == 0).collect();
        let chunk = (masks.len() + 127) / 128;
        for part in masks.chunks(chunk) {
            let part = part.to_vec();
            let u = u.clone();
            let auts = auts.clone();
            p.units.push(unit("U_ab3-models-v1-v2-v3", format!("{} masks from {}", part.len(), part[0]), move |st, rep| {
                for &mask in &part {
                    if rep.stopped() { return; }
                    let keys = select(&u.keys, mask);
                    for pat in [Pat::Zero, Pat::Lin3, Pat::Boundary(mask as usize % 17)] {
                        let kvs = pat.apply(&keys);
                        st.nontrivial += 9 * (kvs.len() >= 2) as u64;
                        do_model(&kvs, &auts, keys.len() <= 2, st, rep);
                    }
                    if mask % 509 == 1 {
                        st.sample(|| json!({"kvs": kvs_str(&Pat::Lin3.apply(&keys)), "v1_shared_hex": hex(&codec::encode(&Pat::Lin3.apply(&keys), &opts(1, Layout::Shared, false)))}));
                    }
                }
            }));
        }
    }
    let fanouts: Vec<usize> = if thorough { (0..=256).step_by(1).collect() } else { FANOUTS_QUICK.to_vec() };
    for n in fanouts {
        let auts = auts.clone();
        p.units.push(unit("fanout-families-v1-v2-v3", format!("fanout {}", n), move |st, rep| {
            for (name, keys) in fanout_family(n) {
                if !thorough && !(name.contains("first") || name.contains("spread-d1-e1-x1")) {
                    continue;
                }
                let kvs = Pat::Lin3.apply(&keys);
                st.nontrivial += 9 * (kvs.len() >= 2) as u64;
                st.count("fanout_models", 1);
                do_model(&kvs, &auts, n == 33, st, rep);
            }
        }));
    }
    for part in 0..8usize {
        let auts = auts.clone();
        p.units.push(unit("label-family-v1-v2-v3", format!("labels part {}", part), move |st, rep| {
            for (i, (_, kvs)) in label_family().into_iter().enumerate() {
                if i % 8 != part {
                    continue;
                }
                st.nontrivial += 9 * (kvs.len() >= 2) as u64;
                do_model(&kvs, &auts, false, st, rep);
            }
        }));
    }
    {
        let total = if thorough { 420 } else { 84 };
        for part in 0..16usize {
            let auts = auts.clone();
            p.units.push(unit("mixed-mid-size-family-v1-v2-v3-(finite-family)", format!("mixed part {}", part), move |st, rep| {
                for (i, (_, kvs)) in mixed_family(total).into_iter().enumerate() {
                    if i % 16 != part || kvs.len() > 450 { continue; }
                    st.nontrivial += 9;
                    do_model(&kvs, &auts, false, st, rep);
                }
            }));
        }
    }
    for part in 0..32usize {
        p.units.push(unit("fanout-x-output-width-grid-v1-v2-v3", format!("grid part {}", part), move |st, rep| {
            for (_, kvs) in fan_width_grid(part, 32) {
                st.states += 3;
                st.nontrivial += 3;
                match run_model_light(&kvs, st) {
                    Ok(n) => { st.evals += n; st.transitions += n; }
                    Err(msg) => rep.violation(format!("grid model {} keys from {}", kvs.len(), key_str(&kvs[0].0)), msg, json!({"kind": "light", "kvs": kvs_json(&kvs)})),
                }
            }
        }));
    }
    // file lengths around 2^12..2^17 (block-wise reading / checksum code): one long key + two short
    for k in 12..=17u32 {
        if !thorough && k != 12 && k != 16 {
            continue;
        }
        for part in 0..5usize {
        p.units.push(unit("file-length-ladder-around-powers-of-two-v1-v2-v3", format!("length ladder 2^{} part {}", k, part), move |st, rep| {
            // the reference encoder recurses over the key length: run on a thread with a large stack
            let centre = (1usize << k) + part * 22;
            let res: Vec<(usize, Result<u64, String>, Stats)> = std::thread::Builder::new()
                .stack_size(1 << 31)
                .spawn(move || {
                    ((centre - 90)..(centre - 68))
                        .map(|l| {
                            let mut st = Stats::default();
                            let r = run_model_light(&ladder_kvs(l), &mut st);
                            (l, r, st)
                        })
                        .collect()
                })
                .unwrap()
                .join()
                .unwrap();
            for (l, r, sub) in res {
                st.states += 3;
                st.nontrivial += 3;
                for (k, v) in &sub.counters {
                    st.count(k, *v);
                }
                match r {
                    Ok(n) => { st.evals += n; st.count("length_ladder_files", 3); }
                    Err(msg) => rep.violation(format!("length ladder key length {}", l), msg, json!({"kind": "light-ladder", "len": l})),
                }
            }
        }));
        }
    }
    for n in [2usize, 31, 32, 33, 34, 40, 64, 100, 255, 256] {
        p.units.push(unit("wide-nodes-with-gaps-in-versions-1-2-3", format!("gaps versions fan-out {}", n), move |st, rep| {
            for variant in 0..5usize {
                for depth in 0..2usize {
                    st.states += 3;
                    st.nontrivial += 3;
                    match run_gaps_versions(n, variant, depth, 7) {
                        Ok(c) => { st.evals += c; st.transitions += c; st.count("gap_version_queries", c); }
                        Err(msg) => rep.violation(format!("gaps versions fan-out {} variant {} depth {}", n, variant, depth), msg, json!({"kind": "gapsv", "gapsv": true, "n": n, "variant": variant, "depth": depth})),
                    }
                }
            }
        }));
    }
    p.units.push(unit("file-larger-than-16MiB-v1-v2-v3", "big dense".into(), move |st, rep| {
        let kvs = big_dense_family();
        st.states += 3;
        match run_model_light(&kvs, st) {
            Ok(n) => { st.evals += n; st.count("big_file_queries", n); }
            Err(msg) => rep.violation("big dense model".into(), msg, json!({"kind": "light-big"})),
        }
    }));
    {
        p.units.push(unit("version-length-gate-grid", "gate".into(), move |st, rep| {
            match run_gate() {
                Ok((n, seen)) => {
                    st.evals += n;
                    st.states += n;
                    st.count("gate_cases", n);
                    st.sample(|| json!({"well_formed_gate_files": seen}));
                }
                Err(msg) => rep.violation("gate grid".into(), msg, json!({"kind": "gate"})),
            }
        }));
        let auts = auts.clone();
        p.units.push(unit("golden-files", "golden".into(), move |st, rep| {
            match run_golden(&auts) {
                Ok(n) => {
                    st.evals += n;
                    st.states += 1;
                    st.count("golden_queries", n);
                }
                Err(msg) => rep.violation("golden files".into(), msg, json!({"kind": "golden"})),
            }
        }));
    }
    p.must_be_nonzero = vec!["gate_cases".into(), "golden_queries".into(), "files_v1".into(), "files_v2".into(), "fanout_models".into()];
    p.rule.push_str(super::seqread::RULE);
    super::seqread::add_units(&mut p, super::seqread::Class::Reopen, if tier.thorough() { 5 } else { 4 });
    p
}
