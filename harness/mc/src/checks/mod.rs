pub mod util;

pub mod c01;
