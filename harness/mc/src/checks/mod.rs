pub mod util;

pub mod c01;
pub mod c02;
pub mod c03;
pub mod c04;
pub mod c05;
pub mod c06;
pub mod c07;
pub mod c08;
pub mod c09;
pub mod c10;
pub mod c11;
pub mod c12;
pub mod c16;
pub mod c17;
pub mod c18;
pub mod c20;
