//! C02 - point lookups agree with the model for every probe (SEQ engine).

use fst::raw::Fst;
use fst::{Map, Set};
use serde_json::{json, Value};

use super::util::*;
use crate::ev::{guard, unit, Plan, Reporter, Stats, Tier};
use crate::front::{self, Front, Geom, DEFAULT_GEOM};
use crate::model::*;

const EXT: [u8; 6] = [0x00, b'a', b'b', b'c', 0x7f, 0xff];

fn probes_for(kvs: &[Kv], all_bytes: bool) -> Vec<Key> {
    let keys: Vec<Key> = kvs.iter().map(|x| x.0.clone()).collect();
    if all_bytes {
        let all: Vec<u8> = (0..=255u8).collect();
        probe_closure(&keys, &all)
    } else {
        probe_closure(&keys, &EXT)
    }
}

/// Returns the number of probes checked.
pub fn run_case(kvs: &[Kv], geom: Geom, all_bytes: bool, extra: &[Key]) -> Result<u64, String> {
    let bytes = front::build(Front::RawInsert, geom, kvs)?;
    let model = model_of(kvs);
    guard(|| {
        let f = Fst::new(&bytes[..]).map_err(|e| format!("{:?}", e))?;
        let m = Map::new(&bytes[..]).map_err(|e| format!("{:?}", e))?;
        let s = Set::new(&bytes[..]).map_err(|e| format!("{:?}", e))?;
        // a reader pointed at these bytes through map_data (from another map)
        let m3 = Map::new(other_fst_bytes()).map_err(|e| format!("{:?}", e))?.map_data(|_| &bytes[..]).map_err(|e| format!("map_data: {:?}", e))?;
        let mut n = 0;
        let probes = probes_for(kvs, all_bytes);
        for p in probes.iter().chain(extra.iter()) {
            n += 1;
            let want = model.get(p).copied();
            let got = f.get(p).map(|o| o.value());
            crate::ev::obs(crate::ev::fnv(p) ^ got.unwrap_or(u64::MAX - 1).wrapping_mul(0x9E37_79B9_7F4A_7C15));
            if got != want {
                return Err(format!("Fst::get({}) = {:?}, expected {:?}", key_str(p), got, want));
            }
            if f.contains_key(p) != want.is_some() {
                return Err(format!("Fst::contains_key({}) = {}", key_str(p), !want.is_some()));
            }
            if m.get(p) != want {
                return Err(format!("Map::get({}) = {:?}, expected {:?}", key_str(p), m.get(p), want));
            }
            if m.contains_key(p) != want.is_some() {
                return Err(format!("Map::contains_key({}) wrong", key_str(p)));
            }
            if m3.get(p) != want {
                return Err(format!("Map::get({}) = {:?} on a reader pointed at the bytes through map_data, expected {:?}", key_str(p), m3.get(p), want));
            }
            if s.contains(p) != want.is_some() {
                return Err(format!("Set::contains({}) wrong", key_str(p)));
            }
        }
        Ok(n)
    })
    .and_then(|x| x)
}

/// The same lookups on FSTs whose builder was kept in use after rejected
/// calls: the model is what the builder itself ACCEPTED (its own answers).
pub fn run_noisy(kvs: &[Kv], geom: Geom) -> Result<u64, String> {
    let clean = front::build(Front::RawInsert, geom, kvs)?;
    let is_set = kvs.iter().all(|x| x.1 == 0);
    let mut n = 0;
    for kind in 0..3u8 {
        if kind == 2 && !is_set {
            continue;
        }
      for mask in [31u8, 16] {
        let (bytes, accepted, _) = match front::noisy_build(kind, if kind == 0 { geom } else { front::DEFAULT_GEOM }, kvs, mask) {
            // the builder panicked inside a call it must reject: C06's business, nothing to look up
            Err(e) if front::is_usage_skip(&e) => continue,
            r => r?,
        };
        n += 1;
        if bytes == clean {
            continue; // identical file: the probes of run_case apply
        }
        let mut model: std::collections::BTreeMap<Key, u64> = std::collections::BTreeMap::new();
        let mut distinct = true;
        for (k, v) in &accepted {
            distinct &= model.insert(k.clone(), *v).is_none();
        }
        if !distinct {
            continue; // the builder accepted one key twice: no single value to expect
        }
        let keys: Vec<Key> = model.keys().cloned().collect();
        guard(|| {
            let f = Fst::new(&bytes[..]).map_err(|e| format!("{:?}", e))?;
            for p in probe_closure(&keys, &EXT) {
                let want = model.get(&p).copied();
                let got = f.get(&p).map(|o| o.value());
                if got != want || f.contains_key(&p) != want.is_some() {
                    return Err(format!("builder kept in use after rejected calls (kind {}): accepted {}; Fst::get({}) = {:?}, expected {:?}", kind, kvs_str(&accepted), key_str(&p), got, want));
                }
            }
            Ok(())
        })
        .and_then(|x| x)?;
      }
    }
    Ok(n)
}

/// Only the given probes plus every key (no closure): for large inputs.
pub fn run_probes(kvs: &[Kv], geom: Geom, probes: &[Key]) -> Result<u64, String> {
    let bytes = front::build(Front::RawInsert, geom, kvs)?;
    let model = model_of(kvs);
    guard(|| {
        let f = Fst::new(&bytes[..]).map_err(|e| format!("{:?}", e))?;
        let m = Map::new(&bytes[..]).map_err(|e| format!("{:?}", e))?;
        let mut n = 0;
        let step = (kvs.len() / 20_000).max(1);
        for p in probes.iter().chain(kvs.iter().step_by(step).map(|x| &x.0)) {
            n += 1;
            let want = model.get(p).copied();
            let got = f.get(p).map(|o| o.value());
            if got != want || f.contains_key(p) != want.is_some() || m.get(p) != want {
                return Err(format!("get/contains_key({}) = {:?}, expected {:?}", key_str(p), got, want));
            }
        }
        Ok(n)
    })
    .and_then(|x| x)
}

fn do_probes(kvs: &[Kv], geom: Geom, probes: &[Key], st: &mut Stats, rep: &Reporter) {
    st.states += 1;
    match run_probes(kvs, geom, probes) {
        Ok(n) => {
            st.evals += n;
            st.transitions += 3 * n;
        }
        Err(msg) => {
            let case = if kvs.len() > 5000 { json!({"big_dense": true, "geom": [geom.0, geom.1], "probes": keys_json(probes)}) } else { json!({"kvs": kvs_json(kvs), "geom": [geom.0, geom.1], "probes": keys_json(probes)}) };
            rep.violation(format!("{} keys from {} {:?}", kvs.len(), key_str(&kvs[0].0), geom), msg, case)
        }
    }
}

pub fn replay(case: &Value) -> Result<String, String> {
    if let Some(r) = super::seqread::replay(case) {
        return r;
    }
    if !case["probes"].is_null() {
        let kvs = if case["big_dense"].as_bool() == Some(true) { big_dense_family() } else { kvs_from(&case["kvs"]) };
        return run_probes(&kvs, geom_from(&case["geom"]), &keys_from(&case["probes"])).map(|n| format!("{} probes agree", n));
    }
    let kvs = kvs_from(&case["kvs"]);
    let geom = geom_from(&case["geom"]);
    if case["noisy"].as_bool() == Some(true) {
        return run_noisy(&kvs, geom).map(|n| format!("{} noisy builds agree", n));
    }
    let all = case["all_bytes"].as_bool().unwrap_or(false);
    let extra = keys_from(&case["extra"]);
    run_case(&kvs, geom, all, &extra).map(|n| format!("{} probes agree", n))
}

fn do_case(kvs: &[Kv], geom: Geom, all: bool, extra: &[Key], st: &mut Stats, rep: &Reporter) {
    if kvs.len() <= 5 && kvs.iter().all(|x| x.0.len() <= 64) {
        match run_noisy(kvs, geom) {
            Ok(n) => st.count("builders_kept_in_use_after_rejected_calls", n),
            Err(msg) => rep.violation(format!("noisy {} {:?}", kvs_str(kvs), geom), msg, json!({"kvs": kvs_json(kvs), "geom": [geom.0, geom.1], "noisy": true})),
        }
    }
    st.states += 1;
    match run_case(kvs, geom, all, extra) {
        Ok(n) => {
            st.evals += n;
            st.transitions += 5 * n;
        }
        Err(msg) => rep.violation(
            format!("{} {:?}", kvs_str(kvs), geom),
            msg,
            json!({"kvs": kvs_json(kvs), "geom": [geom.0, geom.1], "all_bytes": all, "extra": keys_json(extra)}),
        ),
    }
}

pub fn plan(tier: Tier) -> Plan {
    let mut p = Plan::new("C02", "model_checking");
    p.rule = "for every FST of the C01 scopes (all subsets of U_ab3/U_abc2/U_raw2 x value patterns, cache geometries default-like (3,3) and evict-always (1,1); fan-out families) every probe of the closure (keys, proper prefixes, one-byte extensions and single-byte substitutions by {00,a,b,c,7f,ff}; all 256 bytes for fan-out families; every universe string of length <= L+1) is looked up through Fst/Map/Set; non-trivial = FST with >= 2 keys; for key sets of <= 5 keys the same lookups on FSTs whose raw/map/set builder was kept in use after rejected calls (duplicates with other values, smaller keys, rejected bulk calls after every accepted key), the model being the calls the builder itself accepted".into();
    p.assumptions = vec!["model lookup in a BTreeMap is the specification".into()];
    let thorough = tier.thorough();
    for u in [u_ab3(), u_abc2(), u_raw2()] {
        let total = 1u64 << u.keys.len();
        // every string of the universe alphabet up to length L+1
        let alpha: Vec<u8> = match u.name {
            "U_ab3" => b"ab".to_vec(),
            "U_abc2" => b"abc".to_vec(),
            _ => vec![0x00, 0x7f, 0xff],
        };
        let maxlen = u.keys.iter().map(|k| k.len()).max().unwrap() + 1;
        let extra = strings_over(&alpha, maxlen);
        for (a, b) in ranges(total, 64) {
            let u = u.clone();
            let extra = extra.clone();
            p.units.push(unit(
                &format!("{}-subsets-probe-closure", u.name),
                format!("{} masks {}..{}", u.name, a, b),
                move |st, rep| {
                    for mask in a..b {
                        if rep.stopped() {
                            return;
                        }
                        let keys = select(&u.keys, mask);
                        if u.name == "U_abc2" && mask != 0 && keys.iter().all(|k| !k.contains(&b'c')) {
                            continue;
                        }
                        for pat in patterns_for(keys.len(), thorough) {
                            let kvs = pat.apply(&keys);
                            st.nontrivial += (kvs.len() >= 2) as u64;
                            st.sample(|| json!({"kvs": kvs_str(&kvs), "probes": probes_for(&kvs, false).len() + extra.len()}));
                            do_case(&kvs, (3, 3), false, &extra, st, rep);
                            do_case(&kvs, (1, 1), false, &extra, st, rep);
                        }
                    }
                },
            ));
        }
    }
    let fanouts: Vec<usize> = if thorough { (0..=256).collect() } else { FANOUTS_QUICK.to_vec() };
    for n in fanouts {
        p.units.push(unit("fanout-families-all-256-bytes", format!("fanout {}", n), move |st, rep| {
            for (_, keys) in fanout_family(n) {
                for pat in [Pat::Zero, Pat::Lin3, Pat::MaxMinus] {
                    let kvs = pat.apply(&keys);
                    st.nontrivial += (kvs.len() >= 2) as u64;
                    st.count("fanout_cases", 1);
                    do_case(&kvs, DEFAULT_GEOM, true, &[], st, rep);
                }
            }
        }));
    }
    // every assignment from {0,1,2} (final outputs, shared suffixes with
    // different outputs) to every subset of U_abc2 with <= 4 keys (thorough 5)
    {
        let u = u_abc2();
        let mut masks = vec![];
        for_each_mask_upto(u.keys.len(), if thorough { 5 } else { 4 }, &mut |m| masks.push(m));
        let chunk = (masks.len() + 63) / 64;
        for part in masks.chunks(chunk.max(1)) {
            let part = part.to_vec();
            let u = u.clone();
            p.units.push(unit("U_abc2-all-value-assignments-{0,1,2}", format!("abc2 assignments {} masks from {}", part.len(), part[0]), move |st, rep| {
                for &mask in &part {
                    if rep.stopped() { return; }
                    let keys = select(&u.keys, mask);
                    let n = keys.len();
                    for code in 0..3usize.pow(n as u32) {
                        let mut c = code;
                        let kvs: Vec<Kv> = keys.iter().map(|k| { let v = (c % 3) as u64; c /= 3; (k.clone(), v) }).collect();
                        st.nontrivial += (n >= 2) as u64;
                        do_case(&kvs, (1, 1), false, &[], st, rep);
                    }
                }
            }));
        }
    }
    for part in 0..8usize {
        p.units.push(unit("label-family-all-256-bytes", format!("labels part {}", part), move |st, rep| {
            for (i, (_, kvs)) in label_family().into_iter().enumerate() {
                if i % 8 != part {
                    continue;
                }
                st.nontrivial += (kvs.len() >= 2) as u64;
                st.count("label_cases", 1);
                do_case(&kvs, (2, 2), true, &[], st, rep);
            }
        }));
    }
    {
        let total = if thorough { 630 } else { 84 };
        for part in 0..16usize {
            p.units.push(unit("mixed-mid-size-family-(finite-family)", format!("mixed part {}", part), move |st, rep| {
                for (i, (_, kvs)) in mixed_family(total).into_iter().enumerate() {
                    if i % 16 != part || kvs.len() > 500 { continue; }
                    st.nontrivial += 1;
                    do_case(&kvs, DEFAULT_GEOM, false, &[], st, rep);
                }
            }));
        }
    }
    for part in 0..32usize {
        p.units.push(unit("fanout-x-output-width-grid", format!("grid part {}", part), move |st, rep| {
            // probes: every key, and every byte under the wide node and under its children
            for (_, kvs) in fan_width_grid(part, 32) {
                let mut extra: Vec<Key> = vec![b"k".to_vec(), b"r".to_vec(), b"ry".to_vec()];
                for b in 0..=255u8 {
                    extra.push(vec![b'k', b]);
                    extra.push(vec![b'r', b'y', b]);
                }
                for (k, _) in kvs.iter().take(40) {
                    extra.push(k.clone());
                    for b in [0u8, 5, b'a', b'q', 0xff] {
                        let mut m = k.clone();
                        if let Some(l) = m.last_mut() { *l = b; }
                        extra.push(m);
                    }
                }
                st.nontrivial += 1;
                st.count("grid_cases", 1);
                do_probes(&kvs, (3, 3), &extra, st, rep);
            }
        }));
    }
    p.units.push(unit("file-larger-than-16MiB", "big dense".into(), move |st, rep| {
        let kvs = big_dense_family();
        let mut extra: Vec<Key> = vec![];
        for i in (0..kvs.len()).step_by(997) {
            extra.push(kvs[i].0.clone());
            let mut m = kvs[i].0.clone();
            m[1] = 200;
            extra.push(m);
        }
        st.nontrivial += 1;
        do_probes(&kvs, DEFAULT_GEOM, &extra, st, rep);
    }));
    p.units.push(unit("long-key-family", "long keys".into(), move |st, rep| {
        for (_, kvs) in long_key_family() {
            if kvs[0].0.len() > 2000 {
                continue; // the probe closure is quadratic in the key length
            }
            st.nontrivial += 1;
            do_case(&kvs, (2, 2), false, &[], st, rep);
        }
    }));
    for part in 0..16usize {
        p.units.push(unit("key-length-ladder-(finite-family)", format!("length ladder part {}", part), move |st, rep| {
            for (_, kvs) in key_length_ladder(part, 16) {
                st.nontrivial += 1;
                // probes: every key; without its last byte; with one more byte; last byte changed;
                // first byte changed; the middle byte changed
                let mut probes: Vec<Key> = vec![vec![]];
                for (k, _) in &kvs {
                    probes.push(k.clone());
                    probes.push(k[..k.len() - 1].to_vec());
                    for b in [0u8, b'a', b'x', 0xff] {
                        let mut m = k.clone();
                        m.push(b);
                        probes.push(m);
                        let mut m = k.clone();
                        *m.last_mut().unwrap() = b;
                        probes.push(m);
                        let mut m = k.clone();
                        m[k.len() / 2] = b;
                        probes.push(m);
                    }
                }
                do_probes(&kvs, (2, 2), &probes, st, rep);
            }
        }));
    }
    p.units.push(unit("twin-wide-nodes-under-tiny-caches", "twins".into(), move |st, rep| {
        for (_, kvs) in twin_family() {
            st.nontrivial += 1;
            for g in crate::front::GEOMS {
                let probes: Vec<Key> = (0..=255u8).flat_map(|b| [vec![b'a', b], vec![b'c', b], vec![b'x', b], vec![b'c', b, b'q']]).collect();
                do_probes(&kvs, g, &probes, st, rep);
            }
        }
    }));
    p.must_be_nonzero = vec!["fanout_cases".into(), "label_cases".into()];
    p.rule.push_str(super::seqread::RULE);
    p.rule.push_str(super::seqread::RULE_CONCURRENT);
    super::seqread::add_concurrent_unit(&mut p, super::seqread::Class::Lookup);
    super::seqread::add_units(&mut p, super::seqread::Class::Lookup, if tier.thorough() { 5 } else { 4 });
    p
}
