//! C17 - the Levenshtein automaton accepts exactly the keys within the edit
//! distance, counted in Unicode scalar values (SEQ engine).

use std::sync::Arc;

use fst::automaton::{Levenshtein, LevenshteinError};
use fst::{Automaton, IntoStreamer, Map, Set, Streamer};
use serde_json::{json, Value};

use crate::ev::{guard, unit, Plan, Tier};

/// 1/2/2/3/3/4/4/4 bytes; e-acute/e-circumflex share the lead byte C3, the
/// two snowman-block symbols share E2 98, the two emoji share F0 9F 98 and the
/// musical symbol shares F0 with them.
pub const A8: [char; 8] = ['a', '\u{e9}', '\u{ea}', '\u{2603}', '\u{2602}', '\u{1F600}', '\u{1F601}', '\u{1D11E}'];

/// A8 plus three characters that share the FINAL byte (but not the leading
/// bytes) with a character of A8: U+A9 (C2 A9) with e-acute (C3 A9), U+2643
/// (E2 99 83) with U+2603 (E2 98 83), U+1D100 (F0 9D 84 80) with U+1F600
/// (F0 9F 98 80).
pub const A11: [char; 11] = ['a', '\u{e9}', '\u{ea}', '\u{2603}', '\u{2602}', '\u{1F600}', '\u{1F601}', '\u{1D11E}', '\u{a9}', '\u{2643}', '\u{1D100}'];

pub fn strings(maxlen: usize) -> Vec<String> {
    strings_over(&A8, maxlen)
}

pub fn strings_over(alpha: &[char], maxlen: usize) -> Vec<String> {
    let mut out = vec![String::new()];
    let mut last = vec![String::new()];
    for _ in 0..maxlen {
        let mut next = vec![];
        for s in &last {
            for &c in alpha {
                let mut t = s.clone();
                t.push(c);
                next.push(t);
            }
        }
        out.extend(next.iter().cloned());
        last = next;
    }
    out
}

/// Wagner-Fischer on scalar values.
pub fn edit_distance(a: &[char], b: &[char]) -> usize {
    let mut prev: Vec<usize> = (0..=b.len()).collect();
    for i in 1..=a.len() {
        let mut cur = vec![i];
        for j in 1..=b.len() {
            let c = if a[i - 1] == b[j - 1] { 0 } else { 1 };
            cur.push((prev[j] + 1).min(cur[j - 1] + 1).min(prev[j - 1] + c));
        }
        prev = cur;
    }
    prev[b.len()]
}

/// One (q, d): feed every key (a trie walk over the alphabet, one `accept`
/// chain per key) and compare with the reference distance.
pub fn run_query(q: &str, d: u32, keys: &[String]) -> Result<u64, String> {
    guard(|| {
        let lev = Levenshtein::new(q, d).map_err(|e| format!("Levenshtein::new({:?},{}) failed: {}", q, d, e))?;
        let qc: Vec<char> = q.chars().collect();
        let mut n = 0;
        for k in keys {
            let kc: Vec<char> = k.chars().collect();
            let want = edit_distance(&qc, &kc) <= d as usize;
            let mut st = lev.start();
            let mut pruned_at: Option<usize> = None;
            for (i, &b) in k.as_bytes().iter().enumerate() {
                if !lev.can_match(&st) && pruned_at.is_none() {
                    pruned_at = Some(i);
                }
                st = lev.accept(&st, b);
            }
            let got = lev.is_match(&st);
            n += 1;
            if got != want {
                return Err(format!("q={:?} d={} key={:?}: automaton says {}, edit distance is {}", q, d, k, got, edit_distance(&qc, &kc)));
            }
            if want {
                if let Some(i) = pruned_at {
                    return Err(format!("q={:?} d={} key={:?}: can_match is false after {} bytes of a matching key", q, d, k, i));
                }
            }
        }
        Ok(n)
    })
    .and_then(|x| x)
}

/// Search over the set / map of all keys.
pub fn run_search(q: &str, d: u32, set: &Set<Vec<u8>>, map: &Map<Vec<u8>>, keys_sorted: &[String]) -> Result<u64, String> {
    guard(|| {
        let lev = Levenshtein::new(q, d).map_err(|e| format!("{}", e))?;
        let qc: Vec<char> = q.chars().collect();
        let within = |k: &String| edit_distance(&qc, &k.chars().collect::<Vec<_>>()) <= d as usize;
        let want: Vec<String> = keys_sorted.iter().filter(|k| within(k)).cloned().collect();
        let got = set.search(&lev).into_stream().into_strs().map_err(|e| format!("{:?}", e))?;
        if got != want {
            return Err(format!("Set::search(Levenshtein({:?},{})) returned {} keys, expected {}; first difference {:?}", q, d, got.len(), want.len(), got.iter().zip(&want).find(|(a, b)| a != b)));
        }
        let gotm = map.search(&lev).into_stream().into_str_keys().map_err(|e| format!("{:?}", e))?;
        if gotm != want {
            return Err(format!("Map::search(Levenshtein({:?},{})) differs", q, d));
        }
        // one automaton shared by two live searches advanced alternately, then used once more
        {
            let mut s1 = set.search(&lev).into_stream();
            let mut s2 = map.search(&lev).into_stream();
            let (mut g1, mut g2): (Vec<String>, Vec<String>) = (vec![], vec![]);
            loop {
                let x = s1.next().map(|k| String::from_utf8_lossy(k).to_string());
                let y = s2.next().map(|(k, _)| String::from_utf8_lossy(k).to_string());
                let done = x.is_none() && y.is_none();
                g1.extend(x);
                g2.extend(y);
                if done { break; }
            }
            let again = set.search(&lev).into_stream().into_strs().map_err(|e| format!("{:?}", e))?;
            if g1 != want || g2 != want || again != want {
                return Err(format!("two live searches sharing one Levenshtein({:?},{}) automaton (advanced alternately) or a third search afterwards differ from the solo search", q, d));
            }
        }
        // bounded searches, with and without states, at matching keys (first, middle, last)
        if !want.is_empty() {
            for b in [&want[0], &want[want.len() / 2], &want[want.len() - 1]] {
                for kind in 0..4 {
                    let keep = |k: &&String| match kind { 0 => *k >= b, 1 => *k > b, 2 => *k <= b, _ => *k < b };
                    let wb: Vec<String> = want.iter().filter(keep).cloned().collect();
                    let sb = set.search(&lev);
                    let sb = match kind { 0 => sb.ge(b), 1 => sb.gt(b), 2 => sb.le(b), _ => sb.lt(b) };
                    let got = sb.into_stream().into_strs().map_err(|e| format!("{:?}", e))?;
                    let ws = set.search_with_state(&lev);
                    let ws = match kind { 0 => ws.ge(b), 1 => ws.gt(b), 2 => ws.le(b), _ => ws.lt(b) };
                    let mut st = ws.into_stream();
                    let mut gots: Vec<String> = vec![];
                    while let Some((k, _)) = st.next() {
                        gots.push(String::from_utf8_lossy(k).into_owned());
                    }
                    let wm = map.search_with_state(&lev);
                    let wm = match kind { 0 => wm.ge(b), 1 => wm.gt(b), 2 => wm.le(b), _ => wm.lt(b) };
                    let mut st = wm.into_stream();
                    let mut gotm: Vec<String> = vec![];
                    while let Some((k, _, _)) = st.next() {
                        gotm.push(String::from_utf8_lossy(k).into_owned());
                    }
                    if got != wb || gots != wb || gotm != wb {
                        return Err(format!("Levenshtein({:?},{}) searched with bound {} {:?}: search gave {} keys, Set::search_with_state {}, Map::search_with_state {}, expected {}", q, d, ["ge", "gt", "le", "lt"][kind], b, got.len(), gots.len(), gotm.len(), wb.len()));
                    }
                }
            }
        }
        let wantc: Vec<String> = keys_sorted.iter().filter(|k| !within(k)).cloned().collect();
        let gotc = set.search((&lev).complement()).into_stream().into_strs().map_err(|e| format!("{:?}", e))?;
        if gotc != wantc {
            return Err(format!("Set::search(Levenshtein({:?},{}).complement()) differs", q, d));
        }
        let wants: Vec<String> = keys_sorted
            .iter()
            .filter(|k| {
                let kc: Vec<char> = k.chars().collect();
                (0..=kc.len()).any(|i| edit_distance(&qc, &kc[..i]) <= d as usize)
            })
            .cloned()
            .collect();
        let gots = set.search((&lev).starts_with()).into_stream().into_strs().map_err(|e| format!("{:?}", e))?;
        if gots != wants {
            return Err(format!("Set::search(Levenshtein({:?},{}).starts_with()) differs", q, d));
        }
        Ok(4)
    })
    .and_then(|x| x)
}

/// State limit clause.
pub fn run_limit(q: &str, d: u32, probe_keys: &[String]) -> Result<u64, String> {
    guard(|| {
        let full = Levenshtein::new_with_limit(q, d, usize::MAX).map_err(|e| format!("unlimited build failed: {}", e))?;
        let n = full.verif_num_states();
        let mut cnt = 0;
        for l in 0..=n + 2 {
            cnt += 1;
            match Levenshtein::new_with_limit(q, d, l) {
                Err(LevenshteinError::TooManyStates(x)) => {
                    if l >= n {
                        return Err(format!("q={:?} d={}: the automaton has {} states but limit {} was rejected", q, d, n, l));
                    }
                    let _ = x; // the payload of TooManyStates is not part of the property
                }
                Ok(a) => {
                    if l < n {
                        return Err(format!("q={:?} d={}: the automaton needs {} states but limit {} produced one ({} states)", q, d, n, l, a.verif_num_states()));
                    }
                    for k in probe_keys {
                        let run = |a: &Levenshtein| {
                            let mut s = a.start();
                            for &b in k.as_bytes() {
                                s = a.accept(&s, b);
                            }
                            a.is_match(&s)
                        };
                        if run(&a) != run(&full) {
                            return Err(format!("q={:?} d={} limit {}: answers differ from the unlimited automaton on {:?}", q, d, l, k));
                        }
                    }
                }
            }
        }
        Ok(cnt)
    })
    .and_then(|x| x)
}

/// Systematic family of keys at 0..5 edits from `q`: for every start position,
/// stride in {1,3,11} and edit count e, the positions start+j*stride (mod |q|)
/// are deleted / inserted before / substituted in turn.
pub fn edit_family(q: &str) -> Vec<String> {
    let qc: Vec<char> = q.chars().collect();
    let pool: Vec<char> = "aeo z\u{e9}\u{2603}".chars().collect();
    let mut out: std::collections::BTreeSet<String> = std::collections::BTreeSet::new();
    out.insert(q.to_string());
    out.insert(String::new());
    // every prefix and every suffix of the query (keys far from the query that share a long part with it)
    let thin = (qc.len() / 100).max(1);
    for i in (1..qc.len()).step_by(thin) {
        out.insert(qc[..i].iter().collect());
        out.insert(qc[i..].iter().collect());
    }
    for e in 1..=5usize {
        for start in (0..qc.len()).step_by(thin) {
            for stride in [1usize, 3, 11] {
                let mut pos: Vec<(usize, usize)> = (0..e).map(|j| ((start + j * stride) % qc.len(), start + j)).collect();
                pos.sort();
                pos.dedup_by_key(|x| x.0);
                let mut v = qc.clone();
                for &(p, j) in pos.iter().rev() {
                    match j % 3 {
                        0 => { v.remove(p); }
                        1 => v.insert(p, pool[j % pool.len()]),
                        _ => v[p] = pool[j % pool.len()],
                    }
                }
                out.insert(v.into_iter().collect());
            }
        }
    }
    out.into_iter().collect()
}

fn short_q(q: &str) -> String {
    let n = q.chars().count();
    if n <= 40 { format!("{:?}", q) } else { format!("{:?}... ({} characters)", q.chars().take(24).collect::<String>(), n) }
}

/// Large automata (raised state limit): byte walk and Set::search against Wagner-Fischer.
pub fn run_large(q: &str, d: u32) -> Result<(u64, usize), String> {
    guard(|| {
        let lev = Levenshtein::new_with_limit(q, d, 3_000_000).map_err(|e| format!("new_with_limit({:?},{},3000000) failed: {}", q, d, e))?;
        let states = lev.verif_num_states();
        let qc: Vec<char> = q.chars().collect();
        let keys = edit_family(q);
        let mut want: Vec<String> = vec![];
        for k in &keys {
            let kc: Vec<char> = k.chars().collect();
            let dist = edit_distance(&qc, &kc);
            let mut st = lev.start();
            for &b in k.as_bytes() {
                st = lev.accept(&st, b);
            }
            if lev.is_match(&st) != (dist <= d as usize) {
                return Err(format!("q={} d={} ({} states) key={}: automaton says {}, edit distance is {}", short_q(q), d, states, short_q(k), lev.is_match(&st), dist));
            }
            if dist <= d as usize {
                want.push(k.clone());
            }
        }
        let set = Set::from_iter(keys.iter()).map_err(|e| format!("{:?}", e))?;
        let got = set.search(&lev).into_stream().into_strs().map_err(|e| format!("{:?}", e))?;
        if got != want {
            return Err(format!("q={} d={} ({} states): Set::search returned {} keys, expected {}", short_q(q), d, states, got.len(), want.len()));
        }
        Ok((keys.len() as u64 + 1, states))
    })
    .and_then(|x| x)
}

pub fn replay(case: &Value) -> Result<String, String> {
    let q = case["q"].as_str().unwrap();
    let d = case["d"].as_u64().unwrap() as u32;
    let kl = case["klen"].as_u64().unwrap_or(3) as usize;
    match case["kind"].as_str().unwrap() {
        "large" => run_large(q, d).map(|(n, st)| format!("{} keys agree ({} states)", n, st)),
        "limit" => run_limit(q, d, &strings(2)).map(|n| format!("{} limits behave", n)),
        "search" => {
            let mut keys = strings(kl);
            keys.sort();
            let set = Set::from_iter(keys.iter()).unwrap();
            let map = Map::from_iter(keys.iter().enumerate().map(|(i, k)| (k, i as u64))).unwrap();
            run_search(q, d, &set, &map, &keys).map(|n| format!("{} searches agree", n))
        }
        "accept-a11" => run_query(q, d, &strings_over(&A11, kl)).map(|n| format!("{} keys agree", n)),
        "accept-long" => run_query(q, d, &strings_over(&['a', 'b', '\u{e9}'], kl)).map(|n| format!("{} keys agree", n)),
        _ => run_query(q, d, &strings(kl)).map(|n| format!("{} keys agree", n)),
    }
}

pub fn plan(tier: Tier) -> Plan {
    let mut p = Plan::new("C17", "model_checking");
    let thorough = tier.thorough();
    let klen = if thorough { 5 } else { 4 };
    p.rule = format!("alphabet A8 = {{a, e-acute, e-circumflex, U+2603, U+2602, U+1F600, U+1F601, U+1D11E}} (1/2/2/3/3/4/4/4 bytes; pairs sharing lead and continuation bytes); ALL queries q with |q| <= 3 (585) x d in {{0,1,2}} x ALL keys k with |k| <= {} : the UTF-8 bytes of k are fed through start/accept and is_match is compared with Wagner-Fischer on scalar values; can_match must be true on every proper prefix of a matching key; additionally all |q| <= 2 (thorough 3) x |k| <= 3 (4) over A11 = A8 + three characters sharing only the FINAL byte with a character of A8, and all |q| <= 6 (7) x |k| <= 6 (8) over {{a, b, e-acute}} (long queries with repeated characters); the same queries as Set/Map::search (also under complement() and starts_with(), and with each of ge/gt/le/lt at the first, middle and last matching key through search and search_with_state) over the set of all keys of length <= 3; state limit: for every (q,d) with |q| <= 2, N = states of the unlimited build (hook H4), new_with_limit(q,d,l) for every l in 0..=N+2 is TooManyStates iff l < N (the payload is not compared) and otherwise answers like the unlimited automaton; finite family of large automata behind new_with_limit(3000000): sentences of 16..70 characters (ASCII and accented) with d = 1..4 (up to more than 2^16 states) and queries of 300 and 1000 characters with d = 0..1, each against a systematic family of keys 0..5 edits away (every start position x strides 1,3,11) plus every prefix and suffix of the query, byte walk and Set::search. non-trivial = (q,d,k) triples with q != k and both non-empty", klen);
    p.assumptions = vec!["edit distance = insertions, deletions, substitutions of Unicode scalar values (no transpositions)".into()];
    let queries = strings(3);
    let keys = Arc::new(strings(klen));
    let keys3 = Arc::new({
        let mut k = strings(3);
        k.sort();
        k
    });
    let chunk = (queries.len() + 63) / 64;
    for part in queries.chunks(chunk) {
        let part = part.to_vec();
        let keys = keys.clone();
        let keys3 = keys3.clone();
        p.units.push(unit(&format!("A8-q<=3-d<=2-k<={}", klen), format!("queries from {:?}", part[0]), move |st, rep| {
            let set = Set::from_iter(keys3.iter()).unwrap();
            let map = Map::from_iter(keys3.iter().enumerate().map(|(i, k)| (k, i as u64))).unwrap();
            for q in &part {
                for d in 0..=2u32 {
                    if rep.stopped() { return; }
                    st.states += 1;
                    match run_query(q, d, &keys) {
                        Ok(n) => {
                            st.evals += n;
                            st.transitions += n * 8;
                            st.nontrivial += if q.is_empty() { 0 } else { n - 2 };
                        }
                        Err(msg) => rep.violation(format!("q={:?} d={}", q, d), msg, json!({"kind": "accept", "q": q, "d": d, "klen": klen})),
                    }
                    match run_search(q, d, &set, &map, &keys3) {
                        Ok(n) => {
                            st.evals += n;
                            st.count("searches", n);
                        }
                        Err(msg) => rep.violation(format!("search q={:?} d={}", q, d), msg, json!({"kind": "search", "q": q, "d": d, "klen": 3})),
                    }
                }
                if q.chars().count() == 2 {
                    st.sample(|| json!({"q": q, "d": 1, "keys_checked": keys.len()}));
                }
            }
        }));
    }
    // (b) extended alphabet A11 (characters sharing only their final byte)
    {
        let qs = strings_over(&A11, if thorough { 3 } else { 2 });
        let ks = Arc::new(strings_over(&A11, if thorough { 4 } else { 3 }));
        let chunk = (qs.len() + 31) / 32;
        for part in qs.chunks(chunk) {
            let part = part.to_vec();
            let ks = ks.clone();
            p.units.push(unit("A11-final-byte-sharing-characters", format!("A11 queries from {:?}", part[0]), move |st, rep| {
                for q in &part {
                    for d in 0..=2u32 {
                        if rep.stopped() { return; }
                        st.states += 1;
                        match run_query(q, d, &ks) {
                            Ok(n) => { st.evals += n; st.transitions += n * 8; st.nontrivial += n - 1; st.count("a11_triples", n); }
                            Err(msg) => rep.violation(format!("A11 q={:?} d={}", q, d), msg, json!({"kind": "accept-a11", "q": q, "d": d, "klen": 3})),
                        }
                    }
                }
            }));
        }
    }
    // (c) long queries over a tiny alphabet {a, b, e-acute}: repeated characters,
    // rows with gaps between live cells
    {
        let alpha = ['a', 'b', '\u{e9}'];
        let qs = strings_over(&alpha, if thorough { 7 } else { 6 });
        let ks = Arc::new(strings_over(&alpha, if thorough { 8 } else { 6 }));
        let chunk = (qs.len() + 63) / 64;
        for part in qs.chunks(chunk) {
            let part = part.to_vec();
            let ks = ks.clone();
            p.units.push(unit("long-queries-over-{a,b,e-acute}", format!("long queries from {:?}", part[0]), move |st, rep| {
                for q in &part {
                    for d in 0..=2u32 {
                        if rep.stopped() { return; }
                        st.states += 1;
                        match run_query(q, d, &ks) {
                            Ok(n) => { st.evals += n; st.transitions += n * 8; st.nontrivial += n - 1; st.count("long_query_triples", n); }
                            Err(msg) => rep.violation(format!("long q={:?} d={}", q, d), msg, json!({"kind": "accept-long", "q": q, "d": d, "klen": 6})),
                        }
                    }
                }
            }));
        }
    }
    // large automata behind a raised state limit (up to > 2^16 states; thorough > 2^17)
    {
        let sentence = "the quick brown fox jumps over the lazy dog and runs away to the hills";
        let accented = "le c\u{153}ur d\u{e9}\u{e7}u mais l'\u{e2}me plut\u{f4}t na\u{ef}ve \u{2603} \u{1F600} fin";
        let mut cases: Vec<(String, u32)> = vec![];
        for (n, d) in [(20usize, 3u32), (30, 3), (43, 3), (50, 3), (57, 3), (60, 3), (16, 4), (22, 4), (26, 4), (57, 2), (70, 2), (70, 1)] {
            cases.push((sentence.chars().take(n).collect(), d));
        }
        for (n, d) in [(20usize, 3u32), (40, 3), (47, 3), (20, 4), (47, 2)] {
            cases.push((accented.chars().take(n).collect(), d));
        }
        // queries longer than 255 and 65535 characters (cost cells / positions of one or two bytes)
        let long300: String = (0..300u32).map(|i| char::from(b'a' + ((i * 7 + i / 26) % 26) as u8)).collect();
        let long300e: String = (0..300u32).map(|i| if i % 9 == 4 { '\u{e9}' } else { char::from(b'a' + ((i * 11) % 26) as u8) }).collect();
        cases.push((long300.clone(), 0));
        cases.push((long300, 1));
        cases.push((long300e, 1));
        cases.push(((0..1000u32).map(|i| char::from(b'a' + ((i * 5 + i / 7) % 26) as u8)).collect(), 0));
        if thorough {
            cases.push((sentence.to_string(), 3));
            cases.push((sentence.chars().take(32).collect(), 4));
            cases.push((sentence.chars().take(20).collect(), 5));
        }
        for (q, d) in cases {
            p.units.push(unit("large-automata-raised-limit-(finite-family)", format!("large q={} d={}", short_q(&q), d), move |st, rep| {
                st.states += 1;
                match run_large(&q, d) {
                    Ok((n, states)) => {
                        st.evals += n;
                        st.transitions += n * q.len() as u64;
                        st.nontrivial += n;
                        st.count("large_automaton_keys", n);
                        st.max("max_automaton_states", states as u64);
                        if states > 65536 { st.count("automata_with_more_than_65536_states", 1); }
                    }
                    Err(msg) => rep.violation(format!("large q={} d={}", short_q(&q), d), msg, json!({"kind": "large", "q": q, "d": d})),
                }
            }));
        }
    }
    let lq: Vec<String> = strings(2);
    let chunk = (lq.len() + 31) / 32;
    for part in lq.chunks(chunk) {
        let part = part.to_vec();
        p.units.push(unit("state-limit-q<=2", format!("limits from {:?}", part[0]), move |st, rep| {
            let probes = strings(2);
            for q in &part {
                for d in 0..=2u32 {
                    match run_limit(q, d, &probes) {
                        Ok(n) => {
                            st.evals += n;
                            st.states += n;
                            st.count("limits_checked", n);
                        }
                        Err(msg) => rep.violation(format!("limit q={:?} d={}", q, d), msg, json!({"kind": "limit", "q": q, "d": d})),
                    }
                }
            }
        }));
    }
    p.must_be_nonzero = vec!["searches".into(), "limits_checked".into(), "a11_triples".into(), "long_query_triples".into(), "automata_with_more_than_65536_states".into()];
    p
}
