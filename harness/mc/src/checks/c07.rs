//! C07 - output bytes do not depend on how the sink accepts writes (ENV
//! engine: every sink answer schedule with <= d deviations, policy sinks,
//! buffered and pre-filled containers).

use std::io::BufWriter;

use fst::raw::{self, Fst};
use serde_json::{json, Value};

use super::util::*;
use crate::ev::{fnv, guard, unit, Plan, Tier};
use crate::front;
use crate::model::*;
use crate::sink::{explore_deviations, Ans, Call, Policy, ScriptSink};

pub fn inputs() -> Vec<(&'static str, Vec<Kv>)> {
    let fan40: Vec<Kv> = (0..40u8).map(|i| (vec![b'0' + i], i as u64 * 1000)).collect();
    vec![
        ("empty-set", vec![]),
        ("only-empty-key", vec![(vec![], 0)]),
        ("empty-key-with-value", vec![(vec![], 77)]),
        ("one-key", vec![(b"a".to_vec(), 0)]),
        (
            "three-keys-multibyte-values",
            vec![(b"abcdefghijklmnop".to_vec(), 0x12_3456_7890), (b"b".to_vec(), 0x12_3456_7890), (b"c".to_vec(), 0x12_3456_7890)],
        ),
        (
            "every-node-form",
            vec![(vec![], 3), (b"abc".to_vec(), 5), (b"abd".to_vec(), 7), (b"b\xff".to_vec(), 9), (b"c".to_vec(), u64::MAX)],
        ),
        ("fanout-40-with-index", fan40),
        // a wide node that is written DURING a later insert (not at finish), followed by more keys
        ("wide-node-below-a-prefix-then-more-keys", (0..40u8).map(|i| (vec![b'p', 0x30 + i * 3], 5 + i as u64 * 300)).chain([(b"q".to_vec(), 1), (b"qa".to_vec(), 70_000), (b"r".to_vec(), 2)]).collect()),
        // a final root with 256 transitions: count byte "1 means 256", index table, final output
        ("fanout-256-final-root", std::iter::once((vec![], 9u64)).chain((0..=255u8).map(|b| (vec![b], 1 + (b as u64) * 3))).collect()),
        // the same with 8-byte outputs: the largest single output run of a node (257 x 8 bytes)
        ("fanout-256-final-root-8-byte-outputs", std::iter::once((vec![], u64::MAX - 5)).chain((0..=255u8).map(|b| (vec![b], (1u64 << 60) + crate::model::mix64(b as u64) % (1u64 << 59)))).collect()),
    ]
}

/// Larger inputs (12 KB .. 70 KB of output) for the policy sinks only.
pub fn large_inputs() -> Vec<(&'static str, Vec<Kv>)> {
    let gen = |n: u64, seed: u64| -> Vec<Kv> {
        let mut v: Vec<Kv> = (0..n).map(|i| (format!("{:06}", i * 7 + seed).into_bytes(), crate::model::mix64(i + seed) >> (8 * (i % 7)))).collect();
        v.sort();
        v
    };
    vec![("large-12KB", gen(900, 1)), ("large-40KB", gen(3000, 2)), ("large-70KB", gen(5500, 3))]
}

/// Runs the real builder over the scripted sink. Returns (sink, error text).
fn run_scripted(kvs: &[Kv], script: &[(usize, Ans)], policy: Policy) -> Result<ScriptSink, String> {
    let sink = ScriptSink::new(script.to_vec(), policy);
    let mut b = raw::Builder::verif_new_with_registry(sink, 0, 3, 3).map_err(|e| format!("new failed: {:?}", e))?;
    if b.bytes_written() != b.get_ref().data.len() as u64 {
        return Err(format!("after new: bytes_written()={} but the sink accepted {}", b.bytes_written(), b.get_ref().data.len()));
    }
    for (i, (k, v)) in kvs.iter().enumerate() {
        b.insert(k, *v).map_err(|e| format!("insert {} failed: {:?}", i, e))?;
        if b.bytes_written() != b.get_ref().data.len() as u64 {
            return Err(format!("after insert {}: bytes_written()={} but the sink accepted {}", i, b.bytes_written(), b.get_ref().data.len()));
        }
    }
    b.into_inner().map_err(|e| format!("finish failed: {:?}", e))
}

fn check_bytes(what: &str, got: &[u8], reference: &[u8], kvs: &[Kv]) -> Result<(), String> {
    if got != reference {
        let at = got.iter().zip(reference).position(|(a, b)| a != b).unwrap_or(got.len().min(reference.len()));
        return Err(format!("{}: sink holds {} bytes, in-memory build {}; first difference at offset {}", what, got.len(), reference.len(), at));
    }
    let f = Fst::new(got).map_err(|e| format!("{}: does not open: {:?}", what, e))?;
    f.verify().map_err(|e| format!("{}: verify failed: {:?}", what, e))?;
    if f.stream().into_byte_vec() != kvs {
        return Err(format!("{}: content differs", what));
    }
    Ok(())
}

pub fn reference(kvs: &[Kv]) -> Result<Vec<u8>, String> {
    guard(|| {
        let mut b = raw::Builder::verif_new_with_registry(Vec::new(), 0, 3, 3).map_err(|e| format!("{:?}", e))?;
        for (k, v) in kvs {
            b.insert(k, *v).map_err(|e| format!("{:?}", e))?;
        }
        b.into_inner().map_err(|e| format!("{:?}", e))
    })
    .and_then(|x| x)
}

/// One execution with a deviation script; Ok(call log).
pub fn run_one(kvs: &[Kv], reference: &[u8], script: &[(usize, Ans)], policy: Policy) -> Result<Vec<Call>, String> {
    guard(|| {
        let sink = run_scripted(kvs, script, policy)?;
        check_bytes("scripted sink", &sink.data, reference, kvs)?;
        if sink.flushed_upto != sink.data.len() {
            return Err("finish returned without flushing the last bytes".into());
        }
        Ok(sink.calls)
    })
    .and_then(|x| x)
}

fn ans_json(a: &Ans) -> Value {
    match a {
        Ans::Short(n) => json!({"short": n}),
        Ans::Interrupted => json!("interrupted"),
        other => json!(format!("{:?}", other)),
    }
}

fn script_json(s: &[(usize, Ans)]) -> Value {
    Value::Array(s.iter().map(|(i, a)| json!([i, ans_json(a)])).collect())
}

fn script_from(v: &Value) -> Vec<(usize, Ans)> {
    v.as_array()
        .unwrap()
        .iter()
        .map(|e| {
            let i = e[0].as_u64().unwrap() as usize;
            let a = if e[1] == "interrupted" { Ans::Interrupted } else { Ans::Short(e[1]["short"].as_u64().unwrap() as usize) };
            (i, a)
        })
        .collect()
}

fn policy_from(v: &Value) -> Policy {
    match v["kind"].as_str().unwrap_or("default") {
        "cap" => Policy::Cap(v["c"].as_u64().unwrap() as usize),
        "interrupt" => Policy::InterruptEach,
        "capinterrupt" => Policy::CapInterrupt(v["c"].as_u64().unwrap() as usize),
        "paged" => Policy::Paged(v["c"].as_u64().unwrap() as usize),
        "burst" => Policy::InterruptBurst(v["c"].as_u64().unwrap() as usize),
        _ => Policy::Default,
    }
}

fn policy_json(p: Policy) -> Value {
    match p {
        Policy::Default => json!({"kind": "default"}),
        Policy::Cap(c) => json!({"kind": "cap", "c": c}),
        Policy::InterruptEach => json!({"kind": "interrupt"}),
        Policy::CapInterrupt(c) => json!({"kind": "capinterrupt", "c": c}),
        Policy::Paged(c) => json!({"kind": "paged", "c": c}),
        Policy::InterruptBurst(c) => json!({"kind": "burst", "c": c}),
    }
}

/// BufWriter of capacity `cap` around the scripted sink.
fn run_bufwriter(kvs: &[Kv], reference: &[u8], cap: usize, script: &[(usize, Ans)], policy: Policy) -> Result<Vec<Call>, String> {
    guard(|| {
        let sink = ScriptSink::new(script.to_vec(), policy);
        let w = BufWriter::with_capacity(cap, sink);
        let mut b = raw::Builder::verif_new_with_registry(w, 0, 3, 3).map_err(|e| format!("new failed: {:?}", e))?;
        for (i, (k, v)) in kvs.iter().enumerate() {
            b.insert(k, *v).map_err(|e| format!("insert {} failed: {:?}", i, e))?;
            let w = b.get_ref();
            let accepted = w.buffer().len() + w.get_ref().data.len();
            if b.bytes_written() != accepted as u64 {
                return Err(format!("BufWriter({}): after insert {} bytes_written()={} but the writer accepted {}", cap, i, b.bytes_written(), accepted));
            }
        }
        let w = b.into_inner().map_err(|e| format!("finish failed: {:?}", e))?;
        if !w.buffer().is_empty() {
            return Err(format!("BufWriter({}): {} bytes still unflushed after finish", cap, w.buffer().len()));
        }
        let sink = w.into_inner().map_err(|e| format!("{:?}", e.error()))?;
        check_bytes(&format!("BufWriter({})", cap), &sink.data, reference, kvs)?;
        // the same through a BORROWED writer and finish(): when finish() has
        // returned, the sink below the BufWriter holds the whole FST
        let mut w = BufWriter::with_capacity(cap, ScriptSink::new(script.to_vec(), policy));
        {
            let mut b = raw::Builder::verif_new_with_registry(&mut w, 0, 3, 3).map_err(|e| format!("new failed: {:?}", e))?;
            for (i, (k, v)) in kvs.iter().enumerate() {
                b.insert(k, *v).map_err(|e| format!("insert {} failed: {:?}", i, e))?;
            }
            b.finish().map_err(|e| format!("finish failed: {:?}", e))?;
        }
        if !w.buffer().is_empty() {
            return Err(format!("borrowed BufWriter({}): {} bytes still unflushed after finish() returned", cap, w.buffer().len()));
        }
        check_bytes(&format!("borrowed BufWriter({}) + finish()", cap), &w.get_ref().data, reference, kvs)?;
        // MapBuilder / SetBuilder::finish over borrowed writers
        let is_set = kvs.iter().all(|x| x.1 == 0);
        let mut w = BufWriter::with_capacity(cap, ScriptSink::new(script.to_vec(), policy));
        {
            let mut b = fst::MapBuilder::new(&mut w).map_err(|e| format!("{:?}", e))?;
            for (k, v) in kvs {
                b.insert(k, *v).map_err(|e| format!("{:?}", e))?;
            }
            b.finish().map_err(|e| format!("MapBuilder::finish failed: {:?}", e))?;
        }
        let want = crate::front::build(crate::front::Front::MapInsert, crate::front::DEFAULT_GEOM, kvs)?;
        if !w.buffer().is_empty() || w.get_ref().data != want {
            return Err(format!("MapBuilder over a borrowed BufWriter({}): after finish() the sink holds {} bytes ({} still buffered), the in-memory build has {}", cap, w.get_ref().data.len(), w.buffer().len(), want.len()));
        }
        if is_set {
            let mut w = BufWriter::with_capacity(cap, ScriptSink::new(script.to_vec(), policy));
            {
                let mut b = fst::SetBuilder::new(&mut w).map_err(|e| format!("{:?}", e))?;
                for (k, _) in kvs {
                    b.insert(k).map_err(|e| format!("{:?}", e))?;
                }
                b.finish().map_err(|e| format!("SetBuilder::finish failed: {:?}", e))?;
            }
            if !w.buffer().is_empty() || w.get_ref().data != want {
                return Err(format!("SetBuilder over a borrowed BufWriter({}): after finish() the sink holds {} bytes ({} still buffered), the in-memory build has {}", cap, w.get_ref().data.len(), w.buffer().len(), want.len()));
            }
        }
        Ok(sink.calls)
    })
    .and_then(|x| x)
}

/// A Vec already holding `p` bytes.
fn run_prefilled(kvs: &[Kv], reference: &[u8], p: usize) -> Result<(), String> {
    guard(|| {
        let pre: Vec<u8> = (0..p).map(|i| (i * 7 + 1) as u8).collect();
        let mut b = raw::Builder::verif_new_with_registry(pre.clone(), 0, 3, 3).map_err(|e| format!("{:?}", e))?;
        for (k, v) in kvs {
            b.insert(k, *v).map_err(|e| format!("{:?}", e))?;
            if b.bytes_written() != (b.get_ref().len() - p) as u64 {
                return Err(format!("prefilled({}): bytes_written()={} but {} bytes were appended", p, b.bytes_written(), b.get_ref().len() - p));
            }
        }
        let out = b.into_inner().map_err(|e| format!("{:?}", e))?;
        if out[..p] != pre[..] {
            return Err(format!("prefilled({}): earlier bytes were modified", p));
        }
        check_bytes(&format!("prefilled({})", p), &out[p..], reference, kvs)
    })
    .and_then(|x| x)
}

/// A sink that USES THE LIBRARY on the same thread inside every write call
/// (a journaling or indexing writer): it builds a small map and a set with a
/// wide node, looks a key up, then accepts at most `cap` bytes.
struct Reentrant {
    data: Vec<u8>,
    cap: usize,
    /// fail with an error from this call on
    fail_at: Option<usize>,
    calls: usize,
}

impl std::io::Write for Reentrant {
    fn write(&mut self, buf: &[u8]) -> std::io::Result<usize> {
        let mut m = fst::MapBuilder::memory();
        let _ = m.insert("journal", self.calls as u64);
        let _ = m.insert("journal2", 7);
        if let Ok(b) = m.into_inner() {
            if let Ok(f) = fst::Map::new(b) {
                let _ = f.get("journal");
            }
        }
        let mut s = fst::SetBuilder::memory();
        for b in 0..40u8 {
            let _ = s.insert([b'w', 0x30 + b]);
        }
        let _ = s.into_inner();
        self.calls += 1;
        if self.fail_at.map_or(false, |k| self.calls > k) {
            return Err(std::io::Error::new(std::io::ErrorKind::Other, "re-entrant sink refuses"));
        }
        let n = buf.len().min(self.cap);
        self.data.extend_from_slice(&buf[..n]);
        Ok(n)
    }
    fn flush(&mut self) -> std::io::Result<()> {
        Ok(())
    }
}

fn run_reentrant(kvs: &[Kv], reference: &[u8], cap: usize) -> Result<(), String> {
    guard(|| -> Result<(), String> {
        let e = |x: fst::Error| format!("{:?}", x);
        let mut b = fst::raw::Builder::new(Reentrant { data: vec![], cap, fail_at: None, calls: 0 }).map_err(e)?;
        for (k, v) in kvs {
            b.insert(k, *v).map_err(e)?;
            if b.bytes_written() != b.get_ref().data.len() as u64 {
                return Err(format!("bytes_written() = {} but the sink has accepted {} bytes", b.bytes_written(), b.get_ref().data.len()));
            }
        }
        let sink = b.into_inner().map_err(e)?;
        check_bytes("a sink that uses the library inside write()", &sink.data, reference, kvs)
    })
    .and_then(|x| x)
    .map_err(|e| format!("re-entrant sink (at most {} bytes per call): {}", cap, e))
}

/// `bytes_written()` "always equals the number of bytes the sink has accepted
/// so far" - also right after a call that failed half way through a buffer.
fn run_bytes_written_after_failure(kvs: &[Kv], fail_at: usize, cap: usize) -> Result<bool, String> {
    guard(|| -> Result<bool, String> {
        let mut b = match fst::raw::Builder::new(Reentrant { data: vec![], cap, fail_at: Some(fail_at), calls: 0 }) {
            Ok(b) => b,
            Err(_) => return Ok(true), // failed inside new(): no builder to ask
        };
        let mut failed = false;
        for (k, v) in kvs {
            if b.insert(k, *v).is_err() {
                failed = true;
                break;
            }
        }
        let (bw, acc) = (b.bytes_written(), b.get_ref().data.len() as u64);
        if bw != acc {
            return Err(format!("after a write call that failed (sink call {} refused, at most {} bytes per call before) bytes_written() = {} but the sink has accepted {} bytes", fail_at + 1, cap, bw, acc));
        }
        Ok(failed)
    })
    .and_then(|x| x)
}

/// C11's question about the re-entrant sink: once it refuses a call, the
/// builder call in progress returns Err (no panic, no success). Returns
/// whether the refusal was reached.
pub fn reentrant_fault(kvs: &[Kv], fail_at: usize, cap: usize) -> Result<bool, String> {
    guard(|| -> Result<bool, String> {
        let mut b = match fst::raw::Builder::new(Reentrant { data: vec![], cap, fail_at: Some(fail_at), calls: 0 }) {
            Ok(b) => b,
            Err(fst::Error::Io(_)) => return Ok(true),
            Err(e) => return Err(format!("new() failed with {:?}, expected an Io error", e)),
        };
        for (k, v) in kvs {
            match b.insert(k, *v) {
                Ok(()) => {}
                Err(fst::Error::Io(_)) => return Ok(true),
                Err(e) => return Err(format!("insert failed with {:?}, expected an Io error", e)),
            }
        }
        let refused = b.get_ref().calls > fail_at;
        match b.into_inner() {
            Ok(s) => {
                if refused || s.calls > fail_at {
                    Err("the build was reported as finished although the sink refused a call".into())
                } else {
                    Ok(false)
                }
            }
            Err(fst::Error::Io(_)) => Ok(true),
            Err(e) => Err(format!("into_inner failed with {:?}, expected an Io error", e)),
        }
    })
    .and_then(|x| x)
    .map_err(|e| format!("a sink that uses the library inside write() and refuses sink call {} (at most {} bytes per call before): {}", fail_at + 1, cap, e))
}

pub fn replay(case: &Value) -> Result<String, String> {
    if let Some(cap) = case["reentrant_cap"].as_u64() {
        let kvs = kvs_from(&case["kvs"]);
        let r = reference(&kvs)?;
        return run_reentrant(&kvs, &r, cap as usize).map(|_| "bytes identical".into());
    }
    if let Some(k) = case["bytes_written_fail_at"].as_u64() {
        let kvs = kvs_from(&case["kvs"]);
        return run_bytes_written_after_failure(&kvs, k as usize, case["cap"].as_u64().unwrap() as usize).map(|_| "bytes_written() equals the accepted bytes".into());
    }
    let kvs = match case["large"].as_str() {
        Some(n) => large_inputs().into_iter().find(|x| x.0 == n).map(|x| x.1).ok_or("unknown large input")?,
        None => kvs_from(&case["kvs"]),
    };
    let r = reference(&kvs)?;
    let script = script_from(&case["script"]);
    let policy = policy_from(&case["policy"]);
    match case["container"].as_str().unwrap_or("direct") {
        "bufwriter" => run_bufwriter(&kvs, &r, case["cap"].as_u64().unwrap() as usize, &script, policy).map(|c| format!("{} sink calls, bytes identical", c.len())),
        "prefilled" => run_prefilled(&kvs, &r, case["p"].as_u64().unwrap() as usize).map(|_| "bytes identical".into()),
        _ => run_one(&kvs, &r, &script, policy).map(|c| format!("{} sink calls, bytes identical", c.len())),
    }
}

pub fn plan(tier: Tier) -> Plan {
    let mut p = Plan::new("C07", "model_checking");
    let thorough = tier.thorough();
    p.rule = "[also: a sink that uses the library on the same thread inside every write() - bytes identical, bytes_written() exact; bytes_written() == bytes accepted right after a refused sink call, the refusal at every call index] for each input of a fixed list (empty set; only the empty key; one key; three keys with 5-byte values; a map using every node form; a 40-way fan-out whose 256-byte index goes through one write_all) the real builder runs over a scripted sink for EVERY answer sequence with <= d deviations (a deviation = any shorter non-empty acceptance of that call's buffer, or Err(Interrupted)); plus policy sinks deviating on every call (cap 1..16, Interrupted before every call, both, page-bounded writers, bursts of 2..300 consecutive Interrupted results before every accepted call), also on outputs of 12..70 KB, BufWriter capacities {1,2,3,8,64,8192} (with <= 1 deviation underneath; owned + into_inner, and borrowed + finish() of the raw, map and set builders) and Vecs pre-filled with {1,7,8,16,4096} bytes; oracle: sink bytes == in-memory build, bytes_written() == bytes accepted after every insert, result opens/verifies/has the model content. non-trivial = executions with at least one deviation".into();
    p.assumptions = vec!["the sink honours the io::Write contract (never reports more than it accepted)".into()];
    let shards = 16usize;
    for (name, kvs) in inputs() {
        let small = kvs.len() <= 1;
        let d = if thorough {
            if small { 4 } else if kvs.len() <= 5 { 3 } else { 2 }
        } else if small { 3 } else if kvs.len() > 100 { 1 } else { 2 };
        p.extra.insert(format!("deviation_bound[{}]", name), json!(d));
        for shard in 0..shards {
            let kvs = kvs.clone();
            p.units.push(unit(
                &format!("{}-deviations<={}", name, d),
                format!("{} d<={} shard {}", name, d, shard),
                move |st, rep| {
                    let r = match reference(&kvs) {
                        Ok(r) => r,
                        Err(e) => {
                            rep.violation(format!("{} reference", name), e, json!({"kvs": kvs_json(&kvs), "script": [], "policy": {"kind": "default"}}));
                            return;
                        }
                    };
                    let mut maxcalls = 0u64;
                    let mut execs_dev = 0u64;
                    let n = explore_deviations(d, &|i| i % shards == shard, &mut |script| {
                        if rep.stopped() {
                            return None;
                        }
                        if script.is_empty() && shard != 0 {
                            // the deviation-free run is counted once (shard 0) but still needed as the root
                        }
                        match run_one(&kvs, &r, script, Policy::Default) {
                            Ok(calls) => {
                                maxcalls = maxcalls.max(calls.len() as u64);
                                if !script.is_empty() {
                                    execs_dev += 1;
                                }
                                Some(calls)
                            }
                            Err(msg) => {
                                rep.violation(
                                    format!("{} script {:?}", name, script),
                                    msg,
                                    json!({"kvs": kvs_json(&kvs), "script": script_json(script), "policy": {"kind": "default"}}),
                                );
                                None
                            }
                        }
                    });
                    st.evals += n;
                    st.states += n;
                    st.transitions += n * maxcalls;
                    st.nontrivial += execs_dev;
                    st.max("max_sink_calls", maxcalls);
                    st.outcome(fnv(&r));
                    if shard == 0 {
                        st.sample(|| json!({"input": name, "kvs": kvs_str(&kvs), "sink_calls_without_deviation": maxcalls, "executions_in_shard": n}));
                    }
                },
            ));
        }
        // policy sinks
        let kvs2 = kvs.clone();
        p.units.push(unit("policy-sinks", format!("{} policies", name), move |st, rep| {
            let kvs = &kvs2;
            let r = match reference(kvs) { Ok(r) => r, Err(_) => return };
            let mut pols: Vec<Policy> = (1..=16).map(Policy::Cap).collect();
            pols.push(Policy::InterruptEach);
            pols.push(Policy::CapInterrupt(1));
            pols.push(Policy::CapInterrupt(3));
            pols.extend([Policy::Paged(7), Policy::Paged(64), Policy::Paged(512), Policy::Paged(4096), Policy::Paged(8192)]);
            pols.extend([Policy::InterruptBurst(2), Policy::InterruptBurst(15), Policy::InterruptBurst(16), Policy::InterruptBurst(17), Policy::InterruptBurst(100), Policy::InterruptBurst(300)]);
            for pol in pols {
                st.evals += 1;
                st.states += 1;
                st.nontrivial += 1;
                st.count("policy_runs", 1);
                match run_one(kvs, &r, &[], pol) {
                    Ok(c) => st.transitions += c.len() as u64,
                    Err(msg) => rep.violation(format!("{} {:?}", name, pol), msg, json!({"kvs": kvs_json(kvs), "script": [], "policy": policy_json(pol)})),
                }
            }
        }));
        // containers
        let kvs3 = kvs.clone();
        p.units.push(unit("containers", format!("{} containers", name), move |st, rep| {
            let kvs = &kvs3;
            let r = match reference(kvs) { Ok(r) => r, Err(_) => return };
            for cap in [1usize, 2, 3, 8, 64, 8192] {
                let bound = if kvs.len() > 5 && cap < 8 && !thorough { 0 } else { 1 };
                let n = explore_deviations(bound, &|_| true, &mut |script| {
                    match run_bufwriter(kvs, &r, cap, script, Policy::Default) {
                        Ok(c) => Some(c),
                        Err(msg) => {
                            rep.violation(format!("{} bufwriter {} {:?}", name, cap, script), msg, json!({"container": "bufwriter", "cap": cap, "kvs": kvs_json(kvs), "script": script_json(script), "policy": {"kind": "default"}}));
                            None
                        }
                    }
                });
                st.evals += n;
                st.states += n;
                st.transitions += n;
                st.count("bufwriter_runs", n);
                for pol in [Policy::Cap(1), Policy::Cap(5), Policy::InterruptEach] {
                    st.evals += 1;
                    if let Err(msg) = run_bufwriter(kvs, &r, cap, &[], pol) {
                        rep.violation(format!("{} bufwriter {} {:?}", name, cap, pol), msg, json!({"container": "bufwriter", "cap": cap, "kvs": kvs_json(kvs), "script": [], "policy": policy_json(pol)}));
                    }
                }
            }
            for cap in [1usize, 3, 4096] {
                st.evals += 1;
                st.states += 1;
                st.count("reentrant_sink_runs", 1);
                if let Err(msg) = run_reentrant(kvs, &r, cap) {
                    rep.violation(format!("{} re-entrant sink cap {}", name, cap), msg, json!({"reentrant_cap": cap, "kvs": kvs_json(kvs)}));
                }
            }
            // bytes_written() right after a refused call, the refusal at every call index
            for cap in [2usize, 4096] {
                let mut k = 0;
                loop {
                    st.evals += 1;
                    st.count("bytes_written_after_failure_runs", 1);
                    match run_bytes_written_after_failure(kvs, k, cap) {
                        Ok(true) => k += 1 + k / 40,
                        Ok(false) => break,
                        Err(msg) => {
                            rep.violation(format!("{} bytes_written after failure at {} cap {}", name, k, cap), msg, json!({"bytes_written_fail_at": k, "cap": cap, "kvs": kvs_json(kvs)}));
                            break;
                        }
                    }
                    if k > 3000 { break; }
                }
            }
            for pre in [1usize, 7, 8, 16, 4096] {
                st.evals += 1;
                st.states += 1;
                st.count("prefilled_runs", 1);
                if let Err(msg) = run_prefilled(kvs, &r, pre) {
                    rep.violation(format!("{} prefilled {}", name, pre), msg, json!({"container": "prefilled", "p": pre, "kvs": kvs_json(kvs), "script": [], "policy": {"kind": "default"}}));
                }
            }
        }));
    }
    // larger outputs (12..70 KB) through the policy sinks (cap, interrupt, paged)
    for (name, kvs) in large_inputs() {
        p.units.push(unit("large-inputs-policy-sinks", format!("{} policies", name), move |st, rep| {
            let r = match reference(&kvs) { Ok(r) => r, Err(_) => return };
            for pol in [Policy::Cap(1), Policy::Cap(3), Policy::Cap(7), Policy::Cap(16), Policy::InterruptEach, Policy::CapInterrupt(2), Policy::Paged(512), Policy::Paged(1000), Policy::Paged(4096), Policy::Paged(8192), Policy::Paged(65536)] {
                st.evals += 1;
                st.states += 1;
                st.nontrivial += 1;
                st.count("large_policy_runs", 1);
                match run_one(&kvs, &r, &[], pol) {
                    Ok(c) => st.transitions += c.len() as u64,
                    Err(msg) => rep.violation(format!("{} {:?}", name, pol), msg, json!({"large": name, "script": [], "policy": policy_json(pol)})),
                }
            }
        }));
    }
    // d = 1 over every subset of U_ab2 with values (many small FSTs)
    {
        let u = u_ab2();
        for (a, b) in ranges(1 << u.keys.len(), 16) {
            let u = u.clone();
            p.units.push(unit("U_ab2-subsets-deviations<=1", format!("U_ab2 masks {}..{}", a, b), move |st, rep| {
                for mask in a..b {
                    let kvs = Pat::Boundary(2).apply(&select(&u.keys, mask));
                    let r = match reference(&kvs) { Ok(r) => r, Err(_) => continue };
                    let n = explore_deviations(1, &|_| true, &mut |script| match run_one(&kvs, &r, script, Policy::Default) {
                        Ok(c) => Some(c),
                        Err(msg) => {
                            rep.violation(format!("{} script {:?}", kvs_str(&kvs), script), msg, json!({"kvs": kvs_json(&kvs), "script": script_json(script), "policy": {"kind": "default"}}));
                            None
                        }
                    });
                    st.evals += n;
                    st.states += n;
                    st.transitions += n;
                    st.nontrivial += n - 1;
                }
            }));
        }
    }
    let _ = front::DEFAULT_GEOM;
    p.must_be_nonzero = vec!["policy_runs".into(), "bufwriter_runs".into(), "prefilled_runs".into()];
    p
}
