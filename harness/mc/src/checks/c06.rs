//! C06 - builders enforce the ordering contract; rejected inserts leave no
//! trace (SEQ engine: all call histories up to a depth).

use fst::raw::{self, Output};
use fst::{Map, MapBuilder, Set, SetBuilder};
use serde_json::{json, Value};

use super::util::*;
use crate::ev::{guard, hex, unhex, unit, Plan, Tier};
use crate::front::{self, VecStream, VecStreamKeys, VecStreamU64};
use crate::model::*;

#[derive(Clone, Copy, Debug, PartialEq, Eq)]
pub enum BKind {
    Map,
    Set,
    RawInsert,
    RawAdd,
}
pub const BKINDS: [BKind; 4] = [BKind::Map, BKind::Set, BKind::RawInsert, BKind::RawAdd];

impl BKind {
    fn is_map(self) -> bool {
        matches!(self, BKind::Map | BKind::RawInsert)
    }
}

/// What the reference model says about one call.
#[derive(Clone, Debug, PartialEq, Eq)]
pub enum Verdict {
    Ok,
    Dup { got: Key },
    Ooo { previous: Key, got: Key },
}

#[derive(Clone, Debug, Default)]
pub struct RefBuilder {
    pub last: Option<Key>,
    pub content: Vec<Kv>,
}

impl RefBuilder {
    pub fn call(&mut self, map: bool, k: &[u8], v: u64) -> Verdict {
        if let Some(last) = &self.last {
            if k == &last[..] {
                return if map { Verdict::Dup { got: k.to_vec() } } else { Verdict::Ok };
            }
            if k < &last[..] {
                return Verdict::Ooo { previous: last.clone(), got: k.to_vec() };
            }
        }
        self.last = Some(k.to_vec());
        self.content.push((k.to_vec(), if map { v } else { 0 }));
        Verdict::Ok
    }
}

fn classify(r: &fst::Result<()>) -> Result<Verdict, String> {
    match r {
        Ok(()) => Ok(Verdict::Ok),
        Err(fst::Error::Fst(raw::Error::DuplicateKey { got })) => Ok(Verdict::Dup { got: got.clone() }),
        Err(fst::Error::Fst(raw::Error::OutOfOrder { previous, got })) => {
            Ok(Verdict::Ooo { previous: previous.clone(), got: got.clone() })
        }
        Err(e) => Err(format!("unexpected error {:?}", e)),
    }
}

enum AnyB {
    Map(MapBuilder<Vec<u8>>),
    Set(SetBuilder<Vec<u8>>),
    Raw(raw::Builder<Vec<u8>>),
}

fn new_builder(kind: BKind) -> AnyB {
    match kind {
        BKind::Map => AnyB::Map(MapBuilder::new(vec![]).unwrap()),
        BKind::Set => AnyB::Set(SetBuilder::new(vec![]).unwrap()),
        _ => AnyB::Raw(raw::Builder::verif_new_with_registry(vec![], 0, 2, 2).unwrap()),
    }
}

fn call(b: &mut AnyB, kind: BKind, k: &[u8], v: u64) -> fst::Result<()> {
    match b {
        AnyB::Map(b) => b.insert(k, v),
        AnyB::Set(b) => b.insert(k),
        AnyB::Raw(b) => {
            if kind == BKind::RawInsert {
                b.insert(k, v)
            } else {
                b.add(k)
            }
        }
    }
}

fn finish(b: AnyB) -> fst::Result<Vec<u8>> {
    match b {
        AnyB::Map(b) => b.into_inner(),
        AnyB::Set(b) => b.into_inner(),
        AnyB::Raw(b) => b.into_inner(),
    }
}

fn hist_str(h: &[Kv]) -> String {
    h.iter().map(|(k, v)| format!("{}:{}", key_str(k), v)).collect::<Vec<_>>().join(" ")
}

/// Replays a call history on a fresh builder, checking every result against
/// the reference model, then finishes and compares the content.
pub fn run_history(kind: BKind, h: &[Kv]) -> Result<(), String> {
    guard(|| {
        let mut b = new_builder(kind);
        let mut m = RefBuilder::default();
        for (i, (k, v)) in h.iter().enumerate() {
            let want = m.call(kind.is_map(), k, *v);
            let got = classify(&call(&mut b, kind, k, *v))?;
            if got != want {
                return Err(format!("call {} ({}:{}) returned {:?}, model says {:?}", i, key_str(k), v, got, want));
            }
        }
        let bytes = finish(b).map_err(|e| format!("finish failed: {:?}", e))?;
        let got = front::read_raw(&bytes)?;
        if got != m.content {
            return Err(format!("finished content {} but accepted {}", kvs_str(&got), kvs_str(&m.content)));
        }
        let f = raw::Fst::new(&bytes[..]).map_err(|e| format!("{:?}", e))?;
        if f.len() != m.content.len() {
            return Err(format!("len() = {} but {} keys were accepted", f.len(), m.content.len()));
        }
        // "as if the call never happened": the bytes are those of a builder of
        // the same kind that only ever saw the accepted calls
        if h.len() != m.content.len() {
            let mut c = new_builder(kind);
            for (k, v) in &m.content {
                call(&mut c, kind, k, *v).map_err(|e| format!("clean build failed: {:?}", e))?;
            }
            let clean = finish(c).map_err(|e| format!("clean finish failed: {:?}", e))?;
            if clean != bytes {
                return Err(format!("the finished bytes differ from those of a builder that only saw the accepted calls {} (rejected calls left a trace: e.g. get_key / the file layout differ)", kvs_str(&m.content)));
            }
        }
        Ok(())
    })
    .and_then(|x| x)
}

#[derive(Clone, Copy, Debug, PartialEq, Eq)]
pub enum Bulk {
    MapFromIter,
    SetFromIter,
    FstFromIterMap,
    FstFromIterSet,
    MapExtendIter,
    SetExtendIter,
    RawExtendIter,
    MapExtendStream,
    SetExtendStream,
    RawExtendStream,
}
pub const BULKS: [Bulk; 10] = [
    Bulk::MapFromIter,
    Bulk::SetFromIter,
    Bulk::FstFromIterMap,
    Bulk::FstFromIterSet,
    Bulk::MapExtendIter,
    Bulk::SetExtendIter,
    Bulk::RawExtendIter,
    Bulk::MapExtendStream,
    Bulk::SetExtendStream,
    Bulk::RawExtendStream,
];

impl Bulk {
    fn is_map(self) -> bool {
        !matches!(self, Bulk::SetFromIter | Bulk::FstFromIterSet | Bulk::SetExtendIter | Bulk::SetExtendStream)
    }
}

/// Feeds the history as one bulk call. Expected: the error of the first
/// rejected item (or Ok), and - for extend_* - that the builder continues with
/// exactly the items accepted before it.
pub fn run_bulk(bulk: Bulk, h: &[Kv]) -> Result<(), String> {
    run_bulk_then(bulk, h, None)
}

/// As `run_bulk`; for the extend_* entry points `next` is one further insert
/// made after the bulk call returned (Ok or Err): its verdict must be what
/// the reference builder says after the items accepted so far.
pub fn run_bulk_then(bulk: Bulk, h: &[Kv], next: Option<&Kv>) -> Result<(), String> {
    guard(|| {
        let mut m = RefBuilder::default();
        let mut want = Verdict::Ok;
        for (k, v) in h {
            let r = m.call(bulk.is_map(), k, *v);
            if r != Verdict::Ok {
                want = r;
                break;
            }
        }
        // how many items of the caller's iterator a bulk call may take: all of them, or
        // everything up to AND INCLUDING the first rejected item ("stop at the first
        // rejected item": a caller that resumes the iterator must find the next item)
        let take_want: usize = {
            let mut mm = RefBuilder::default();
            let mut n = h.len();
            for (i, (k, v)) in h.iter().enumerate() {
                if mm.call(bulk.is_map(), k, *v) != Verdict::Ok {
                    n = i + 1;
                    break;
                }
            }
            n
        };
        let taken = std::cell::Cell::new(usize::MAX);
        // the optional further call, judged by the reference builder
        let next_want: Option<Verdict> = next.map(|(k, v)| m.call(bulk.is_map(), k, *v));
        let do_next = |r: fst::Result<()>| -> Result<(), String> {
            let got = classify(&r)?;
            let want = next_want.clone().unwrap();
            if got != want {
                return Err(format!("{:?} then insert({}): returned {:?}, the reference builder says {:?}", bulk, key_str(&next.unwrap().0), got, want));
            }
            Ok(())
        };
        // greater than every key of both alphabets
        let tail: Kv = (vec![0xff, 0xff, 0xff], if bulk.is_map() { 9 } else { 0 });
        let (got, content): (Verdict, Option<Vec<Kv>>) = match bulk {
            Bulk::MapFromIter => match Map::from_iter(h.iter().map(|(k, v)| (k, *v))) {
                Ok(mp) => (Verdict::Ok, Some(mp.stream().into_byte_vec())),
                Err(e) => (classify(&Err(e))?, None),
            },
            Bulk::SetFromIter => match Set::from_iter(h.iter().map(|(k, _)| k)) {
                Ok(s) => (Verdict::Ok, Some(s.stream().into_bytes().into_iter().map(|k| (k, 0)).collect())),
                Err(e) => (classify(&Err(e))?, None),
            },
            Bulk::FstFromIterMap => match raw::Fst::from_iter_map(h.iter().map(|(k, v)| (k, *v))) {
                Ok(f) => (Verdict::Ok, Some(f.stream().into_byte_vec())),
                Err(e) => (classify(&Err(e))?, None),
            },
            Bulk::FstFromIterSet => match raw::Fst::from_iter_set(h.iter().map(|(k, _)| k)) {
                Ok(f) => (Verdict::Ok, Some(f.stream().into_byte_vec())),
                Err(e) => (classify(&Err(e))?, None),
            },
            Bulk::MapExtendIter | Bulk::MapExtendStream => {
                let mut b = MapBuilder::new(vec![]).unwrap();
                let r = if bulk == Bulk::MapExtendIter {
                    {
                        let mut it = h.iter().map(|(k, v)| (k, *v));
                        let r = b.extend_iter(it.by_ref());
                        taken.set(h.len() - it.len());
                        r
                    }
                } else {
                    b.extend_stream(VecStreamU64::new(h))
                };
                let v = classify(&r)?;
                if let Some((k, val)) = next {
                    do_next(b.insert(k, *val))?;
                }
                b.insert(&tail.0, tail.1).map_err(|e| format!("insert after bulk call failed: {:?}", e))?;
                let bytes = b.into_inner().map_err(|e| format!("{:?}", e))?;
                (v, Some(front::read_raw(&bytes)?))
            }
            Bulk::SetExtendIter | Bulk::SetExtendStream => {
                let mut b = SetBuilder::new(vec![]).unwrap();
                let r = if bulk == Bulk::SetExtendIter {
                    {
                        let mut it = h.iter().map(|(k, _)| k);
                        let r = b.extend_iter(it.by_ref());
                        taken.set(h.len() - it.len());
                        r
                    }
                } else {
                    b.extend_stream(VecStreamKeys::new(h))
                };
                let v = classify(&r)?;
                if let Some((k, _)) = next {
                    do_next(b.insert(k))?;
                }
                b.insert(&tail.0).map_err(|e| format!("insert after bulk call failed: {:?}", e))?;
                let bytes = b.into_inner().map_err(|e| format!("{:?}", e))?;
                (v, Some(front::read_raw(&bytes)?))
            }
            Bulk::RawExtendIter | Bulk::RawExtendStream => {
                let mut b = raw::Builder::verif_new_with_registry(vec![], 0, 2, 2).unwrap();
                let r = if bulk == Bulk::RawExtendIter {
                    {
                        let mut it = h.iter().map(|(k, v)| (k, Output::new(*v)));
                        let r = b.extend_iter(it.by_ref());
                        taken.set(h.len() - it.len());
                        r
                    }
                } else {
                    b.extend_stream(VecStream::new(h))
                };
                let v = classify(&r)?;
                if let Some((k, val)) = next {
                    do_next(b.insert(k, *val))?;
                }
                b.insert(&tail.0, tail.1).map_err(|e| format!("insert after bulk call failed: {:?}", e))?;
                let bytes = b.into_inner().map_err(|e| format!("{:?}", e))?;
                (v, Some(front::read_raw(&bytes)?))
            }
        };
        if got != want {
            return Err(format!("{:?} returned {:?}, first rejected item gives {:?}", bulk, got, want));
        }
        if taken.get() != usize::MAX && taken.get() != take_want {
            return Err(format!("{:?} took {} items from the caller's iterator; it must stop at the first rejected item, i.e. after {} of the {} items", bulk, taken.get(), take_want, h.len()));
        }
        let is_extend = matches!(
            bulk,
            Bulk::MapExtendIter | Bulk::MapExtendStream | Bulk::SetExtendIter | Bulk::SetExtendStream | Bulk::RawExtendIter | Bulk::RawExtendStream
        );
        let mut wc = m.content.clone();
        if is_extend {
            wc.push(tail);
        }
        if let Some(c) = content {
            if c != wc {
                return Err(format!("{:?}: content {} expected {}", bulk, kvs_str(&c), kvs_str(&wc)));
            }
        }
        Ok(())
    })
    .and_then(|x| x)
}

/// The first `split` calls of the history as single inserts (each judged by
/// the reference builder), the rest as ONE bulk call on the same, already
/// populated builder - twice in a row for the empty remainder -, then a valid
/// insert and finish.
pub fn run_inserts_then_bulk(bulk: Bulk, h: &[Kv], split: usize) -> Result<(), String> {
    run_inserts_then_bulk_then(bulk, h, split, None)
}

/// ... and, with `next`, one further single insert after the bulk call (a key the
/// builder saw BEFORE the bulk call must be judged against what the bulk call
/// accepted since).
pub fn run_inserts_then_bulk_then(bulk: Bulk, h: &[Kv], split: usize, next: Option<&Kv>) -> Result<(), String> {
    guard(|| {
        let is_map = bulk.is_map();
        let mut m = RefBuilder::default();
        let kind = match bulk {
            Bulk::MapExtendIter | Bulk::MapExtendStream => BKind::Map,
            Bulk::SetExtendIter | Bulk::SetExtendStream => BKind::Set,
            _ => BKind::RawInsert,
        };
        let mut b = new_builder(kind);
        for (i, (k, v)) in h[..split].iter().enumerate() {
            let want = m.call(is_map, k, *v);
            let got = classify(&call(&mut b, kind, k, *v))?;
            if got != want {
                return Err(format!("call {} ({}:{}) returned {:?}, model says {:?}", i, key_str(k), v, got, want));
            }
        }
        let rest = &h[split..];
        let mut want = Verdict::Ok;
        for (k, v) in rest {
            let r = m.call(is_map, k, *v);
            if r != Verdict::Ok {
                want = r;
                break;
            }
        }
        let r = match (&mut b, bulk) {
            (AnyB::Map(b), Bulk::MapExtendIter) => b.extend_iter(rest.iter().map(|(k, v)| (k, *v))),
            (AnyB::Map(b), _) => b.extend_stream(VecStreamU64::new(rest)),
            (AnyB::Set(b), Bulk::SetExtendIter) => b.extend_iter(rest.iter().map(|(k, _)| k)),
            (AnyB::Set(b), _) => b.extend_stream(VecStreamKeys::new(rest)),
            (AnyB::Raw(b), Bulk::RawExtendIter) => b.extend_iter(rest.iter().map(|(k, v)| (k, Output::new(*v)))),
            (AnyB::Raw(b), _) => b.extend_stream(VecStream::new(rest)),
        };
        let got = classify(&r)?;
        if got != want {
            return Err(format!("{} single inserts, then {:?} of the remaining {} items returned {:?}, the reference builder says {:?}", split, bulk, rest.len(), got, want));
        }
        if let Some((k, v)) = next {
            let want = m.call(is_map, k, *v);
            let got = classify(&call(&mut b, kind, k, *v))?;
            if got != want {
                return Err(format!("{} single inserts, then {:?} of the remaining {} items, then insert({}): returned {:?}, the reference builder says {:?}", split, bulk, rest.len(), key_str(k), got, want));
            }
        }
        let tail: Kv = (vec![0xff, 0xff, 0xff], if is_map { 9 } else { 0 });
        call(&mut b, kind, &tail.0, tail.1).map_err(|e| format!("insert after the bulk call failed: {:?}", e))?;
        let bytes = finish(b).map_err(|e| format!("finish failed: {:?}", e))?;
        let mut wc = m.content.clone();
        wc.push(tail);
        let c = front::read_raw(&bytes)?;
        if c != wc {
            return Err(format!("{} single inserts then {:?}: content {} expected {}", split, bulk, kvs_str(&c), kvs_str(&wc)));
        }
        Ok(())
    })
    .and_then(|x| x)
}

fn hist_json(h: &[Kv]) -> Value {
    Value::Array(h.iter().map(|(k, v)| json!([hex(k), v])).collect())
}

pub fn replay(case: &Value) -> Result<String, String> {
    let h: Vec<Kv> = case["history"].as_array().unwrap().iter().map(|e| (unhex(e[0].as_str().unwrap()), e[1].as_u64().unwrap())).collect();
    let name = case["target"].as_str().unwrap();
    if let Some(k) = BKINDS.iter().find(|k| format!("{:?}", k) == name) {
        run_history(*k, &h).map(|_| "history agrees with the model".into())
    } else {
        let b = BULKS.iter().find(|k| format!("{:?}", k) == name).unwrap();
        let next: Option<Kv> = case.get("next").filter(|n| !n.is_null()).map(|n| (unhex(n[0].as_str().unwrap()), n[1].as_u64().unwrap()));
        if let Some(sp) = case.get("split").and_then(|x| x.as_u64()) {
            return run_inserts_then_bulk_then(*b, &h, sp as usize, next.as_ref()).map(|_| "inserts then bulk call agree with the model".into());
        }
        run_bulk_then(*b, &h, next.as_ref()).map(|_| "bulk call agrees with the model".into())
    }
}

pub fn plan(tier: Tier) -> Plan {
    let mut p = Plan::new("C06", "model_checking");
    let thorough = tier.thorough();
    let keys: Vec<Key> = if thorough {
        vec![b"".to_vec(), b"a".to_vec(), b"a\0".to_vec(), b"aa".to_vec(), b"ab".to_vec(), b"b".to_vec(), b"b\xff".to_vec(), vec![0xff]]
    } else {
        vec![b"".to_vec(), b"a".to_vec(), b"a\0".to_vec(), b"ab".to_vec(), b"b".to_vec()]
    };
    p.rule = format!("every call history (valid, duplicate, smaller and empty keys at every position) of length <= depth over insert(k[,v]), k in {} keys, v in {{0,5}} for maps, on MapBuilder, SetBuilder, raw::Builder(insert only / add only); after EVERY prefix the builder is finished on a replayed copy and read back; each call result (variant and payload) and the content are compared with a reference builder, and the finished bytes with those of a builder of the same kind that only saw the accepted calls; the same histories go through from_iter / extend_iter / extend_stream (extend_iter over a borrowed iterator: exactly the items up to and including the first rejected one are taken) (followed, for histories of length 2..4, by one further insert of every key of the alphabet, judged by the reference builder, and a final valid insert; and, for histories of length <= 4, split at every point into single inserts followed by one bulk call on the populated builder, followed in turn - for histories of length <= 3 - by one further insert of every key of the alphabet). non-trivial = histories containing at least one rejected call", keys.len());
    p.assumptions = vec!["mixing add and insert on one raw builder is outside the property".into()];
    let alphabet_map: Vec<Kv> = keys.iter().flat_map(|k| [(k.clone(), 0u64), (k.clone(), 5u64)]).collect();
    let alphabet_set: Vec<Kv> = keys.iter().map(|k| (k.clone(), 0u64)).collect();
    let depth_map = if thorough { 5 } else { 4 };
    let depth_set = if thorough { 7 } else { 5 };
    p.extra.insert("depth_map_builders".into(), json!(depth_map));
    p.extra.insert("depth_set_builders".into(), json!(depth_set));
    p.extra.insert("keys".into(), keys_json(&keys));
    for (is_map, alphabet, depth) in [(true, alphabet_map, depth_map), (false, alphabet_set, depth_set)] {
        // one unit per first two calls
        let firsts: Vec<Vec<Kv>> = {
            let mut v = vec![vec![]];
            for a in &alphabet {
                v.push(vec![a.clone()]);
                for b in &alphabet {
                    v.push(vec![a.clone(), b.clone()]);
                }
            }
            v
        };
        for pre in firsts {
            let alphabet = alphabet.clone();
            p.units.push(unit(
                if is_map { "map-histories" } else { "set-histories" },
                format!("{} prefix [{}]", if is_map { "map" } else { "set" }, hist_str(&pre)),
                move |st, rep| {
                    // DFS below `pre` (prefixes shorter than 2 are their own units, not extended)
                    let mut stack: Vec<Vec<Kv>> = vec![pre.clone()];
                    while let Some(h) = stack.pop() {
                        if rep.stopped() {
                            return;
                        }
                        // evaluate node h
                        let mut m = RefBuilder::default();
                        let rejected = h.iter().any(|(k, v)| m.call(is_map, k, *v) != Verdict::Ok);
                        st.nontrivial += rejected as u64;
                        if h.len() == 3 {
                            st.sample(|| json!({"history": hist_str(&h), "accepted": kvs_str(&m.content)}));
                        }
                        let kinds: &[BKind] = if is_map { &[BKind::Map, BKind::RawInsert] } else { &[BKind::Set, BKind::RawAdd] };
                        for &kind in kinds {
                            st.states += 1;
                            st.transitions += h.len() as u64 + 1;
                            st.evals += 1;
                            if let Err(msg) = run_history(kind, &h) {
                                rep.violation(format!("{:?} [{}]", kind, hist_str(&h)), msg, json!({"target": format!("{:?}", kind), "history": hist_json(&h)}));
                            }
                        }
                        for bulk in BULKS {
                            if bulk.is_map() != is_map {
                                continue;
                            }
                            st.states += 1;
                            st.transitions += 1;
                            st.evals += 1;
                            st.count("bulk_calls", 1);
                            if let Err(msg) = run_bulk(bulk, &h) {
                                rep.violation(format!("{:?} [{}]", bulk, hist_str(&h)), msg, json!({"target": format!("{:?}", bulk), "history": hist_json(&h)}));
                            }
                            // the history split at every point: single inserts, then one bulk call on the populated builder
                            if matches!(bulk, Bulk::MapExtendIter | Bulk::MapExtendStream | Bulk::SetExtendIter | Bulk::SetExtendStream | Bulk::RawExtendIter | Bulk::RawExtendStream) && h.len() <= 4 {
                                for split in 1..=h.len() {
                                    st.states += 1;
                                    st.evals += 1;
                                    st.count("inserts_then_bulk_calls", 1);
                                    if let Err(msg) = run_inserts_then_bulk(bulk, &h, split) {
                                        rep.violation(format!("{:?} [{}] split {}", bulk, hist_str(&h), split), msg, json!({"target": format!("{:?}", bulk), "history": hist_json(&h), "split": split}));
                                    }
                                    // ... then one further insert of every key of the alphabet
                                    if h.len() <= 3 {
                                        for a in alphabet.iter() {
                                            st.states += 1;
                                            st.evals += 1;
                                            st.count("inserts_then_bulk_then_insert_calls", 1);
                                            if let Err(msg) = run_inserts_then_bulk_then(bulk, &h, split, Some(a)) {
                                                rep.violation(format!("{:?} [{}] split {} then {}", bulk, hist_str(&h), split, key_str(&a.0)), msg, json!({"target": format!("{:?}", bulk), "history": hist_json(&h), "split": split, "next": [hex(&a.0), a.1]}));
                                            }
                                        }
                                    }
                                }
                            }
                            // one further insert after the bulk call, for every key of the alphabet
                            if matches!(bulk, Bulk::MapExtendIter | Bulk::MapExtendStream | Bulk::SetExtendIter | Bulk::SetExtendStream | Bulk::RawExtendIter | Bulk::RawExtendStream) && h.len() >= 2 && h.len() <= 4 {
                                for a in alphabet.iter() {
                                    st.states += 1;
                                    st.transitions += 2;
                                    st.evals += 1;
                                    st.count("bulk_then_insert_calls", 1);
                                    if let Err(msg) = run_bulk_then(bulk, &h, Some(a)) {
                                        rep.violation(format!("{:?} [{}] then {}", bulk, hist_str(&h), key_str(&a.0)), msg, json!({"target": format!("{:?}", bulk), "history": hist_json(&h), "next": [hex(&a.0), a.1]}));
                                    }
                                }
                            }
                        }
                        if h.len() >= 2 && h.len() < depth || (h.len() == pre.len() && pre.len() >= 2 && h.len() < depth) {
                            for a in alphabet.iter().rev() {
                                let mut h2 = h.clone();
                                h2.push(a.clone());
                                stack.push(h2);
                            }
                        }
                    }
                },
            ));
        }
    }
    // histories over an alphabet with a LONG key (2000 bytes), its short
    // prefixes and neighbours: buffers that grow and are reused
    {
        let long: Key = vec![b'm'; 2000];
        let mut longa = long.clone();
        longa.push(b'a');
        let keys: Vec<Key> = vec![b"".to_vec(), b"m".to_vec(), b"ma".to_vec(), b"mm".to_vec(), long.clone(), longa, b"n".to_vec()];
        for is_map in [true, false] {
            let alphabet: Vec<Kv> = keys.iter().map(|k| (k.clone(), if is_map { 5 } else { 0 })).collect();
            for first in 0..alphabet.len() {
                let alphabet = alphabet.clone();
                p.units.push(unit("long-key-alphabet-histories-depth<=4", format!("long keys {} first {}", if is_map { "map" } else { "set" }, first), move |st, rep| {
                    let n = alphabet.len();
                    for code in 0..(n * n * n) {
                        for len in 1..=4usize {
                            if len < 4 && code >= n.pow(len as u32 - 1) {
                                continue;
                            }
                            let mut h: Vec<Kv> = vec![alphabet[first].clone()];
                            let mut c = code;
                            for _ in 1..len {
                                h.push(alphabet[c % n].clone());
                                c /= n;
                            }
                            let kinds: &[BKind] = if is_map { &[BKind::Map, BKind::RawInsert] } else { &[BKind::Set, BKind::RawAdd] };
                            for &kind in kinds {
                                st.states += 1;
                                st.evals += 1;
                                st.transitions += h.len() as u64 + 1;
                                st.count("long_key_histories", 1);
                                if let Err(msg) = run_history(kind, &h) {
                                    let short = |h: &[Kv]| h.iter().map(|(k, _)| if k.len() > 8 { format!("m*{}{}", k.iter().filter(|&&b| b == b'm').count(), if k.last() == Some(&b'a') { "a" } else { "" }) } else { key_str(k) }).collect::<Vec<_>>().join(" ");
                                    rep.violation(format!("{:?} [{}]", kind, short(&h)), msg, json!({"target": format!("{:?}", kind), "history": hist_json(&h)}));
                                }
                            }
                        }
                    }
                }));
            }
        }
    }
    p.must_be_nonzero = vec!["bulk_calls".into(), "long_key_histories".into(), "inserts_then_bulk_calls".into()];
    p
}
