//! C04 - automaton search returns exactly the accepted in-range keys, with
//! states (SEQ engine).

use std::sync::Arc;

use fst::automaton::{AlwaysMatch, Levenshtein, Str, Subsequence};
use fst::raw::Fst;
use fst::{Automaton, IntoStreamer, Map, Set, Streamer};
use serde_json::{json, Value};

use super::c03::{apply_bounds, drain, HIS, LOS};
use super::util::*;
use crate::dfa::{all_dfas, ClassFn, TableDfa};
use crate::ev::{guard, unit, Plan, Reporter, Stats, Tier};
use crate::front::{self, Front, Geom};
use crate::model::*;

fn bound_set(raw: bool, maxlen: usize) -> Vec<Key> {
    let alpha: Vec<u8> = if raw { vec![0x00, 0x7f, 0x80, 0xff] } else { vec![b'`', b'a', b'b', b'c'] };
    strings_over(&alpha, maxlen)
}

fn drain_states<'f, A: Automaton>(
    mut s: fst::raw::StreamWithState<'f, A>,
) -> Result<Vec<(Key, u64, A::State)>, String>
where
    A::State: Clone,
{
    let mut out = vec![];
    while let Some((k, v, st)) = s.next() {
        out.push((k.to_vec(), v.value(), st));
        if out.len() > 100_000 {
            return Err("stream does not end".into());
        }
    }
    if s.next().is_some() {
        return Err("stream yielded an item after it had ended".into());
    }
    Ok(out)
}

/// All bounds x all given table automata on one FST.
pub fn run_case(
    kvs: &[Kv],
    geom: Geom,
    auts: &[TableDfa],
    bmax: usize,
    wrappers: bool,
) -> Result<u64, String> {
    let bytes = front::build(Front::RawInsert, geom, kvs)?;
    guard(|| {
        let f = Fst::new(&bytes[..]).map_err(|e| format!("{:?}", e))?;
        let raw = kvs.iter().any(|(k, _)| k.iter().any(|&b| b == 0 || b >= 0x7f));
        let bk = bound_set(raw, bmax);
        let empty: Vec<u8> = vec![];
        let mut n = 0u64;
        for aut in auts {
            let accepted: Vec<(Key, u64, usize)> = kvs
                .iter()
                .filter(|(k, _)| aut.accepts(k))
                .map(|(k, v)| (k.clone(), *v, aut.run(k)))
                .collect();
            for lo in LOS {
                let loks: &[Key] = if lo == Lo::None { std::slice::from_ref(&empty) } else { &bk };
                for lok in loks {
                    for hi in HIS {
                        let hiks: &[Key] = if hi == Hi::None { std::slice::from_ref(&empty) } else { &bk };
                        for hik in hiks {
                            let want: Vec<&(Key, u64, usize)> = accepted
                                .iter()
                                .filter(|(k, _, _)| in_range(k, lo, lok, hi, hik))
                                .collect();
                            let got = drain(apply_bounds(f.search(aut), lo, lok, hi, hik).into_stream())?;
                            crate::ev::obs(crate::ev::hash_kvs(&got));
                            n += 1;
                            let same = got.len() == want.len()
                                && got.iter().zip(&want).all(|(g, w)| g.0 == w.0 && g.1 == w.1);
                            if !same {
                                return Err(format!(
                                    "search {} with {:?}({}) {:?}({}) gave {} expected {:?}",
                                    aut.describe(), lo, key_str(lok), hi, key_str(hik),
                                    kvs_str(&got), want
                                ));
                            }
                            // with states
                            let mut b = f.search_with_state(aut);
                            b = match lo { Lo::None => b, Lo::Ge => b.ge(lok), Lo::Gt => b.gt(lok) };
                            b = match hi { Hi::None => b, Hi::Le => b.le(hik), Hi::Lt => b.lt(hik) };
                            let got = drain_states(b.into_stream())?;
                            n += 1;
                            let same = got.len() == want.len()
                                && got.iter().zip(&want).all(|(g, w)| g.0 == w.0 && g.1 == w.1 && g.2 == w.2);
                            if !same {
                                return Err(format!(
                                    "search_with_state {} with {:?}({}) {:?}({}) gave {:?} expected {:?}",
                                    aut.describe(), lo, key_str(lok), hi, key_str(hik), got, want
                                ));
                            }
                        }
                    }
                }
            }
            // bounds set in the other order, and set twice (the last setting wins)
            {
                let small: Vec<&Key> = bk.iter().filter(|k| k.len() <= 1).collect();
                let keep = |lo: Option<(bool, &[u8])>, hi: Option<(bool, &[u8])>| -> Vec<(Key, u64, usize)> {
                    accepted
                        .iter()
                        .filter(|(k, _, _)| {
                            lo.map_or(true, |(inc, b)| if inc { &k[..] >= b } else { &k[..] > b }) && hi.map_or(true, |(inc, b)| if inc { &k[..] <= b } else { &k[..] < b })
                        })
                        .cloned()
                        .collect()
                };
                for k1 in &small {
                    for k2 in &small {
                        let cases: Vec<(&str, fst::raw::StreamBuilder<'_, &TableDfa>, fst::raw::StreamWithStateBuilder<'_, &TableDfa>, Vec<(Key, u64, usize)>)> = vec![
                            ("le(k1).ge(k2)", f.search(aut).le(k1).ge(k2), f.search_with_state(aut).le(k1).ge(k2), keep(Some((true, k2)), Some((true, k1)))),
                            ("lt(k1).gt(k2)", f.search(aut).lt(k1).gt(k2), f.search_with_state(aut).lt(k1).gt(k2), keep(Some((false, k2)), Some((false, k1)))),
                            ("ge(k1).ge(k2)", f.search(aut).ge(k1).ge(k2), f.search_with_state(aut).ge(k1).ge(k2), keep(Some((true, k2)), None)),
                            ("gt(k1).gt(k2)", f.search(aut).gt(k1).gt(k2), f.search_with_state(aut).gt(k1).gt(k2), keep(Some((false, k2)), None)),
                            ("le(k1).le(k2)", f.search(aut).le(k1).le(k2), f.search_with_state(aut).le(k1).le(k2), keep(None, Some((true, k2)))),
                            ("lt(k1).lt(k2)", f.search(aut).lt(k1).lt(k2), f.search_with_state(aut).lt(k1).lt(k2), keep(None, Some((false, k2)))),
                            ("ge(k1).gt(k2)", f.search(aut).ge(k1).gt(k2), f.search_with_state(aut).ge(k1).gt(k2), keep(Some((false, k2)), None)),
                            ("gt(k1).ge(k2)", f.search(aut).gt(k1).ge(k2), f.search_with_state(aut).gt(k1).ge(k2), keep(Some((true, k2)), None)),
                            ("le(k1).lt(k2)", f.search(aut).le(k1).lt(k2), f.search_with_state(aut).le(k1).lt(k2), keep(None, Some((false, k2)))),
                            ("lt(k1).le(k2)", f.search(aut).lt(k1).le(k2), f.search_with_state(aut).lt(k1).le(k2), keep(None, Some((true, k2)))),
                            ("ge(k1).le(k2).ge(k1)", f.search(aut).ge(k1).le(k2).ge(k1), f.search_with_state(aut).ge(k1).le(k2).ge(k1), keep(Some((true, k1)), Some((true, k2)))),
                        ];
                        for (name, sb, wb, want) in cases {
                            let got = drain(sb.into_stream())?;
                            let gotw = drain_states(wb.into_stream())?;
                            n += 2;
                            let same = got.len() == want.len() && got.iter().zip(&want).all(|(g, w)| g.0 == w.0 && g.1 == w.1);
                            let samew = gotw.len() == want.len() && gotw.iter().zip(&want).all(|(g, w)| g.0 == w.0 && g.1 == w.1 && g.2 == w.2);
                            if !same || !samew {
                                return Err(format!("search/search_with_state {} .{} with k1={} k2={} gave {} / {:?} expected {:?}", aut.describe(), name, key_str(k1), key_str(k2), kvs_str(&got), gotw, want));
                            }
                        }
                    }
                }
            }
            if wrappers {
                let m = Map::new(&bytes[..]).map_err(|e| format!("{:?}", e))?;
                let s = Set::new(&bytes[..]).map_err(|e| format!("{:?}", e))?;
                let got = m.search(aut).into_stream().into_byte_vec();
                let want: Vec<Kv> = accepted.iter().map(|x| (x.0.clone(), x.1)).collect();
                let gots = s.search(aut).into_stream().into_bytes();
                let mut gs = vec![];
                let mut st = m.search_with_state(aut).ge(b"a").into_stream();
                while let Some((k, v, q)) = st.next() {
                    gs.push((k.to_vec(), v, q));
                }
                let mut gss = vec![];
                let mut st = s.search_with_state(aut).lt(b"b").into_stream();
                while let Some((k, q)) = st.next() {
                    gss.push((k.to_vec(), q));
                }
                n += 4;
                let want_ge: Vec<(Key, u64, usize)> =
                    accepted.iter().filter(|x| x.0.as_slice() >= &b"a"[..]).cloned().collect();
                let want_lt: Vec<(Key, usize)> = accepted
                    .iter()
                    .filter(|x| x.0.as_slice() < &b"b"[..])
                    .map(|x| (x.0.clone(), x.2))
                    .collect();
                if got != want
                    || gots != want.iter().map(|x| x.0.clone()).collect::<Vec<_>>()
                    || gs != want_ge
                    || gss != want_lt
                {
                    return Err(format!("Map/Set search wrappers differ for {}", aut.describe()));
                }
            }
        }
        Ok(n)
    })
    .and_then(|x| x)
}

/// Shipped automata, checked against their specification functions.
fn run_shipped(kvs: &[Kv]) -> Result<u64, String> {
    let bytes = front::build(Front::RawInsert, (3, 3), kvs)?;
    guard(|| {
        let f = Fst::new(&bytes[..]).map_err(|e| format!("{:?}", e))?;
        let mut n = 0;
        fn subseq(p: &[u8], k: &[u8]) -> bool {
            let mut i = 0;
            for &b in k {
                if i < p.len() && p[i] == b {
                    i += 1;
                }
            }
            i == p.len()
        }
        fn lev(a: &str, b: &str) -> usize {
            let a: Vec<char> = a.chars().collect();
            let b: Vec<char> = b.chars().collect();
            let mut prev: Vec<usize> = (0..=b.len()).collect();
            for i in 1..=a.len() {
                let mut cur = vec![i];
                for j in 1..=b.len() {
                    let c = if a[i - 1] == b[j - 1] { 0 } else { 1 };
                    cur.push((prev[j] + 1).min(cur[j - 1] + 1).min(prev[j - 1] + c));
                }
                prev = cur;
            }
            prev[b.len()]
        }
        let bk = bound_set(false, 1);
        let mut check = |name: &str, got: Vec<Kv>, pred: &dyn Fn(&[u8]) -> bool, lo: Lo, lok: &[u8], hi: Hi, hik: &[u8]| -> Result<(), String> {
            let want: Vec<Kv> = kvs.iter().filter(|(k, _)| pred(k) && in_range(k, lo, lok, hi, hik)).cloned().collect();
            n += 1;
            if got != want {
                return Err(format!("search {} {:?}({}) {:?}({}) gave {} expected {}", name, lo, key_str(lok), hi, key_str(hik), kvs_str(&got), kvs_str(&want)));
            }
            Ok(())
        };
        for lo in LOS {
            for lok in &bk {
                if lo == Lo::None && !lok.is_empty() { continue; }
                for hi in HIS {
                    for hik in &bk {
                        if hi == Hi::None && !hik.is_empty() { continue; }
                        macro_rules! go {
                            ($name:expr, $aut:expr, $pred:expr) => {{
                                let got = drain(apply_bounds(f.search($aut), lo, lok, hi, hik).into_stream())?;
                                check($name, got, &$pred, lo, lok, hi, hik)?;
                            }};
                        }
                        go!("AlwaysMatch", AlwaysMatch, |_k: &[u8]| true);
                        for s in ["", "a", "ab", "ba", "abb"] {
                            go!(&format!("Str({})", s), Str::new(s), |k: &[u8]| k == s.as_bytes());
                            go!(&format!("Str({}).starts_with", s), Str::new(s).starts_with(), |k: &[u8]| k.starts_with(s.as_bytes()));
                            go!(&format!("Str({}).complement", s), Str::new(s).complement(), |k: &[u8]| k != s.as_bytes());
                            go!(&format!("Subsequence({})", s), Subsequence::new(s), |k: &[u8]| subseq(s.as_bytes(), k));
                            go!(&format!("Subsequence({}).complement", s), Subsequence::new(s).complement(), |k: &[u8]| !subseq(s.as_bytes(), k));
                            go!(&format!("Str({}) | Subsequence(b)", s), Str::new(s).union(Subsequence::new("b")), |k: &[u8]| k == s.as_bytes() || subseq(b"b", k));
                            go!(&format!("Str({}).starts_with & Subsequence(bb)", s), Str::new(s).starts_with().intersection(Subsequence::new("bb")), |k: &[u8]| k.starts_with(s.as_bytes()) && subseq(b"bb", k));
                        }
                        for (q, d) in [("", 0), ("", 1), ("a", 0), ("ab", 1), ("bab", 2), ("b", 1)] {
                            let l = Levenshtein::new(q, d).map_err(|e| format!("{:?}", e))?;
                            go!(&format!("Levenshtein({},{})", q, d), &l, |k: &[u8]| lev(q, std::str::from_utf8(k).unwrap()) <= d as usize);
                        }
                    }
                }
            }
        }
        Ok(n)
    })
    .and_then(|x| x)
}

/// regex-automata 0.1 dense DFAs (the crate implements fst::Automaton).
fn run_regex(kvs: &[Kv]) -> Result<u64, String> {
    let bytes = front::build(Front::RawInsert, (3, 3), kvs)?;
    guard(|| {
        let f = Fst::new(&bytes[..]).map_err(|e| format!("{:?}", e))?;
        let mut n = 0;
        // (pattern, oracle)
        let pats: Vec<(&str, Box<dyn Fn(&[u8]) -> bool>)> = vec![
            ("a*", Box::new(|k: &[u8]| k.iter().all(|&b| b == b'a'))),
            ("a+b?", Box::new(|k: &[u8]| {
                let na = k.iter().take_while(|&&b| b == b'a').count();
                na >= 1 && (k.len() == na || (k.len() == na + 1 && k[na] == b'b'))
            })),
            ("(ab|ba)*", Box::new(|k: &[u8]| k.len() % 2 == 0 && k.chunks(2).all(|c| c == b"ab" || c == b"ba"))),
            ("[ab]b[ab]*", Box::new(|k: &[u8]| k.len() >= 2 && k[1] == b'b' && k.iter().all(|&b| b == b'a' || b == b'b'))),
            ("", Box::new(|k: &[u8]| k.is_empty())),
            (".*b", Box::new(|k: &[u8]| k.last() == Some(&b'b') && std::str::from_utf8(k).is_ok())),
        ];
        let bk = bound_set(false, 1);
        for (pat, oracle) in &pats {
            let dfa = regex_automata::dense::Builder::new()
                .anchored(true)
                .build(pat)
                .map_err(|e| format!("regex build {}: {:?}", pat, e))?;
            for lo in LOS {
                for lok in &bk {
                    if lo == Lo::None && !lok.is_empty() { continue; }
                    for hi in HIS {
                        for hik in &bk {
                            if hi == Hi::None && !hik.is_empty() { continue; }
                            let got = drain(apply_bounds(f.search(&dfa), lo, lok, hi, hik).into_stream())?;
                            let want: Vec<Kv> = kvs.iter().filter(|(k, _)| oracle(k) && in_range(k, lo, lok, hi, hik)).cloned().collect();
                            n += 1;
                            if got != want {
                                return Err(format!("regex {:?} {:?}({}) {:?}({}) gave {} expected {}", pat, lo, key_str(lok), hi, key_str(hik), kvs_str(&got), kvs_str(&want)));
                            }
                        }
                    }
                }
            }
        }
        Ok(n)
    })
    .and_then(|x| x)
}

/// Every composition of depth <= 2 of the shipped automata (built from the
/// real combinator types), searched with bounds; oracle = the explicit
/// product DFA of the same expression (C18's specification).
fn run_compositions(kvs: &[Kv], part: usize, parts: usize) -> Result<u64, String> {
    use super::c18::{exprs_depth2, leaves_full, real, spec};
    let bytes = front::build(Front::RawInsert, (3, 3), kvs)?;
    guard(|| {
        let f = Fst::new(&bytes[..]).map_err(|e| format!("{:?}", e))?;
        let leaves = leaves_full();
        let idx: Vec<usize> = (0..9).collect(); // AlwaysMatch, 4 x Str, 4 x Subsequence
        let exprs = exprs_depth2(&idx);
        let bk = bound_set(false, 1);
        let mut n = 0;
        for (xi, e) in exprs.iter().enumerate() {
            if xi % parts != part {
                continue;
            }
            let sp = spec(e, &leaves);
            let accepted: Vec<Kv> = kvs.iter().filter(|(k, _)| sp.accepts(k)).cloned().collect();
            for lo in LOS {
                for lok in &bk {
                    if lo == Lo::None && !lok.is_empty() { continue; }
                    for hi in HIS {
                        for hik in &bk {
                            if hi == Hi::None && !hik.is_empty() { continue; }
                            let got = drain(apply_bounds(f.search(real(e, &leaves)), lo, lok, hi, hik).into_stream())?;
                            let want: Vec<Kv> = accepted.iter().filter(|(k, _)| in_range(k, lo, lok, hi, hik)).cloned().collect();
                            n += 1;
                            if got != want {
                                return Err(format!("search {} with {:?}({}) {:?}({}) gave {} expected {}", e.show(&leaves), lo, key_str(lok), hi, key_str(hik), kvs_str(&got), kvs_str(&want)));
                            }
                            if lok.is_empty() && hik.is_empty() {
                                // the same expression with every operand borrowed (impl Automaton for &T)
                                let r = super::c18::real_ref(e, &leaves);
                                let got = drain(apply_bounds(f.search(r.aut()), lo, lok, hi, hik).into_stream())?;
                                n += 1;
                                if got != want {
                                    return Err(format!("search {} [operands by reference] with {:?}({}) {:?}({}) gave {} expected {}", e.show(&leaves), lo, key_str(lok), hi, key_str(hik), kvs_str(&got), kvs_str(&want)));
                                }
                                // ONE automaton object shared by two searches that are alive at the
                                // same time and advanced alternately, the second one bounded
                                if lo == Lo::None && hi == Hi::None {
                                    let a = r.aut();
                                    let mut s1 = f.search(&a).into_stream();
                                    let mut s2 = f.search(&a).ge("a").into_stream();
                                    let (mut g1, mut g2): (Vec<Kv>, Vec<Kv>) = (vec![], vec![]);
                                    loop {
                                        let x = s1.next().map(|(k, o)| (k.to_vec(), o.value()));
                                        let y = s2.next().map(|(k, o)| (k.to_vec(), o.value()));
                                        let done = x.is_none() && y.is_none();
                                        g1.extend(x);
                                        g2.extend(y);
                                        if done || g1.len() + g2.len() > 10_000 { break; }
                                    }
                                    let want2: Vec<Kv> = want.iter().filter(|(k, _)| &k[..] >= &b"a"[..]).cloned().collect();
                                    n += 2;
                                    if g1 != want || g2 != want2 {
                                        return Err(format!("two live searches sharing one {} automaton, advanced alternately, gave {} and {} expected {} and {}", e.show(&leaves), kvs_str(&g1), kvs_str(&g2), kvs_str(&want), kvs_str(&want2)));
                                    }
                                }
                            }
                        }
                    }
                }
            }
        }
        Ok(n)
    })
    .and_then(|x| x)
}

/// FSTs with a wide node (labels with gaps, with and without 0x00 / 0xff),
/// searched with every byte as a one- or two-byte lower bound.
pub fn gap_kvs(n: usize, variant: usize, depth: usize) -> Vec<Kv> {
    let mut labels: Vec<u8> = match variant {
        0 => (0..n).map(|i| ((i * 256) / n) as u8).collect(),
        1 => (0..n).map(|i| (256 - n + i) as u8).collect(),
        2 => (0..n).map(|i| i as u8).collect(),
        3 => (0..n).map(|i| (((i * 251) / n) as u8).saturating_add(if i + 1 == n { 4 } else { 0 })).collect(),
        // dense low labels and one label at the very top (a long gap below 0xff)
        _ => (0..n).map(|i| if i + 1 == n { 0xff } else { i as u8 }).collect(),
    };
    labels.sort();
    labels.dedup();
    let mut kvs: Vec<Kv> = vec![];
    for (i, &b) in labels.iter().enumerate() {
        let mut k = if depth == 1 { vec![b'p'] } else { vec![] };
        k.push(b);
        kvs.push((k.clone(), 3 * i as u64 + 1));
        if i % 3 == 0 || i + 1 == labels.len() {
            k.push(b'x');
            kvs.push((k, 1000 + i as u64));
        }
    }
    kvs.sort();
    kvs
}

fn run_gaps(n: usize, variant: usize, depth: usize) -> Result<u64, String> {
    let kvs = gap_kvs(n, variant, depth);
    let bytes = front::build(Front::RawInsert, (3, 3), &kvs)?;
    guard(|| {
        let f = Fst::new(&bytes[..]).map_err(|e| format!("{:?}", e))?;
        let mut cnt = 0u64;
        fn one<A: Automaton>(f: &Fst<&[u8]>, kvs: &[Kv], aut: A, name: &str, acc: &dyn Fn(&[u8]) -> bool, depth: usize, cnt: &mut u64) -> Result<(), String>
        where
            A::State: Clone,
        {
            for b in 0..=255u8 {
                let bound: Vec<u8> = if depth == 1 { vec![b'p', b] } else { vec![b] };
                let bound2: Vec<u8> = bound.iter().cloned().chain([b'x']).collect();
                for bk in [&bound, &bound2] {
                    for lo in [Lo::Ge, Lo::Gt] {
                        for (hi, hik) in [(Hi::None, vec![]), (Hi::Le, vec![0xffu8])] {
                            let want: Vec<Kv> = kvs.iter().filter(|(k, _)| acc(k) && in_range(k, lo, bk, hi, &hik)).cloned().collect();
                            let got = drain(apply_bounds(f.search(&aut), lo, bk, hi, &hik).into_stream())?;
                            *cnt += 1;
                            if got != want {
                                return Err(format!("search {} with {:?}({}) {:?}({}) gave {} expected {}", name, lo, key_str(bk), hi, key_str(&hik), kvs_str(&got), kvs_str(&want)));
                            }
                            let mut sb = f.search_with_state(&aut);
                            sb = match lo { Lo::Ge => sb.ge(bk), _ => sb.gt(bk) };
                            if hi == Hi::Le { sb = sb.le(&hik); }
                            let mut st = sb.into_stream();
                            let mut gk: Vec<Kv> = vec![];
                            while let Some((k, v, _)) = st.next() {
                                gk.push((k.to_vec(), v.value()));
                            }
                            *cnt += 1;
                            if gk != want {
                                return Err(format!("search_with_state {} with {:?}({}) {:?}({}) gave {} expected {}", name, lo, key_str(bk), hi, key_str(&hik), kvs_str(&gk), kvs_str(&want)));
                            }
                        }
                    }
                }
            }
            Ok(())
        }
        one(&f, &kvs, AlwaysMatch, "AlwaysMatch", &|_| true, depth, &mut cnt)?;
        one(&f, &kvs, Subsequence::new("x"), "Subsequence(x)", &|k| k.contains(&b'x'), depth, &mut cnt)?;
        for t in all_dfas(2, ClassFn::Lt80, false).into_iter().step_by(5).take(6) {
            one(&f, &kvs, &t, &t.describe(), &|k| t.accepts(k), depth, &mut cnt)?;
        }
        Ok(cnt)
    })
    .and_then(|x| x)
}

fn dfa_json(a: &TableDfa) -> Value {
    json!({"classes": format!("{:?}", a.classes), "delta": a.delta, "accept": a.accept, "can": a.can})
}

fn dfa_from(v: &Value) -> TableDfa {
    let classes = if v["classes"] == "Lt80" { ClassFn::Lt80 } else { ClassFn::IsA };
    let delta: Vec<[usize; 2]> = v["delta"].as_array().unwrap().iter().map(|r| [r[0].as_u64().unwrap() as usize, r[1].as_u64().unwrap() as usize]).collect();
    let accept: Vec<bool> = v["accept"].as_array().unwrap().iter().map(|b| b.as_bool().unwrap()).collect();
    let can: Vec<bool> = v["can"].as_array().unwrap().iter().map(|b| b.as_bool().unwrap()).collect();
    let n = delta.len();
    TableDfa { classes, delta, accept, can, always: vec![false; n] }
}

pub fn replay(case: &Value) -> Result<String, String> {
    if let Some(r) = super::seqread::replay(case) {
        return r;
    }
    let kvs = kvs_from(&case["kvs"]);
    match case["kind"].as_str().unwrap() {
        "gapsv" => super::c10::run_gaps_versions(case["n"].as_u64().unwrap() as usize, case["variant"].as_u64().unwrap() as usize, case["depth"].as_u64().unwrap() as usize, 2).map(|n| format!("{} searches agree", n)),
        "gaps" => run_gaps(case["n"].as_u64().unwrap() as usize, case["variant"].as_u64().unwrap() as usize, case["depth"].as_u64().unwrap() as usize).map(|n| format!("{} searches agree", n)),
        "table" => {
            let geom = geom_from(&case["geom"]);
            let auts: Vec<TableDfa> = case["automata"].as_array().unwrap().iter().map(dfa_from).collect();
            run_case(&kvs, geom, &auts, case["bmax"].as_u64().unwrap() as usize, true).map(|n| format!("{} searches agree", n))
        }
        "shipped" => run_shipped(&kvs).map(|n| format!("{} searches agree", n)),
        "compositions" => run_compositions(&kvs, 0, 1).map(|n| format!("{} searches agree", n)),
        _ => run_regex(&kvs).map(|n| format!("{} searches agree", n)),
    }
}

fn do_table(kvs: &[Kv], geom: Geom, auts: &Arc<Vec<TableDfa>>, bmax: usize, wrappers: bool, st: &mut Stats, rep: &Reporter) {
    st.states += 1;
    match run_case(kvs, geom, auts, bmax, wrappers) {
        Ok(n) => {
            st.evals += n;
            st.transitions += n * (kvs.len() as u64 + 2);
        }
        Err(msg) => {
            // find the single automaton that fails, for a small replay file
            let mut culprit: Vec<TableDfa> = vec![];
            for a in auts.iter() {
                if run_case(kvs, geom, std::slice::from_ref(a), bmax, wrappers).is_err() {
                    culprit.push(a.clone());
                    break;
                }
            }
            let key = format!("{} {:?} {}", kvs_str(kvs), geom, culprit.first().map(|a| a.describe()).unwrap_or_default());
            rep.violation(key, msg, json!({"kind": "table", "kvs": kvs_json(kvs), "geom": [geom.0, geom.1], "bmax": bmax, "automata": culprit.iter().map(dfa_json).collect::<Vec<_>>()}));
        }
    }
}

pub fn plan(tier: Tier) -> Plan {
    let mut p = Plan::new("C04", "model_checking");
    let thorough = tier.thorough();
    p.rule = "FST x bounds x generated contract-abiding automata: every table DFA with 1..2 states (thorough: 3) over two byte classes, every accepting set, every sound can_match assignment (true where an accepting state is reachable, free elsewhere); search and search_with_state through raw Fst (Map/Set wrappers on small sets); oracle = independent run of the table over each model key incl. the reported state; plus shipped automata/combinators/Levenshtein and regex-automata dense DFAs against specification predicates. every composition of depth <= 2 of AlwaysMatch/Str/Subsequence under StartsWith/Complement/Union/Intersection (real combinator types) against the explicit product DFA; wide nodes (fan-out 2..256, five label layouts incl. gaps below 0xff) searched with every byte as one- and two-byte lower bound under AlwaysMatch/Subsequence/six 2-state table DFAs; operands also passed by reference (impl Automaton for &T), and one automaton object shared by two live searches advanced alternately; a finite family of 480 (thorough 2400) DFAs with 3..8 states and weakened-but-sound hints per class function over the complete universe of keys of length <= 8 over two bytes; bounds set upper-before-lower and each side set twice, with the same and with the other inclusivity (last setting wins) on both automaton builders; accept_eof is never overridden. non-trivial = distinct (automaton, FST) pairs with >= 2 keys; the gap family also in files of versions 1, 2 and 3 from the reference encoder (bounded search and search_with_state)".into();
    p.assumptions = vec!["contract-abiding = deterministic table, sound can_match, default accept_eof".into()];
    let mut auts = all_dfas(1, ClassFn::IsA, false);
    auts.extend(all_dfas(2, ClassFn::IsA, false));
    let n12 = auts.len();
    let auts12 = Arc::new(auts);
    let mut v = all_dfas(1, ClassFn::Lt80, false);
    v.extend(all_dfas(2, ClassFn::Lt80, false));
    let auts12_raw = Arc::new(v);
    p.extra.insert("automata_1_2_states".into(), json!(n12));
    // (a) U_ab2: all subsets x all bounds of length <= 2 x all 1-2 state automata
    {
        let u = u_ab2();
        for (a, b) in ranges(1 << u.keys.len(), 64) {
            let u = u.clone();
            let auts = auts12.clone();
            p.units.push(unit("U_ab2-subsets-bounds<=2-dfa<=2", format!("U_ab2 masks {}..{}", a, b), move |st, rep| {
                for mask in a..b {
                    if rep.stopped() { return; }
                    let keys = select(&u.keys, mask);
                    let kvs = Pat::Lin3.apply(&keys);
                    st.nontrivial += if kvs.len() >= 2 { auts.len() as u64 } else { 0 };
                    st.sample(|| json!({"kvs": kvs_str(&kvs), "automaton": auts[(mask as usize * 7) % auts.len()].describe()}));
                    do_table(&kvs, (3, 3), &auts, 2, true, st, rep);
                }
            }));
        }
    }
    // (b) U_ab3: subsets with <= 3 keys (thorough: all) x bounds of length <= 1
    {
        let u = u_ab3();
        let mut masks = vec![];
        for_each_mask_upto(u.keys.len(), if thorough { 15 } else { 3 }, &mut |m| masks.push(m));
        let chunk = (masks.len() + 127) / 128;
        for part in masks.chunks(chunk) {
            let part = part.to_vec();
            let u = u.clone();
            let auts = auts12.clone();
            p.units.push(unit("U_ab3-subsets-bounds<=1-dfa<=2", format!("U_ab3 {} masks from {}", part.len(), part[0]), move |st, rep| {
                for &mask in &part {
                    if rep.stopped() { return; }
                    let keys = select(&u.keys, mask);
                    if keys.iter().all(|k| k.len() <= 2) && !keys.is_empty() { continue; } // covered by (a)
                    let kvs = Pat::Lin3.apply(&keys);
                    st.nontrivial += if kvs.len() >= 2 { auts.len() as u64 } else { 0 };
                    do_table(&kvs, (1, 1), &auts, 1, false, st, rep);
                }
            }));
        }
    }
    // (c) second class function on the raw universe
    {
        let u = u_raw2();
        let mut masks = vec![];
        for_each_mask_upto(u.keys.len(), if thorough { 13 } else { 3 }, &mut |m| masks.push(m));
        let chunk = (masks.len() + 63) / 64;
        for part in masks.chunks(chunk) {
            let part = part.to_vec();
            let u = u.clone();
            let auts = auts12_raw.clone();
            p.units.push(unit("U_raw2-subsets-bounds<=1-dfa<=2-class<0x80", format!("U_raw2 {} masks from {}", part.len(), part[0]), move |st, rep| {
                for &mask in &part {
                    if rep.stopped() { return; }
                    let keys = select(&u.keys, mask);
                    let kvs = Pat::MaxMinus.apply(&keys);
                    st.nontrivial += if kvs.len() >= 2 { auts.len() as u64 } else { 0 };
                    do_table(&kvs, (2, 2), &auts, 1, false, st, rep);
                }
            }));
        }
    }
    // (d) 3-state DFAs (thorough)
    if thorough {
        let auts3 = Arc::new(all_dfas(3, ClassFn::IsA, false));
        p.extra.insert("automata_3_states".into(), json!(auts3.len()));
        let u = u_ab2();
        for mask in 0..(1u64 << u.keys.len()) {
            let u = u.clone();
            let auts = auts3.clone();
            p.units.push(unit("U_ab2-subsets-bounds<=1-dfa=3", format!("U_ab2 mask {}", mask), move |st, rep| {
                let keys = select(&u.keys, mask);
                let kvs = Pat::Lin3.apply(&keys);
                st.nontrivial += if kvs.len() >= 2 { auts.len() as u64 } else { 0 };
                do_table(&kvs, (3, 3), &auts, 1, false, st, rep);
            }));
        }
    }
    // (e) shipped automata and regex DFAs
    {
        let u = u_ab3();
        let mut masks = vec![];
        for_each_mask_upto(u.keys.len(), if thorough { 5 } else { 2 }, &mut |m| masks.push(m));
        masks.push((1 << 15) - 1);
        let chunk = (masks.len() + 63) / 64;
        for part in masks.chunks(chunk) {
            let part = part.to_vec();
            let u = u.clone();
            p.units.push(unit("U_ab3-shipped-automata-and-regex", format!("shipped {} masks from {}", part.len(), part[0]), move |st, rep| {
                for &mask in &part {
                    if rep.stopped() { return; }
                    let keys = select(&u.keys, mask);
                    let kvs = Pat::Lin3.apply(&keys);
                    st.states += 2;
                    match run_shipped(&kvs) {
                        Ok(n) => { st.evals += n; st.transitions += n; st.count("shipped_searches", n); }
                        Err(msg) => rep.violation(format!("shipped {}", kvs_str(&kvs)), msg, json!({"kind": "shipped", "kvs": kvs_json(&kvs)})),
                    }
                    match run_regex(&kvs) {
                        Ok(n) => { st.evals += n; st.transitions += n; st.count("regex_searches", n); }
                        Err(msg) => rep.violation(format!("regex {}", kvs_str(&kvs)), msg, json!({"kind": "regex", "kvs": kvs_json(&kvs)})),
                    }
                }
            }));
        }
    }
    // (e1) finite family of larger DFAs (3..8 states, weakened hints) over the
    // complete binary universe of keys of length <= 8 (every path of <= 8 steps)
    {
        let nd = if thorough { 2400 } else { 480 };
        for (ci, classes) in [ClassFn::IsA, ClassFn::Lt80].into_iter().enumerate() {
            let fam = Arc::new(crate::dfa::family_dfas(nd, classes));
            let alpha: [u8; 2] = if ci == 0 { [b'a', b'b'] } else { [0x00, 0xff] };
            let mut keys: Vec<Key> = strings_over(&alpha, 8);
            keys.sort();
            let kvs = Arc::new(Pat::Lin3.apply(&keys));
            for part in 0..16usize {
                let fam = fam.clone();
                let kvs = kvs.clone();
                p.units.push(unit("complete-binary-universe-len<=8-x-family-of-3..8-state-dfas-(finite-family)", format!("dfa family classes {} part {}", ci, part), move |st, rep| {
                    let auts: Vec<TableDfa> = fam.iter().skip(part).step_by(16).cloned().collect();
                    st.states += auts.len() as u64;
                    st.nontrivial += auts.len() as u64;
                    st.count("family_dfas", auts.len() as u64);
                    do_table(&kvs, (3, 3), &Arc::new(auts), 1, false, st, rep);
                }));
            }
        }
    }
    // (e2) wide nodes with gaps: every byte as lower bound of a search
    for n in [2usize, 3, 31, 32, 33, 34, 40, 64, 100, 200, 255, 256] {
        p.units.push(unit("wide-nodes-with-gaps-every-byte-as-lower-bound", format!("gaps fan-out {}", n), move |st, rep| {
            for variant in 0..5usize {
                for depth in 0..2usize {
                    st.states += 1;
                    st.nontrivial += 3;
                    match run_gaps(n, variant, depth) {
                        Ok(c) => { st.evals += c; st.transitions += c; st.count("gap_searches", c); }
                        Err(msg) => rep.violation(format!("gaps fan-out {} variant {} depth {}", n, variant, depth), msg, json!({"kind": "gaps", "n": n, "variant": variant, "depth": depth, "kvs": []})),
                    }
                }
            }
        }));
    }
    // the gap family written by the reference encoder in versions 1, 2 and 3
    for n in [2usize, 31, 32, 33, 34, 40, 64, 100, 255, 256] {
        p.units.push(unit("wide-nodes-with-gaps-in-versions-1-2-3", format!("gaps versions fan-out {}", n), move |st, rep| {
            for variant in 0..5usize {
                for depth in 0..2usize {
                    st.states += 3;
                    st.nontrivial += 3;
                    match super::c10::run_gaps_versions(n, variant, depth, 2) {
                        Ok(c) => { st.evals += c; st.transitions += c; st.count("gap_version_queries", c); }
                        Err(msg) => rep.violation(format!("gaps versions fan-out {} variant {} depth {}", n, variant, depth), msg, json!({"kind": "gapsv", "gapsv": true, "n": n, "variant": variant, "depth": depth, "kvs": []})),
                    }
                }
            }
        }));
    }
    // (f) every depth <= 2 composition of the shipped automata
    {
        let u = u_ab3();
        let sets: Vec<u64> = if thorough { vec![(1 << 15) - 1, 0x5a5a, 0x2d2d, 0x00ff, 0x7f00, 0x1] } else { vec![(1 << 15) - 1, 0x5a5a] };
        for mask in sets {
            for part in 0..16usize {
                let u = u.clone();
                p.units.push(unit("shipped-automata-all-compositions-depth<=2", format!("compositions mask {:x} part {}", mask, part), move |st, rep| {
                    let kvs = Pat::Lin3.apply(&select(&u.keys, mask));
                    st.states += 1;
                    match run_compositions(&kvs, part, 16) {
                        Ok(n) => { st.evals += n; st.transitions += n; st.count("composition_searches", n); st.nontrivial += n / 81; }
                        Err(msg) => rep.violation(format!("composition {}", msg.split(" with ").next().unwrap_or("")), msg, json!({"kind": "compositions", "kvs": kvs_json(&kvs)})),
                    }
                }));
            }
        }
    }
    p.must_be_nonzero = vec!["shipped_searches".into(), "regex_searches".into(), "composition_searches".into()];
    p.rule.push_str(super::seqread::RULE);
    super::seqread::add_units(&mut p, super::seqread::Class::Search, if tier.thorough() { 5 } else { 4 });
    p
}
