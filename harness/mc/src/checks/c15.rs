//! C15 - construction is deterministic and independent of the API path
//! (SEQ engine + exhaustive call-level interleavings of concurrent builders).

use std::io::BufWriter;

use fst::raw;
use serde_json::{json, Value};

use super::util::*;
use crate::ev::{fnv, guard, unit, Plan, Reporter, Stats, Tier};
use crate::front::{self, Front, Geom, ALL_FRONTS, DEFAULT_GEOM};
use crate::model::*;
use crate::sink::{Policy, ScriptSink};

/// Bytes through every front end must be identical.
pub fn run_fronts(kvs: &[Kv], geoms: &[Geom]) -> Result<u64, String> {
    let is_set = kvs.iter().all(|x| x.1 == 0);
    let reference = front::build(Front::RawInsert, DEFAULT_GEOM, kvs)?;
    let mut n = 1;
    for fr in ALL_FRONTS {
        if fr.set_only() && !is_set {
            continue;
        }
        let b = match front::build(fr, DEFAULT_GEOM, kvs) {
            Err(e) if front::is_usage_skip(&e) => continue, // the accepted sequence is not `kvs` (C06's business)
            r => r?,
        };
        n += 1;
        if b != reference {
            return Err(format!("{:?} produced different bytes than raw::Builder::insert (lengths {} vs {})", fr, b.len(), reference.len()));
        }
    }
    // other sinks
    guard(|| {
        let mut b = raw::Builder::memory();
        for (k, v) in kvs {
            b.insert(k, *v).map_err(|e| format!("{:?}", e))?;
        }
        let m = b.into_inner().map_err(|e| format!("{:?}", e))?;
        if m != reference {
            return Err("Builder::memory() produced different bytes".to_string());
        }
        let mut b = raw::Builder::new(BufWriter::with_capacity(7, Vec::new())).map_err(|e| format!("{:?}", e))?;
        for (k, v) in kvs {
            b.insert(k, *v).map_err(|e| format!("{:?}", e))?;
        }
        let w = b.into_inner().map_err(|e| format!("{:?}", e))?.into_inner().map_err(|e| format!("{:?}", e.error()))?;
        if w != reference {
            return Err("BufWriter sink produced different bytes".to_string());
        }
        let mut b = raw::Builder::new(ScriptSink::new(vec![], Policy::Cap(3))).map_err(|e| format!("{:?}", e))?;
        for (k, v) in kvs {
            b.insert(k, *v).map_err(|e| format!("{:?}", e))?;
        }
        let w = b.into_inner().map_err(|e| format!("{:?}", e))?;
        if w.data != reference {
            return Err("3-bytes-per-call sink produced different bytes".to_string());
        }
        let f = fst::Map::from_iter(kvs.iter().map(|(k, v)| (k, *v))).map_err(|e| format!("{:?}", e))?;
        if f.as_fst().as_bytes() != &reference[..] {
            return Err("Map::from_iter bytes differ".to_string());
        }
        Ok(())
    })
    .and_then(|x| x)?;
    n += 4;
    // raw front ends under tiny geometries agree with each other
    for g in geoms {
        let r = front::build(Front::RawInsert, *g, kvs)?;
        for fr in [Front::RawAdd, Front::RawExtendIter, Front::RawExtendStreamVec, Front::RawExtendStreamFst] {
            if fr.set_only() && !is_set {
                continue;
            }
            n += 1;
            if front::build(fr, *g, kvs)? != r {
                return Err(format!("{:?} under cache {}x{} produced different bytes than insert", fr, g.0, g.1));
            }
        }
        // repetition
        n += 1;
        if front::build(Front::RawInsert, *g, kvs)? != r {
            return Err(format!("a repeated build under cache {}x{} produced different bytes", g.0, g.1));
        }
    }
    Ok(n)
}

/// Bulk-load size ladder: N generated keys with recurring tails, built through every BULK entry point (iterators
/// with exact size hints, streams) and compared with single inserts.
pub fn bulk_kvs(n: usize, set: bool) -> Vec<Kv> {
    // key i = base-36 of i (6 digits, increasing) + one of S = max(n/6, 3)
    // four-byte tails chosen pseudo-randomly: the tails recur in no particular
    // order, so whether a tail's nodes are still cached when it recurs - and
    // hence the bytes - depends on the cache geometry once S exceeds it
    let b36 = |mut x: u64, w: usize, out: &mut Vec<u8>| {
        let at = out.len();
        out.resize(at + w, b'0');
        for j in (0..w).rev() {
            let d = (x % 36) as u8;
            out[at + j] = if d < 10 { b'0' + d } else { b'a' + d - 10 };
            x /= 36;
        }
    };
    let s = (n as u64 / 6).max(3);
    (0..n as u64)
        .map(|i| {
            let mut k = vec![];
            b36(i, 6, &mut k);
            k.push(b'/');
            b36(mix64(mix64(i) % s) % (36 * 36 * 36 * 36), 4, &mut k);
            (k, if set { 0 } else { i % 1000 })
        })
        .collect()
}

pub fn run_bulk(n: usize, set: bool) -> Result<u64, String> {
    let kvs = bulk_kvs(n, set);
    let reference = front::build(Front::RawInsert, DEFAULT_GEOM, &kvs)?;
    let mut cnt = 1;
    for fr in ALL_FRONTS {
        if (fr.set_only() && !set) || matches!(fr, Front::RawInsert | Front::RawAdd | Front::SetInsert | Front::MapInsert) {
            continue;
        }
        if n > 200_000 && matches!(fr, Front::SetExtendStreamUnion | Front::MapExtendStreamUnion | Front::RawExtendStreamFst | Front::RawInsertNoisy | Front::MapInsertNoisy | Front::SetInsertNoisy) {
            continue;
        }
        let b = match front::build(fr, DEFAULT_GEOM, &kvs) {
            Err(e) if front::is_usage_skip(&e) => continue,
            r => r?,
        };
        cnt += 1;
        if b != reference {
            return Err(format!("{:?} over {} items produced different bytes than {} single inserts (lengths {} vs {})", fr, n, n, b.len(), reference.len()));
        }
    }
    Ok(cnt)
}

// ---- call-level interleavings --------------------------------------------

#[derive(Clone, Debug)]
pub struct Job {
    pub kind: u8, // 0 raw insert, 1 MapBuilder, 2 SetBuilder, 3 raw add
    pub geom: Geom,
    pub kvs: Vec<Kv>,
}

enum Live {
    Raw(raw::Builder<Vec<u8>>),
    Map(fst::MapBuilder<Vec<u8>>),
    Set(fst::SetBuilder<Vec<u8>>),
}

struct Runner<'j> {
    job: &'j Job,
    b: Option<Live>,
    step: usize,
    out: Option<Vec<u8>>,
}

impl<'j> Runner<'j> {
    fn new(job: &'j Job) -> Runner<'j> {
        Runner { job, b: None, step: 0, out: None }
    }
    fn steps(job: &Job) -> usize {
        if job.kind == 4 {
            3
        } else {
            job.kvs.len() + 2
        }
    }
    /// Executes the next API call of this builder.
    fn advance(&mut self) -> Result<(), String> {
        let e = |e: fst::Error| format!("{:?}", e);
        let n = if self.job.kind == 4 { 1 } else { self.job.kvs.len() };
        if self.step == 0 {
            self.b = Some(match self.job.kind {
                1 => Live::Map(fst::MapBuilder::new(vec![]).map_err(e)?),
                2 => Live::Set(fst::SetBuilder::new(vec![]).map_err(e)?),
                _ => Live::Raw(front::raw_builder(vec![], 0, self.job.geom).map_err(e)?),
            });
        } else if self.step <= n && self.job.kind == 4 {
            match self.b.as_mut().unwrap() {
                Live::Raw(b) => b.extend_iter(self.job.kvs.iter().map(|(k, v)| (k, raw::Output::new(*v)))).map_err(e)?,
                _ => unreachable!(),
            }
        } else if self.step <= n {
            let (k, v) = &self.job.kvs[self.step - 1];
            match self.b.as_mut().unwrap() {
                Live::Raw(b) => {
                    if self.job.kind == 3 {
                        b.add(k).map_err(e)?
                    } else {
                        b.insert(k, *v).map_err(e)?
                    }
                }
                Live::Map(b) => b.insert(k, *v).map_err(e)?,
                Live::Set(b) => b.insert(k).map_err(e)?,
            }
        } else {
            self.out = Some(match self.b.take().unwrap() {
                Live::Raw(b) => b.into_inner().map_err(e)?,
                Live::Map(b) => b.into_inner().map_err(e)?,
                Live::Set(b) => b.into_inner().map_err(e)?,
            });
        }
        self.step += 1;
        Ok(())
    }
}

fn solo(job: &Job) -> Result<Vec<u8>, String> {
    let mut r = Runner::new(job);
    for _ in 0..Runner::steps(job) {
        r.advance()?;
    }
    Ok(r.out.unwrap())
}

/// All interleavings of the call sequences of the given jobs.
pub fn run_interleavings(jobs: &[Job]) -> Result<u64, String> {
    // on a fresh thread, so that thread-local state of the library (if any)
    // starts clean: the solo runs come first, the interleavings after them
    let jobs: Vec<Job> = jobs.to_vec();
    std::thread::spawn(move || {
        crate::ev::install_quiet_panic_hook();
        run_interleavings_here(&jobs)
    })
    .join()
    .unwrap_or_else(|_| Err("interleaving thread panicked".into()))
}

fn run_interleavings_here(jobs: &[Job]) -> Result<u64, String> {
    guard(|| {
        let solos: Vec<Vec<u8>> = jobs.iter().map(solo).collect::<Result<_, _>>()?;
        let steps: Vec<usize> = jobs.iter().map(Runner::steps).collect();
        let total: usize = steps.iter().sum();
        let mut count = 0u64;
        // enumerate schedules as sequences of job indices (multiset permutations)
        fn rec(
            sched: &mut Vec<usize>,
            left: &mut Vec<usize>,
            total: usize,
            jobs: &[Job],
            solos: &[Vec<u8>],
            count: &mut u64,
        ) -> Result<(), String> {
            if sched.len() == total {
                *count += 1;
                let mut rs: Vec<Runner> = jobs.iter().map(Runner::new).collect();
                for &j in sched.iter() {
                    rs[j].advance().map_err(|e| format!("schedule {:?}: builder {} failed: {}", sched, j, e))?;
                }
                for (j, r) in rs.iter().enumerate() {
                    if r.out.as_ref() != Some(&solos[j]) {
                        return Err(format!("schedule {:?}: builder {} produced different bytes than when run alone", sched, j));
                    }
                }
                return Ok(());
            }
            for j in 0..left.len() {
                if left[j] > 0 {
                    left[j] -= 1;
                    sched.push(j);
                    rec(sched, left, total, jobs, solos, count)?;
                    sched.pop();
                    left[j] += 1;
                }
            }
            Ok(())
        }
        let mut left = steps.clone();
        rec(&mut vec![], &mut left, total, jobs, &solos, &mut count)?;
        Ok(count)
    })
    .and_then(|x| x)
}

/// Builders MOVED between threads: job `a` is started on a fresh thread A
/// (its first `k` API calls), handed to a fresh thread B which - variant 0 -
/// finishes it and then builds `b` from scratch, - variant 1 - drops it
/// unfinished and builds `b`, - variant 2 - first builds `b`, then finishes
/// `a`. Every finished builder must produce the bytes of its solo run.
pub fn run_thread_moves(a: &Job, b: &Job) -> Result<u64, String> {
    let want_a = solo(a)?;
    let want_b = solo(b)?;
    let mut n = 0;
    for k in 1..Runner::steps(a) {
        for variant in 0..3 {
            let r: Result<(Option<Vec<u8>>, Vec<u8>), String> = std::thread::scope(|sc| {
                let started = sc
                    .spawn(|| -> Result<Runner<'_>, String> {
                        let mut ra = Runner::new(a);
                        for _ in 0..k {
                            ra.advance()?;
                        }
                        Ok(ra)
                    })
                    .join()
                    .map_err(|_| "thread A panicked".to_string())??;
                sc.spawn(move || -> Result<(Option<Vec<u8>>, Vec<u8>), String> {
                    let mut ra = started;
                    let finish_a = |ra: &mut Runner<'_>| -> Result<Vec<u8>, String> {
                        while ra.out.is_none() {
                            ra.advance()?;
                        }
                        Ok(ra.out.take().unwrap())
                    };
                    match variant {
                        0 => {
                            let oa = finish_a(&mut ra)?;
                            Ok((Some(oa), solo(b)?))
                        }
                        1 => {
                            drop(ra);
                            Ok((None, solo(b)?))
                        }
                        _ => {
                            let ob = solo(b)?;
                            Ok((Some(finish_a(&mut ra)?), ob))
                        }
                    }
                })
                .join()
                .map_err(|_| "thread B panicked".to_string())?
            });
            let (oa, ob) = r.map_err(|e| format!("builder moved to another thread after {} calls (variant {}): {}", k, variant, e))?;
            n += 1;
            if let Some(oa) = oa {
                if oa != want_a {
                    return Err(format!("a builder started on one thread ({} calls) and finished on another (variant {}) produced different bytes than its solo run", k, variant));
                }
            }
            if ob != want_b {
                return Err(format!("a build on a thread that {} a builder started elsewhere ({} calls) produced different bytes than its solo run", ["had finished", "had dropped", "then finished"][variant], k));
            }
        }
    }
    Ok(n)
}

/// State that could build up over MANY builds on one thread. On a fresh
/// thread, probe input X_j (j = 0..) is built at build number j+1 and built
/// again EXACTLY d_j builds later, d_j in {1, 2, 3, 255, 256, 257, 4095, 4096,
/// 4097, 65535, 65536, 65537 (thorough: 131071, 131072, 131073)}, with nothing
/// but unrelated small builds in between; both builds must equal the bytes of
/// X_j built on another fresh thread.
pub fn run_many_builds(thorough: bool) -> Result<u64, String> {
    run_many_builds_judged(thorough, None)
}

/// The same history (about 65 550 builders on one thread, twelve probe inputs
/// rebuilt exactly 1 .. 65537 builds after their first build); with a judge
/// the rebuilt bytes are handed to it (C01: round trip, C09: independent
/// decoder) instead of being compared with the bytes of a fresh thread.
pub fn run_many_builds_judged(thorough: bool, judge: Option<fn(&[Kv], &[u8]) -> Result<(), String>>) -> Result<u64, String> {
    let mut dists: Vec<u64> = vec![1, 2, 3, 255, 256, 257, 4095, 4096, 4097, 65_535, 65_536, 65_537];
    if thorough {
        dists.extend([131_071, 131_072, 131_073]);
    }
    let probe = |j: usize| -> Vec<Kv> {
        (0..30u64).map(|i| (format!("{}{:02}tail{}", (b'A' + j as u8) as char, i * 3, i % 4).into_bytes(), if j % 2 == 0 { 0 } else { (i % 5) * 1000 })).collect()
    };
    fn build(kvs: &[Kv]) -> Result<Vec<u8>, String> {
        let mut b = raw::Builder::memory();
        for (k, v) in kvs {
            b.insert(k, *v).map_err(|e| format!("{:?}", e))?;
        }
        b.into_inner().map_err(|e| format!("{:?}", e))
    }
    let nd = dists.len();
    let refs: Vec<Vec<u8>> = (0..nd).map(|j| { let kv = probe(j); std::thread::spawn(move || build(&kv)).join().map_err(|_| "thread panicked".to_string())? }).collect::<Result<_, String>>()?;
    let probes: Vec<Vec<Kv>> = (0..nd).map(probe).collect();
    std::thread::spawn(move || -> Result<u64, String> {
        // build number -> probe index
        let mut due: std::collections::BTreeMap<u64, usize> = std::collections::BTreeMap::new();
        for (j, d) in dists.iter().enumerate() {
            due.insert(j as u64 + 1, j);
            // exact distances matter, so a clash of build numbers is a machinery error, never shifted
            let at = j as u64 + 1 + d;
            if due.insert(at, j).is_some() {
                return Err(format!("machinery: build number {} is taken twice", at));
            }
        }
        let last = *due.keys().last().unwrap();
        let mut checks = 0;
        for n in 1..=last {
            if let Some(&j) = due.get(&n) {
                checks += 1;
                let bytes = build(&probes[j])?;
                if let Some(judge) = judge {
                    judge(&probes[j], &bytes).map_err(|e| format!("build number {} on one thread (probe input {}, built before as build number {}, distance {}): {}", n, j, j + 1, dists[j], e))?;
                } else if bytes != refs[j] {
                    return Err(format!("build number {} on one thread (probe input {}, built before as build number {}, distance {}) produced different bytes than on a fresh thread", n, j, j + 1, dists[j]));
                }
            } else {
                let mut sb = fst::SetBuilder::memory();
                sb.insert("q").map_err(|e| format!("{:?}", e))?;
                sb.insert(format!("q{:06}", n % 977)).map_err(|e| format!("{:?}", e))?;
                let _ = sb.into_inner().map_err(|e| format!("{:?}", e))?;
            }
        }
        Ok(checks)
    })
    .join()
    .map_err(|_| "thread panicked".to_string())?
}

fn jobs_list() -> Vec<Job> {
    let k = |s: &[&str]| -> Vec<Key> { s.iter().map(|x| x.as_bytes().to_vec()).collect() };
    vec![
        Job { kind: 0, geom: (1, 1), kvs: Pat::Lin3.apply(&k(&["", "a", "ab", "b"])) },
        Job { kind: 0, geom: (2, 2), kvs: Pat::Boundary(0).apply(&k(&["aa", "ab", "ba", "bb"])) },
        Job { kind: 1, geom: DEFAULT_GEOM, kvs: Pat::MaxMinus.apply(&k(&["a", "aab", "ab", "bab"])) },
        Job { kind: 2, geom: DEFAULT_GEOM, kvs: Pat::Zero.apply(&k(&["ab", "abb", "bb", "bbb"])) },
        Job { kind: 3, geom: (1, 2), kvs: Pat::Zero.apply(&k(&["", "b", "bab", "bb"])) },
        Job { kind: 0, geom: (3, 3), kvs: Pat::Dec.apply(&k(&["a", "b", "c", "d"])) },
    ]
}

/// Jobs with wide nodes (> 32 transitions): a narrow-wide one with small
/// address deltas and a wider one with large deltas. Few API calls each
/// (the keys go in through one extend_iter call), so that all interleavings
/// stay enumerable.
fn wide_jobs() -> Vec<Job> {
    let narrow: Vec<Key> = (0..40u8).map(|i| vec![b'0' + i]).collect();
    let mut wide: Vec<Key> = vec![];
    for b in 0..=255u8 {
        wide.push(vec![b, b'x', b]);
    }
    vec![
        Job { kind: 4, geom: DEFAULT_GEOM, kvs: Pat::Zero.apply(&narrow) },
        Job { kind: 4, geom: DEFAULT_GEOM, kvs: Pat::Lin3.apply(&wide) },
        Job { kind: 4, geom: (2, 2), kvs: Pat::Lin3.apply(&narrow) },
    ]
}

// ---- whole-scope digest (threads, processes) -------------------------------

pub fn scope_digest() -> Result<u64, String> {
    let mut h: u64 = 0xcbf2_9ce4_8422_2325;
    let mut mix = |b: &[u8]| {
        h = (h ^ fnv(b)).wrapping_mul(0x1000_0000_01b3);
    };
    let u = u_ab3();
    for mask in (0..(1u64 << 15)).step_by(3) {
        let keys = select(&u.keys, mask);
        mix(&front::build(Front::RawInsert, (2, 2), &Pat::Lin3.apply(&keys))?);
        if mask % 33 == 0 {
            mix(&front::build(Front::MapInsert, DEFAULT_GEOM, &Pat::Boundary(1).apply(&keys))?);
            mix(&front::build(Front::SetExtendStreamUnion, DEFAULT_GEOM, &Pat::Zero.apply(&keys))?);
        }
    }
    for n in [33usize, 256] {
        for (_, keys) in fanout_family(n) {
            mix(&front::build(Front::RawInsert, (1, 1), &Pat::Lin3.apply(&keys))?);
        }
    }
    for (_, kvs) in long_tail_family() {
        mix(&front::build(Front::RawInsert, DEFAULT_GEOM, &kvs)?);
    }
    // a corpus under a small cache, where evictions occur
    let data = std::fs::read("/repo/data/words-10000").map_err(|e| format!("machinery: {}", e))?;
    let mut keys: Vec<Key> = data.split(|&b| b == b'\n').filter(|l| !l.is_empty()).map(|l| l.to_vec()).collect();
    keys.sort();
    keys.dedup();
    mix(&front::build(Front::RawInsert, (100, 2), &Pat::Idx.apply(&keys))?);
    mix(&front::build(Front::SetInsert, DEFAULT_GEOM, &Pat::Zero.apply(&keys))?);
    Ok(h)
}

/// Few (<= 64) long keys sharing long tails: hundreds of distinct nodes from
/// a handful of keys (an entry point that sizes anything by the number of
/// keys behaves differently here).
pub fn long_tail_family() -> Vec<(String, Vec<Kv>)> {
    let mut v = vec![];
    for (nkeys, tail) in [(40usize, 180usize), (60, 100), (10, 500), (64, 64)] {
        for valued in [false, true] {
            let t: Vec<u8> = (0..tail).map(|i| b'a' + ((i * 7 + i / 13) % 26) as u8).collect();
            let mut kvs: Vec<Kv> = vec![];
            for i in 0..nkeys {
                let mut k = vec![b'A' + (i / 26) as u8, b'a' + (i % 26) as u8];
                // tails share a suffix but differ in their first part
                k.extend((0..(i % 7)).map(|j| b'0' + j as u8));
                k.extend_from_slice(&t);
                kvs.push((k, if valued { (i as u64 + 1) * 1000 } else { 0 }));
            }
            kvs.sort();
            v.push((format!("long-tail-{}x{}-{}", nkeys, tail, if valued { "map" } else { "set" }), kvs));
        }
    }
    v
}

/// Scans /repo/src for constructs that would make builders share state
/// (outside the cfg(burntsushi_fst_verif) hook items).
pub fn shared_state_scan() -> Vec<String> {
    let mut hits = vec![];
    fn visit(dir: &std::path::Path, hits: &mut Vec<String>) {
        let rd = match std::fs::read_dir(dir) { Ok(r) => r, Err(_) => return };
        for e in rd.flatten() {
            let p = e.path();
            if p.is_dir() {
                visit(&p, hits);
            } else if p.extension().map(|x| x == "rs").unwrap_or(false) && p.file_name().map(|n| n != "tests.rs").unwrap_or(true) {
                let src = std::fs::read_to_string(&p).unwrap_or_default();
                let mut skip_depth: Option<i32> = None;
                let mut in_block_comment = false;
                let mut in_tests = false;
                for (ln, line) in src.lines().enumerate() {
                    let t = line.trim();
                    if in_block_comment {
                        if t.contains("*/") { in_block_comment = false; }
                        continue;
                    }
                    if t.starts_with("/*") {
                        if !t.contains("*/") { in_block_comment = true; }
                        continue;
                    }
                    if t.starts_with("//") { continue; }
                    if t.starts_with("#[cfg(test)]") { in_tests = true; }
                    if in_tests { continue; }
                    if t.starts_with("#[cfg(burntsushi_fst_verif)]") {
                        skip_depth = Some(0);
                        continue;
                    }
                    if let Some(d) = skip_depth.as_mut() {
                        for c in t.chars() {
                            match c { '{' | '(' => *d += 1, '}' | ')' => *d -= 1, _ => {} }
                        }
                        if *d <= 0 && (t.ends_with('}') || t.ends_with(',') || t.ends_with(';') || t.ends_with("};")) {
                            skip_depth = None;
                        }
                        continue;
                    }
                    for pat in ["static mut", "thread_local!", "lazy_static", "OnceCell", "OnceLock", "Atomic", "Mutex", "RwLock", "RandomState", "DefaultHasher", "unsafe "] {
                        if t.contains(pat) {
                            hits.push(format!("{}:{}: {}", p.display(), ln + 1, pat));
                        }
                    }
                    if t.starts_with("static ") || t.starts_with("pub static ") {
                        if t.contains("Cell") || t.contains("Vec") {
                            hits.push(format!("{}:{}: static with interior state", p.display(), ln + 1));
                        }
                    }
                }
            }
        }
    }
    visit(std::path::Path::new("/repo/src"), &mut hits);
    hits
}

pub fn replay(case: &Value) -> Result<String, String> {
    match case["kind"].as_str().unwrap() {
        "fronts" => run_fronts(&kvs_from(&case["kvs"]), &[(1, 1), (2, 2), (3, 3)]).map(|n| format!("{} builds byte-identical", n)),
        "fronts-mixed" => {
            let (i, total) = (case["index"].as_u64().unwrap() as usize, case["total"].as_u64().unwrap() as usize);
            let kvs = mixed_family(total).swap_remove(i).1;
            run_fronts(&kvs, &[(3, 3)]).map(|n| format!("{} builds byte-identical", n))
        }
        "bulk" => run_bulk(case["n"].as_u64().unwrap() as usize, case["set"].as_bool().unwrap()).map(|n| format!("{} builds byte-identical", n)),
        "fronts-ladder" => {
            let l = case["len"].as_u64().unwrap() as usize;
            let fam = long_keys_of(&[l]);
            let mut n = 0;
            for (_, kvs) in fam {
                n += run_fronts(&kvs, &[(2, 2)])?;
            }
            Ok(format!("{} builds byte-identical", n))
        }
        "fronts-corpus" => {
            let kvs = corpus_sample(case["name"].as_str().unwrap(), case["take"].as_u64().unwrap() as usize, case["set"].as_bool().unwrap())?;
            run_fronts(&kvs, &[]).map(|n| format!("{} builds byte-identical", n))
        }
        "plain" => {
            let exe = format!("{}/plain/target/release/plain", crate::ev::verif_dir());
            let o = std::process::Command::new(&exe).output().map_err(|e| format!("machinery: {}", e))?;
            let theirs: Vec<String> = String::from_utf8_lossy(&o.stdout).lines().filter(|l| l.starts_with("PLAIN ")).map(|l| l.to_string()).collect();
            let ours: Vec<String> = crate::plain_scope::scope_digests().into_iter().map(|(n, h)| format!("PLAIN {:016x} {}", h, n)).collect();
            if theirs == ours { Ok(format!("{} groups identical", ours.len())) } else { Err("guard-off and hooks-on digests differ".into()) }
        }
        "many-builds" => run_many_builds(case["thorough"].as_bool().unwrap_or(false)).map(|c| format!("{} rebuilds identical", c)),
        "thread-moves" => {
            let all: Vec<Job> = jobs_list().into_iter().chain(wide_jobs()).collect();
            let ij: Vec<usize> = case["jobs"].as_array().unwrap().iter().map(|i| i.as_u64().unwrap() as usize).collect();
            run_thread_moves(&all[ij[0]], &all[ij[1]]).map(|n| format!("{} hand-overs, all byte-identical to the solo runs", n))
        }
        "interleave-wide" => {
            let all = wide_jobs();
            let jobs: Vec<Job> = case["jobs"].as_array().unwrap().iter().map(|i| all[i.as_u64().unwrap() as usize].clone()).collect();
            run_interleavings(&jobs).map(|n| format!("{} interleavings, all byte-identical to the solo runs", n))
        }
        "interleave" => {
            let all = jobs_list();
            let jobs: Vec<Job> = case["jobs"].as_array().unwrap().iter().map(|i| all[i.as_u64().unwrap() as usize].clone()).collect();
            run_interleavings(&jobs).map(|n| format!("{} interleavings, all byte-identical to the solo runs", n))
        }
        _ => {
            // the defect is non-determinism itself: compare a second build in
            // this thread, one on another thread and one in a child process
            let a = scope_digest()?;
            let b = scope_digest()?;
            let c = std::thread::spawn(scope_digest).join().map_err(|_| "thread panicked".to_string())??;
            let exe = std::env::current_exe().map_err(|e| e.to_string())?;
            let o = std::process::Command::new(exe).arg("C15-CHILD").output().map_err(|e| format!("machinery: {}", e))?;
            let d = String::from_utf8_lossy(&o.stdout).trim().to_string();
            if a != b {
                return Err("two builds of the same scope in one thread produce different bytes".into());
            }
            if a != c {
                return Err("a build of the scope on another thread produces different bytes".into());
            }
            if d != format!("DIGEST {:016x}", a) {
                return Err("a build of the scope in another process produces different bytes".into());
            }
            Ok(format!("digest {:016x} in this thread, another thread and another process", a))
        }
    }
}

/// A sample of a shipped corpus: every (len/take)-th key of the sorted corpus.
pub fn corpus_sample(name: &str, take: usize, set: bool) -> Result<Vec<Kv>, String> {
    let data = std::fs::read(format!("/repo/data/{}", name)).map_err(|e| format!("machinery: {}", e))?;
    let mut keys: Vec<Key> = data.split(|&b| b == b'\n').filter(|l| !l.is_empty()).map(|l| l.to_vec()).collect();
    keys.sort();
    keys.dedup();
    let step = (keys.len() / take).max(1);
    let keys: Vec<Key> = keys.into_iter().step_by(step).collect();
    Ok(if set { Pat::Zero.apply(&keys) } else { Pat::Idx.apply(&keys) })
}

fn do_fronts(kvs: &[Kv], geoms: &[Geom], st: &mut Stats, rep: &Reporter) {
    do_fronts_case(kvs, geoms, json!({"kind": "fronts", "kvs": if kvs.len() <= 300 { kvs_json(kvs) } else { json!([]) }}), st, rep)
}

fn do_fronts_case(kvs: &[Kv], geoms: &[Geom], case: Value, st: &mut Stats, rep: &Reporter) {
    st.states += 1;
    match run_fronts(kvs, geoms) {
        Ok(n) => {
            st.evals += n;
            st.transitions += n * (kvs.len() as u64 + 2);
        }
        Err(msg) => rep.violation(format!("fronts {}", if kvs.len() < 10 { kvs_str(kvs) } else { format!("{} keys", kvs.len()) }), msg, case),
    }
}

pub fn child_main() {
    match scope_digest() {
        Ok(d) => println!("DIGEST {:016x}", d),
        Err(e) => {
            println!("ERROR {}", e);
            std::process::exit(3);
        }
    }
}

pub fn plan(tier: Tier) -> Plan {
    let mut p = Plan::new("C15", "model_checking");
    let thorough = tier.thorough();
    let scan = shared_state_scan();
    p.rule = "(1) for every accepted sequence of the scope (subsets of U_ab3 with <= 4 keys quick / all thorough, x value patterns; fan-out families) the bytes through all 26 front ends (17 entry points + 6 usage variants: builders kept in use after rejected calls, several bulk calls on a populated builder + the 3 memory() constructors with into_fst/into_map/into_set), Builder::memory, a BufWriter, a 3-bytes-per-call sink and Map::from_iter are identical, and the raw front ends agree under the tiny cache geometries 1x1, 2x2, 3x3 (where evictions make the bytes depend on cache behaviour), also when repeated; the same for samples of the shipped corpora (400..10000 keys), where the DEFAULT cache is under pressure; the same for a long-tail family (10..64 keys of 66..502 bytes sharing long tails); (1b) bulk-load size ladder: 1 .. 400004 (thorough 3.3 million) generated items through every bulk entry point (iterators with exact size hints, streams, from_iter) against single inserts; (2) EVERY call-level interleaving (multiset permutations of the API calls new/insert.../finish) of every ordered pair (thorough: also triples of shorter jobs) of 6 builder jobs of different kinds and geometries driven from one thread: each builder must produce the bytes of its solo run (each pair runs on a fresh thread; pairs of jobs with wide nodes included); (2b) builders MOVED between fresh OS threads: a job started on thread A (every split point), handed to thread B, which finishes it and then builds another job / drops it and builds / builds first and then finishes it - every finished builder must produce the bytes of its solo run; (2b') about 65550 (thorough 131090) builds on ONE thread: each of 12 (15) probe inputs is built twice, EXACTLY 1, 2, 3, 255, 256, 257, 4095, 4096, 4097, 65535, 65536, 65537 (131071, 131072, 131073) builds apart with only unrelated small builds in between, and must equal its bytes from a fresh thread; (2c) a binary built WITHOUT the verification guard digests a fixed scope of public-API behaviour (bytes of all subsets of a 10-key universe, fan-outs 1..256, 60000 keys through three entry points; ranges, lookups, searches, set operations, get_key) and must agree group by group with this hooks-on process; (3) the whole-scope digest computed twice on one thread, on 8 free-running OS threads and in 4 child processes (std RandomState differs per process) must be equal - a repetition over an uncontrolled seed, reported as such. non-trivial = interleavings with at least one context switch".into();
    p.assumptions = vec![
        format!("the library has no synchronisation operation and no shared mutable state, so thread interleavings are one Mazurkiewicz trace and a controlled scheduler (loom/shuttle) would have no scheduling point to branch on; scan of /repo/src for static mut/thread_local/lazy_static/OnceCell/OnceLock/Atomic/Mutex/RwLock/RandomState/DefaultHasher/unsafe outside hook items found: {}", if scan.is_empty() { "nothing".to_string() } else { scan.join("; ") }),
        "call-level interleavings of builders on one thread expose any instance-crossing (global or thread-local) state".into(),
    ];
    p.extra.insert("shared_state_scan_hits".into(), json!(scan));
    {
        let u = u_ab3();
        let mut masks = vec![];
        for_each_mask_upto(u.keys.len(), if thorough { 15 } else { 4 }, &mut |m| masks.push(m));
        let chunk = (masks.len() + 127) / 128;
        for part in masks.chunks(chunk) {
            let part = part.to_vec();
            let u = u.clone();
            p.units.push(unit("U_ab3-all-front-ends-byte-identical", format!("fronts {} masks from {}", part.len(), part[0]), move |st, rep| {
                for &mask in &part {
                    if rep.stopped() { return; }
                    let keys = select(&u.keys, mask);
                    for pat in [Pat::Zero, Pat::Lin3, Pat::Boundary(2)] {
                        let kvs = pat.apply(&keys);
                        do_fronts(&kvs, &[(1, 1), (2, 2), (3, 3)], st, rep);
                    }
                    if mask == 0b1011 {
                        st.sample(|| json!({"kvs": kvs_str(&Pat::Lin3.apply(&keys)), "front_ends": 17}));
                    }
                }
            }));
        }
    }
    for n in [0usize, 1, 2, 33, 64, 256] {
        p.units.push(unit("fanout-all-front-ends-byte-identical", format!("fronts fanout {}", n), move |st, rep| {
            for (name, keys) in fanout_family(n) {
                if !name.contains("first") { continue; }
                do_fronts(&Pat::Lin3.apply(&keys), &[(1, 1), (2, 2)], st, rep);
                do_fronts(&Pat::Zero.apply(&keys), &[(2, 2)], st, rep);
            }
        }));
    }
    p.units.push(unit("long-tail-family-all-front-ends-byte-identical", "long tails".into(), move |st, rep| {
        for (_, kvs) in long_tail_family() {
            st.count("long_tail_cases", 1);
            st.nontrivial += 1;
            do_fronts(&kvs, &[(2, 2)], st, rep);
        }
    }));
    {
        let total = if thorough { 630 } else { 84 };
        for part in 0..16usize {
            p.units.push(unit("mixed-mid-size-family-all-front-ends-(finite-family)", format!("mixed part {}", part), move |st, rep| {
                for (i, (_, kvs)) in mixed_family(total).into_iter().enumerate() {
                    if i % 16 != part { continue; }
                    st.nontrivial += 1;
                    do_fronts_case(&kvs, &[(3, 3)], json!({"kind": "fronts-mixed", "index": i, "total": total}), st, rep);
                }
            }));
        }
    }
    for part in 0..16usize {
        p.units.push(unit("key-length-ladder-all-front-ends-(finite-family)", format!("length ladder part {}", part), move |st, rep| {
            for (_, kvs) in key_length_ladder(part, 16) {
                let l = kvs.iter().map(|x| x.0.len()).max().unwrap();
                if l > 1101 && l < 60_000 { continue; }
                st.nontrivial += 1;
                do_fronts_case(&kvs, &[(2, 2)], json!({"kind": "fronts-ladder", "len": l - 1}), st, rep);
            }
        }));
    }
    // inputs large enough to put the DEFAULT cache under pressure (evictions
    // decide the bytes there): every front end must still agree
    for (name, take, set) in [("words-10000", 10_000usize, true), ("words-10000", 10_000, false), ("words-10000", 3_000, false), ("words-10000", 400, true), ("wiki-urls-10000", 10_000, true), ("wiki-urls-10000", 1_500, false)] {
        p.units.push(unit("corpora-all-front-ends-byte-identical-(default-cache-under-pressure)", format!("fronts corpus {} first {} set={}", name, take, set), move |st, rep| {
            let kvs = match corpus_sample(name, take, set) {
                Ok(k) => k,
                Err(e) => { eprintln!("{}", e); std::process::exit(2) }
            };
            st.count("corpus_front_end_comparisons", 1);
            st.nontrivial += 1;
            do_fronts_case(&kvs, &[], json!({"kind": "fronts-corpus", "name": name, "take": take, "set": set}), st, rep);
        }));
    }
    // bulk-load size ladder (size hints of iterators; neither small nor round counts)
    {
        let mut ns: Vec<usize> = vec![1, 7, 100, 1_000, 1_800, 2_499, 2_500, 4_097, 10_001, 33_000, 65_537, 100_001, 320_031, 320_032, 400_004];
        if thorough {
            ns.extend([1_000_000, 1_048_577, 3_300_000]);
        }
        for n in ns {
            for set in [false, true] {
                if set && n > 100_001 && n != 400_004 {
                    continue;
                }
                p.units.push(unit("bulk-load-size-ladder-(finite-family)", format!("bulk {} set={}", n, set), move |st, rep| {
                    st.states += 1;
                    st.nontrivial += 1;
                    match run_bulk(n, set) {
                        Ok(c) => { st.evals += c; st.transitions += c * n as u64; st.count("bulk_builds_compared", c); }
                        Err(msg) => rep.violation(format!("bulk {} set={}", n, set), msg, json!({"kind": "bulk", "n": n, "set": set})),
                    }
                }));
            }
        }
    }
    // many builds on one thread
    {
        p.units.push(unit("many-builds-on-one-thread-(finite-family)", "many builds".into(), move |st, rep| {
            st.states += if thorough { 131_090 } else { 65_550 };
            match run_many_builds(thorough) {
                Ok(c) => { st.evals += c; st.count("rebuilds_compared_after_many_builds", c); }
                Err(msg) => rep.violation("many builds".into(), msg, json!({"kind": "many-builds", "thorough": thorough})),
            }
        }));
    }
    // builders moved between fresh threads
    {
        let all: Vec<Job> = jobs_list().into_iter().chain(wide_jobs()).collect();
        for i in 0..all.len() {
            for j in 0..all.len() {
                if (all[i].kvs.len() > 8 || all[j].kvs.len() > 8) && !(thorough || (i + j) % 3 == 0) {
                    continue;
                }
                let (a, b) = (all[i].clone(), all[j].clone());
                p.units.push(unit("builders-moved-between-fresh-threads", format!("thread moves {} {}", i, j), move |st, rep| {
                    st.states += 1;
                    match run_thread_moves(&a, &b) {
                        Ok(n) => { st.evals += n; st.transitions += n * 3; st.nontrivial += n; st.count("builder_hand_overs", n); }
                        Err(msg) => rep.violation(format!("thread moves {} {}", i, j), msg, json!({"kind": "thread-moves", "jobs": [i, j]})),
                    }
                }));
            }
        }
    }
    // the shipped configuration: the same scope of public-API behaviour digested
    // by a binary built WITHOUT the verification guard must equal the digest
    // computed in this (hooks-on) process
    p.units.push(unit("guard-off-build-parity", "plain".into(), move |st, rep| {
        let exe = format!("{}/plain/target/release/plain", crate::ev::verif_dir());
        let o = match std::process::Command::new(&exe).output() {
            Ok(o) if o.status.success() => o,
            Ok(o) => {
                rep.violation("guard-off build".into(), format!("the guard-off binary failed on the parity scope (exit {:?}): {}", o.status.code(), String::from_utf8_lossy(&o.stderr).lines().last().unwrap_or("")), json!({"kind": "plain"}));
                return;
            }
            Err(e) => {
                eprintln!("machinery: cannot run {}: {} (run ./check C15 or ./setup.sh)", exe, e);
                std::process::exit(2);
            }
        };
        let theirs: Vec<String> = String::from_utf8_lossy(&o.stdout).lines().filter(|l| l.starts_with("PLAIN ")).map(|l| l.to_string()).collect();
        let ours: Vec<String> = crate::plain_scope::scope_digests().into_iter().map(|(n, h)| format!("PLAIN {:016x} {}", h, n)).collect();
        st.evals += ours.len() as u64;
        st.states += ours.len() as u64;
        st.count("guard_off_parity_groups", ours.len() as u64);
        if theirs != ours {
            let d = ours.iter().zip(theirs.iter()).find(|(a, b)| a != b).map(|(a, b)| format!("hooks-on {:?} vs guard-off {:?}", a, b)).unwrap_or_else(|| format!("{} vs {} groups", ours.len(), theirs.len()));
            rep.violation("guard-off parity".into(), format!("the library built without the verification guard behaves differently from the checked build: {}", d), json!({"kind": "plain"}));
        }
    }));
    // interleavings
    let jobs = jobs_list();
    for i in 0..jobs.len() {
        for j in 0..jobs.len() {
            let pair = vec![jobs[i].clone(), jobs[j].clone()];
            p.units.push(unit("call-level-interleavings-of-2-builders", format!("interleave {} {}", i, j), move |st, rep| {
                st.states += 1;
                match run_interleavings(&pair) {
                    Ok(n) => {
                        st.evals += n;
                        st.transitions += n * 12;
                        st.nontrivial += n - 2;
                        st.count("interleavings", n);
                        st.outcome(i as u64 * 16 + j as u64);
                    }
                    Err(msg) => rep.violation(format!("interleave jobs {} {}", i, j), msg, json!({"kind": "interleave", "jobs": [i, j]})),
                }
            }));
        }
    }
    {
        let wj = wide_jobs();
        for i in 0..wj.len() {
            for j in 0..wj.len() {
                let pair = vec![wj[i].clone(), wj[j].clone()];
                p.units.push(unit("call-level-interleavings-of-2-builders-with-wide-nodes", format!("interleave wide {} {}", i, j), move |st, rep| {
                    st.states += 1;
                    match run_interleavings(&pair) {
                        Ok(n) => {
                            st.evals += n;
                            st.transitions += n * 6;
                            st.nontrivial += n - 2;
                            st.count("interleavings", n);
                        }
                        Err(msg) => rep.violation(format!("interleave wide jobs {} {}", i, j), msg, json!({"kind": "interleave-wide", "jobs": [i, j]})),
                    }
                }));
            }
        }
    }
    if thorough {
        for i in 0..jobs.len() {
            for j in 0..jobs.len() {
                for k in 0..jobs.len() {
                    let mut tri = vec![jobs[i].clone(), jobs[j].clone(), jobs[k].clone()];
                    for t in tri.iter_mut() {
                        t.kvs.truncate(2);
                    }
                    p.units.push(unit("call-level-interleavings-of-3-builders", format!("interleave {} {} {}", i, j, k), move |st, rep| {
                        match run_interleavings(&tri) {
                            Ok(n) => { st.evals += n; st.transitions += n * 12; st.nontrivial += n; st.count("interleavings", n); }
                            Err(msg) => rep.violation(format!("interleave jobs {} {} {}", i, j, k), msg, json!({"kind": "interleave3", "jobs": [i, j, k]})),
                        }
                    }));
                }
            }
        }
    }
    // threads and processes
    p.units.push(unit("threads-and-processes-digest", "digest".into(), move |st, rep| {
        let here = match scope_digest() { Ok(d) => d, Err(e) => { rep.violation("digest".into(), e, json!({"kind": "digest"})); return; } };
        st.evals += 1;
        // the same scope once more on this very thread (state left behind by the first pass)
        match scope_digest() {
            Ok(d) if d == here => st.count("same_thread_repetitions", 1),
            other => rep.violation("same thread twice".into(), format!("building the same scope a second time on the same thread produced different bytes: {:?} vs {:016x}", other.map(|d| format!("{:016x}", d)), here), json!({"kind": "digest"})),
        }
        let hs: Vec<_> = (0..8).map(|_| std::thread::spawn(scope_digest)).collect();
        for (i, h) in hs.into_iter().enumerate() {
            st.evals += 1;
            st.count("thread_digests", 1);
            match h.join() {
                Ok(Ok(d)) if d == here => {}
                other => rep.violation(format!("thread {}", i), format!("digest of the scope built on a parallel thread differs: {:?} vs {:016x}", other.map(|r| r.map(|d| format!("{:016x}", d))), here), json!({"kind": "digest"})),
            }
        }
        let exe = std::env::current_exe().unwrap();
        for i in 0..4 {
            st.evals += 1;
            let out = std::process::Command::new(&exe).arg("C15-CHILD").output();
            match out {
                Ok(o) if o.status.success() => {
                    let s = String::from_utf8_lossy(&o.stdout);
                    if s.trim() != format!("DIGEST {:016x}", here) {
                        rep.violation(format!("process {}", i), format!("a separate process produced different bytes: {} vs {:016x}", s.trim(), here), json!({"kind": "digest"}));
                    } else {
                        st.count("process_digests", 1);
                    }
                }
                other => {
                    eprintln!("machinery: child process failed: {:?}", other.map(|o| String::from_utf8_lossy(&o.stdout).to_string()));
                    std::process::exit(2);
                }
            }
        }
        st.sample(|| json!({"scope_digest": format!("{:016x}", here), "threads": 8, "processes": 4}));
    }));
    p.must_be_nonzero = vec!["guard_off_parity_groups".into(), "corpus_front_end_comparisons".into(), "interleavings".into(), "thread_digests".into(), "process_digests".into()];
    p
}
