//! C11 - I/O failures surface as errors, never as panics or silent success
//! (ENV engine: fault enumeration over every sink call).

use std::io::ErrorKind;

use fst::raw;
use serde_json::{json, Value};

use super::c07;
use super::util::*;
use crate::ev::{guard, unit, Plan, Tier};
use crate::model::*;
use crate::sink::{Ans, Policy, ScriptSink};

pub const FAULTS: [Ans; 4] = [
    Ans::Fail(ErrorKind::Other),
    Ans::Fail(ErrorKind::BrokenPipe),
    Ans::Fail(ErrorKind::PermissionDenied),
    Ans::Zero,
];

#[derive(Clone, Copy, Debug, PartialEq, Eq)]
pub enum Api {
    MapBuilder,
    SetBuilder,
    RawInsert,
    RawFinish, // finish() instead of into_inner()
    // the whole history through one bulk call
    RawExtendIter,
    RawExtendStream,
    MapExtendIter,
    MapExtendStream,
    SetExtendIter,
    SetExtendStream,
}

impl Api {
    fn is_bulk(self) -> bool {
        matches!(self, Api::RawExtendIter | Api::RawExtendStream | Api::MapExtendIter | Api::MapExtendStream | Api::SetExtendIter | Api::SetExtendStream)
    }
}

/// Runs the history with sink call `at` answering `fault` (and, if
/// `persistent`, every later call too), with an optional earlier benign
/// deviation. The history stops at the first Err, as a caller using `?` would.
pub fn run_fault(kvs: &[Kv], reference: &[u8], api: Api, at: usize, fault: Ans, persistent: bool, benign: Option<(usize, Ans)>) -> Result<String, String> {
    let r = run_fault_inner(kvs, reference, api, at, fault, persistent, benign)?;
    // a failed build leaves no trace in LATER builds on the same thread: the
    // same input through a well-behaved sink gives the fault-free bytes
    // first ANOTHER input with wide nodes over other labels (a rebuild of the
    // same input could repair whatever the failed build left behind) ...
    let (pk, pr) = probe();
    match super::c07::reference(pk) {
        Ok(again) if &again == pr => {}
        Ok(_) => return Err("a build of another input (wide nodes over other labels) on the same thread AFTER the failed build produced different bytes than on a fresh thread".into()),
        Err(e) => return Err(format!("a build of another input on the same thread after the failed build failed: {}", e)),
    }
    // ... then the same input again
    match super::c07::reference(kvs) {
        Ok(again) if again == reference => Ok(r),
        Ok(_) => Err("a build of the same input on the same thread AFTER the failed build produced different bytes than before it".into()),
        Err(e) => Err(format!("a build of the same input on the same thread after the failed build failed: {}", e)),
    }
}

/// The probe input built after every failed build, and its bytes as built on
/// the main thread before any fault was injected.
fn probe() -> &'static (Vec<Kv>, Vec<u8>) {
    static P: std::sync::OnceLock<(Vec<Kv>, Vec<u8>)> = std::sync::OnceLock::new();
    P.get_or_init(|| {
        let mut kvs: Vec<Kv> = vec![];
        for b in (0x80u8..0xd0).step_by(2) {
            kvs.push((vec![b], b as u64 * 1000));
            kvs.push((vec![b, b'y'], 7));
        }
        for b in 1u8..60 {
            kvs.push((vec![0xf0, b], 1 + b as u64));
        }
        kvs.sort();
        let r = super::c07::reference(&kvs).expect("probe build");
        (kvs, r)
    })
}

fn run_fault_inner(kvs: &[Kv], reference: &[u8], api: Api, at: usize, fault: Ans, persistent: bool, benign: Option<(usize, Ans)>) -> Result<String, String> {
    guard(|| {
        let mut sink = ScriptSink::new(benign.into_iter().collect(), Policy::Default);
        if persistent {
            sink.fail_from = Some((at, fault));
        } else {
            sink.script.push((at, fault));
        }
        // Drive the API; after each call look at how many sink calls happened.
        enum B {
            M(fst::MapBuilder<ScriptSink>),
            S(fst::SetBuilder<ScriptSink>),
            R(raw::Builder<ScriptSink>),
        }
        let check_err = |what: &str, e: &fst::Error| -> Result<String, String> {
            match e {
                fst::Error::Io(_) => Ok(format!("{} returned Err(Io)", what)),
                other => Err(format!("{} returned {:?} instead of Err(Io)", what, other)),
            }
        };
        // `new`: the sink is moved in; on error we cannot look at it, but the
        // error must be Io.
        let mut b = match api {
            Api::MapBuilder | Api::MapExtendIter | Api::MapExtendStream => match fst::MapBuilder::new(sink) { Ok(b) => B::M(b), Err(e) => return check_err("new", &e) },
            Api::SetBuilder | Api::SetExtendIter | Api::SetExtendStream => match fst::SetBuilder::new(sink) { Ok(b) => B::S(b), Err(e) => return check_err("new", &e) },
            _ => match raw::Builder::verif_new_with_registry(sink, 0, 3, 3) { Ok(b) => B::R(b), Err(e) => return check_err("new", &e) },
        };
        let ncalls = |b: &B| match b {
            B::M(b) => b.get_ref().calls.len(),
            B::S(b) => b.get_ref().calls.len(),
            B::R(b) => b.get_ref().calls.len(),
        };
        let accepted = |b: &B| match b {
            B::M(b) => b.get_ref().data.clone(),
            B::S(b) => b.get_ref().data.clone(),
            B::R(b) => b.get_ref().data.clone(),
        };
        // bytes_written() equals what the sink accepted, also after a failed call
        let counted_ok = |b: &B| -> Result<(), String> {
            let (w, a) = match b {
                B::M(b) => (b.bytes_written(), b.get_ref().data.len()),
                B::S(b) => (b.bytes_written(), b.get_ref().data.len()),
                B::R(b) => (b.bytes_written(), b.get_ref().data.len()),
            };
            if w != a as u64 {
                return Err(format!("bytes_written() = {} but the sink has accepted {} bytes", w, a));
            }
            Ok(())
        };
        if ncalls(&b) > at {
            return Err(format!("new returned Ok although sink call {} failed during it", at));
        }
        if api.is_bulk() {
            use crate::front::{VecStream, VecStreamKeys, VecStreamU64};
            let r = match (&mut b, api) {
                (B::R(b), Api::RawExtendIter) => b.extend_iter(kvs.iter().map(|(k, v)| (k, raw::Output::new(*v)))),
                (B::R(b), _) => b.extend_stream(VecStream::new(kvs)),
                (B::M(b), Api::MapExtendIter) => b.extend_iter(kvs.iter().map(|(k, v)| (k, *v))),
                (B::M(b), _) => b.extend_stream(VecStreamU64::new(kvs)),
                (B::S(b), Api::SetExtendIter) => b.extend_iter(kvs.iter().map(|(k, _)| k)),
                (B::S(b), _) => b.extend_stream(VecStreamKeys::new(kvs)),
            };
            let data = accepted(&b);
            if !reference.starts_with(&data) {
                return Err("after the bulk call the sink holds bytes that are not a prefix of the fault-free output".into());
            }
            counted_ok(&b)?;
            match r {
                Err(e) => {
                    if ncalls(&b) <= at {
                        return Err(format!("bulk call failed ({:?}) before the injected fault", e));
                    }
                    return check_err("bulk call", &e);
                }
                Ok(()) => {
                    if ncalls(&b) > at {
                        return Err(format!("bulk call returned Ok although sink call {} failed during it", at));
                    }
                }
            }
        }
        for (i, (k, v)) in kvs.iter().enumerate() {
            if api.is_bulk() {
                break;
            }
            let r = match &mut b {
                B::M(b) => b.insert(k, *v),
                B::S(b) => b.insert(k),
                B::R(b) => b.insert(k, *v),
            };
            let data = accepted(&b);
            if !reference.starts_with(&data) {
                return Err(format!("after insert {} the sink holds bytes that are not a prefix of the fault-free output", i));
            }
            counted_ok(&b)?;
            match r {
                Err(e) => {
                    if ncalls(&b) <= at {
                        return Err(format!("insert {} failed ({:?}) before the injected fault", i, e));
                    }
                    return check_err(&format!("insert {}", i), &e);
                }
                Ok(()) => {
                    if ncalls(&b) > at {
                        return Err(format!("insert {} returned Ok although sink call {} failed during it", i, at));
                    }
                }
            }
        }
        let r = match b {
            B::M(b) => b.into_inner().map(|_| ()),
            B::S(b) => b.finish(),
            B::R(b) => {
                if api == Api::RawFinish {
                    b.finish()
                } else {
                    b.into_inner().map(|_| ())
                }
            }
        };
        match r {
            Err(e) => check_err("finish", &e),
            Ok(()) => Err(format!("finish returned Ok although sink call {} failed ({:?})", at, fault)),
        }
    })
    .and_then(|x| x)
}

fn fault_json(a: Ans) -> Value {
    match a {
        Ans::Zero => json!("zero"),
        Ans::Interrupted => json!("interrupted"),
        Ans::Fail(k) => json!(format!("{:?}", k)),
        _ => json!("?"),
    }
}

fn fault_from(v: &Value) -> Ans {
    match v.as_str().unwrap() {
        "zero" => Ans::Zero,
        "interrupted" => Ans::Interrupted,
        "BrokenPipe" => Ans::Fail(ErrorKind::BrokenPipe),
        "PermissionDenied" => Ans::Fail(ErrorKind::PermissionDenied),
        _ => Ans::Fail(ErrorKind::Other),
    }
}

fn api_from(s: &str) -> Api {
    *[Api::MapBuilder, Api::SetBuilder, Api::RawInsert, Api::RawFinish, Api::RawExtendIter, Api::RawExtendStream, Api::MapExtendIter, Api::MapExtendStream, Api::SetExtendIter, Api::SetExtendStream].iter().find(|a| format!("{:?}", a) == s).unwrap()
}

pub fn replay(case: &Value) -> Result<String, String> {
    if let Some(k) = case["reentrant_fail_at"].as_u64() {
        return super::c07::reentrant_fault(&kvs_from(&case["kvs"]), k as usize, case["cap"].as_u64().unwrap() as usize).map(|_| "Err(Io), no panic".into());
    }
    if let Some(k) = case["burst"].as_u64() {
        let kvs = kvs_from(&case["kvs"]);
        let r = c07::reference(&kvs)?;
        return c07::run_one(&kvs, &r, &[], Policy::InterruptBurst(k as usize)).map(|c| format!("{} sink calls, all bytes arrived", c.len()));
    }
    let kvs = kvs_from(&case["kvs"]);
    let r = c07::reference(&kvs)?;
    let benign = if case["benign"].is_null() {
        None
    } else {
        let i = case["benign"][0].as_u64().unwrap() as usize;
        Some((i, if case["benign"][1] == "interrupted" { Ans::Interrupted } else { Ans::Short(case["benign"][1].as_u64().unwrap() as usize) }))
    };
    run_fault(&kvs, &r, api_from(case["api"].as_str().unwrap()), case["at"].as_u64().unwrap() as usize, fault_from(&case["fault"]), case["persistent"].as_bool().unwrap(), benign)
}

pub fn plan(tier: Tier) -> Plan {
    let _ = probe(); // built here, on the main thread, before any fault is injected
    let mut p = Plan::new("C11", "fault_enumeration");
    let thorough = tier.thorough();
    p.rule = "[also: a sink that uses the library on the same thread inside every write() and refuses sink call k, for every k (with and without short writes before): Err(Io), no panic, no success] for each input (the C07 list - every emission site: header, each node form, index table, count byte, footer, checksum, flush - plus every subset of U_ab2 as map and, from 3 keys, as set; a ten-key set and a 40-way fan-out set; a 9000-byte key followed by other keys, with a sample of the call indices); every input also through sinks that answer with bursts of 15..300 Interrupted results (must finish with every byte); W = measured number of sink calls of the fault-free run; for every call index 0..W (writes and the final flush), every failure kind {Err(Other), Err(BrokenPipe), Err(PermissionDenied), Ok(0); for flush also Err(Interrupted)}, single and persistent, through MapBuilder/SetBuilder/raw::Builder (into_inner and finish) with single inserts and with the whole history as one extend_iter / extend_stream call, and additionally with one benign deviation (every short write / Interrupted at every earlier call) before the fault: the API call during which the failing sink call happens must return Err(Io); no panic; no Ok from a call that saw the fault; accepted bytes stay a prefix of the fault-free output; bytes_written() equals the accepted bytes also after the failed call; and builds of the same input and of a probe input with other wide nodes on the same thread after the failed build give the fault-free bytes; for inputs of more than 5 keys a short write inside every block write followed by a fault at the next call. non-trivial = every injected fault (all distinct by index x kind x mode x api)".into();
    p.assumptions = vec![
        "the caller stops at the first Err (as with `?`); behaviour of a builder that is used after it returned an error is not asserted".into(),
        "Ok(0) is only injected into write calls, never into flush".into(),
    ];
    let mut inputs: Vec<(String, Vec<Kv>)> = c07::inputs().into_iter().map(|(n, k)| (n.to_string(), k)).collect();
    // sets (all values zero) large enough that nodes are written DURING the
    // insert / bulk calls, so that the set entry points see the faults too
    // one call that freezes more than 8 KiB of nodes: a 9000-byte key followed by an unrelated key
    inputs.push(("long-key-9000-then-another".into(), vec![(vec![b'a'; 9000], 5), (b"b".to_vec(), 1), (b"bc".to_vec(), 1 << 40)]));
    inputs.push(("set-of-ten-keys".into(), Pat::Zero.apply(&[b"a".to_vec(), b"aa".to_vec(), b"aab".to_vec(), b"ab".to_vec(), b"abc".to_vec(), b"b".to_vec(), b"ba".to_vec(), b"bca".to_vec(), b"c".to_vec(), b"cab".to_vec()])));
    inputs.push(("set-fanout-40".into(), Pat::Zero.apply(&(0..40u8).flat_map(|b| [vec![b'p', b], vec![b'p', b, b'x']]).collect::<Vec<Key>>())));
    let u = u_ab2();
    for mask in 0..(1u64 << u.keys.len()) {
        if thorough || mask % 5 == 0 {
            inputs.push((format!("U_ab2 mask {}", mask), Pat::Boundary(1).apply(&select(&u.keys, mask))));
            if mask.count_ones() >= 3 {
                inputs.push((format!("U_ab2 mask {} as set", mask), Pat::Zero.apply(&select(&u.keys, mask))));
            }
        }
    }
    for (name, kvs) in inputs {
        p.units.push(unit("fault-enumeration", format!("faults {}", name), move |st, rep| {
            let reference = match c07::reference(&kvs) { Ok(r) => r, Err(_) => return };
            let is_set = kvs.iter().all(|x| x.1 == 0);
            let mut apis: Vec<Api> = vec![Api::RawInsert, Api::RawFinish, Api::MapBuilder, Api::RawExtendIter, Api::RawExtendStream, Api::MapExtendIter, Api::MapExtendStream];
            if is_set {
                apis.extend([Api::SetBuilder, Api::SetExtendIter, Api::SetExtendStream]);
            }
            // no build is reported as finished unless every byte was accepted: sinks that
            // answer with long bursts of Interrupted (never a hard error) must still get everything
            for k in [15usize, 16, 17, 64, 300] {
                st.evals += 1;
                st.count("interrupted_burst_runs", 1);
                if let Err(msg) = c07::run_one(&kvs, &reference, &[], Policy::InterruptBurst(k)) {
                    rep.violation(format!("{} bursts of {} Interrupted", name, k), format!("a sink answering every call with {} consecutive Interrupted results first: {}", k, msg), json!({"kvs": kvs_json(&kvs), "burst": k}));
                }
            }
            // W from the fault-free run
            let calls = match c07::run_one(&kvs, &reference, &[], Policy::Default) { Ok(c) => c, Err(_) => return };
            let w = calls.len();
            st.max("max_sink_calls", w as u64);
            st.sample(|| json!({"input": name, "kvs": kvs_str(&kvs), "sink_calls": w}));
            // very long call logs: the first and last 24 calls and every 53rd in between
            let ats: Vec<usize> = if w > 2000 { (0..w).filter(|&a| a < 24 || a + 24 >= w || a % 53 == 0).collect() } else { (0..w).collect() };
            if w > 2000 {
                apis.retain(|a| matches!(a, Api::RawInsert | Api::MapBuilder | Api::RawExtendIter | Api::MapExtendStream));
            }
            for at in ats {
                // an Interrupted error from flush() is an error return like any other
                // (write calls retry it, flush does not)
                for fault in FAULTS.iter().cloned().chain(if calls[at].is_flush { Some(Ans::Interrupted) } else { None }) {
                    if calls[at].is_flush && fault == Ans::Zero {
                        continue;
                    }
                    for persistent in [false, true] {
                        for &api in &apis {
                            st.evals += 1;
                            st.states += 1;
                            st.transitions += at as u64 + 1;
                            st.nontrivial += 1;
                            st.count("faults_injected", 1);
                            if let Err(msg) = run_fault(&kvs, &reference, api, at, fault, persistent, None) {
                                rep.violation(
                                    format!("{} {:?} call {} {:?} persistent={}", name, api, at, fault, persistent),
                                    msg,
                                    json!({"kvs": kvs_json(&kvs), "api": format!("{:?}", api), "at": at, "fault": fault_json(fault), "persistent": persistent, "benign": null}),
                                );
                            }
                        }
                    }
                }
            }
            // larger inputs: a short write inside every BLOCK write (>= 16 bytes, e.g. the
            // 256-byte index of a wide node) followed by a fault at the very next call
            if (kvs.len() > 5 && !thorough) || w > 2000 {
                for dev_at in 0..w {
                    let len = calls[dev_at].len;
                    if calls[dev_at].is_flush || len < 16 {
                        continue;
                    }
                    let mut ns: Vec<usize> = vec![1, 15, 16, 17, len / 2, len - 1];
                    ns.retain(|&n| n >= 1 && n < len);
                    ns.dedup();
                    for n in ns {
                        for fault in [Ans::Fail(ErrorKind::Other), Ans::Zero] {
                            st.evals += 1;
                            st.states += 1;
                            st.nontrivial += 1;
                            st.count("faults_after_deviation", 1);
                            if let Err(msg) = run_fault(&kvs, &reference, Api::RawInsert, dev_at + 1, fault, false, Some((dev_at, Ans::Short(n)))) {
                                rep.violation(
                                    format!("{} deviation Short({})@{} then {:?}@{}", name, n, dev_at, fault, dev_at + 1),
                                    msg,
                                    json!({"kvs": kvs_json(&kvs), "api": "RawInsert", "at": dev_at + 1, "fault": fault_json(fault), "persistent": false, "benign": [dev_at, n]}),
                                );
                            }
                        }
                    }
                }
            }
            // one benign deviation before the fault (raw builder)
            if (kvs.len() <= 5 || thorough) && w <= 2000 {
                for dev_at in 0..w {
                    if calls[dev_at].is_flush {
                        continue;
                    }
                    let mut devs = vec![Ans::Interrupted];
                    for n in 1..calls[dev_at].len {
                        devs.push(Ans::Short(n));
                    }
                    for dev in devs {
                        // call log with the deviation in place
                        let calls2 = match c07::run_one(&kvs, &reference, &[(dev_at, dev)], Policy::Default) { Ok(c) => c, Err(_) => continue };
                        for at in (dev_at + 1)..calls2.len() {
                            for fault in [Ans::Fail(ErrorKind::Other), Ans::Zero] {
                                if calls2[at].is_flush && fault == Ans::Zero {
                                    continue;
                                }
                                st.evals += 1;
                                st.states += 1;
                                st.nontrivial += 1;
                                st.count("faults_after_deviation", 1);
                                if let Err(msg) = run_fault(&kvs, &reference, Api::RawInsert, at, fault, false, Some((dev_at, dev))) {
                                    let bj = match dev { Ans::Short(n) => json!([dev_at, n]), _ => json!([dev_at, "interrupted"]) };
                                    rep.violation(
                                        format!("{} deviation {:?}@{} then {:?}@{}", name, dev, dev_at, fault, at),
                                        msg,
                                        json!({"kvs": kvs_json(&kvs), "api": "RawInsert", "at": at, "fault": fault_json(fault), "persistent": false, "benign": bj}),
                                    );
                                }
                            }
                        }
                    }
                }
            }
        }));
    }
    // a sink that uses the library on the same thread inside write() and refuses call k
    for (name, kvs) in super::c07::inputs() {
        p.units.push(unit("re-entrant-sink-refusing-every-call-index", format!("re-entrant {}", name), move |st, rep| {
            for cap in [2usize, 4096] {
                let mut k = 0;
                loop {
                    st.evals += 1;
                    st.states += 1;
                    st.count("reentrant_fault_runs", 1);
                    match super::c07::reentrant_fault(&kvs, k, cap) {
                        Ok(true) => k += 1 + k / 40,
                        Ok(false) => break,
                        Err(msg) => {
                            rep.violation(format!("{} re-entrant sink refusing call {} cap {}", name, k + 1, cap), msg, json!({"reentrant_fail_at": k, "cap": cap, "kvs": kvs_json(&kvs)}));
                            break;
                        }
                    }
                    if k > 3000 { break; }
                }
            }
        }));
    }
    p.must_be_nonzero = vec!["faults_injected".into(), "faults_after_deviation".into()];
    p
}
