//! C05 - set operations over ordered streams equal their mathematical
//! definitions (SEQ engine).

use std::collections::BTreeMap;
use std::sync::Arc;

use fst::automaton::AlwaysMatch;
use fst::raw::{self, Fst, IndexedValue};
use fst::{Map, Set, Streamer};
use serde_json::{json, Value};

use super::util::*;
use crate::ev::{fnv, guard, unit, Plan, Tier};
use crate::front::{self, Front, VecStream, VecStreamKeys, VecStreamU64};
use crate::model::*;

#[derive(Clone, Copy, Debug, PartialEq, Eq)]
pub enum Kind {
    Whole,
    RangeGe,
    SearchAlways,
    UserVec,
}
pub const KINDS: [Kind; 4] = [Kind::Whole, Kind::RangeGe, Kind::SearchAlways, Kind::UserVec];

#[derive(Clone, Copy, Debug, PartialEq, Eq)]
pub enum Op {
    Union,
    Intersection,
    Difference,
    SymmetricDifference,
}
pub const OPS: [Op; 4] = [Op::Union, Op::Intersection, Op::Difference, Op::SymmetricDifference];

type Row = (Key, Vec<(usize, u64)>);

/// Set algebra on the models.
pub fn expected(op: Op, streams: &[Vec<Kv>]) -> Vec<Row> {
    let mut all: BTreeMap<Key, Vec<(usize, u64)>> = BTreeMap::new();
    for (i, s) in streams.iter().enumerate() {
        for (k, v) in s {
            all.entry(k.clone()).or_default().push((i, *v));
        }
    }
    let k = streams.len();
    all.into_iter()
        .filter_map(|(key, ivs)| match op {
            Op::Union => Some((key, ivs)),
            Op::Intersection => (ivs.len() == k).then(|| (key, ivs)),
            Op::SymmetricDifference => (ivs.len() % 2 == 1).then(|| (key, ivs)),
            Op::Difference => (ivs.len() == 1 && ivs[0].0 == 0).then(|| (key, ivs)),
        })
        .collect()
}

fn norm(ivs: &[IndexedValue]) -> Vec<(usize, u64)> {
    let mut v: Vec<(usize, u64)> = ivs.iter().map(|iv| (iv.index, iv.value)).collect();
    v.sort();
    v
}

fn drain_op<S>(mut s: S) -> Result<Vec<Row>, String>
where
    S: for<'a> Streamer<'a, Item = (&'a [u8], &'a [IndexedValue])>,
{
    let mut out = vec![];
    while let Some((k, ivs)) = s.next() {
        out.push((k.to_vec(), norm(ivs)));
        if out.len() > 10_000 {
            return Err("operation stream does not end".into());
        }
    }
    if s.next().is_some() {
        return Err("operation stream yielded an item after it had ended".into());
    }
    Ok(out)
}

fn drain_keys<S>(mut s: S) -> Result<Vec<Key>, String>
where
    S: for<'a> Streamer<'a, Item = &'a [u8]>,
{
    let mut out = vec![];
    while let Some(k) = s.next() {
        out.push(k.to_vec());
        if out.len() > 10_000 {
            return Err("operation stream does not end".into());
        }
    }
    Ok(out)
}

/// One stream of a tuple: its content, its FST and the way it is presented.
pub struct Src {
    pub kvs: Vec<Kv>,
    pub bytes: Vec<u8>,
}

pub fn make_src(kvs: Vec<Kv>) -> Result<Src, String> {
    let bytes = front::build(Front::RawInsert, (3, 3), &kvs)?;
    Ok(Src { kvs, bytes })
}

fn check_rows(what: &str, got: Vec<Row>, want: &[Row]) -> Result<(), String> {
    if got != want {
        let f = |r: &[Row]| {
            r.iter().map(|(k, iv)| format!("{}:{:?}", key_str(k), iv)).collect::<Vec<_>>().join(" ")
        };
        return Err(format!("{} gave [{}] expected [{}]", what, f(&got), f(want)));
    }
    Ok(())
}

/// Runs the four operations on one tuple of streams through the three
/// OpBuilder front ends.
pub fn run_tuple(srcs: &[&Src], kinds: &[Kind], collect_forms: bool) -> Result<u64, String> {
    guard(|| {
        let fsts: Vec<Fst<&[u8]>> =
            srcs.iter().map(|s| Fst::new(&s.bytes[..]).unwrap()).collect();
        let maps: Vec<Map<&[u8]>> = srcs.iter().map(|s| Map::new(&s.bytes[..]).unwrap()).collect();
        let sets: Vec<Set<&[u8]>> = srcs.iter().map(|s| Set::new(&s.bytes[..]).unwrap()).collect();
        let streams: Vec<Vec<Kv>> = srcs.iter().map(|s| s.kvs.clone()).collect();
        let mut n = 0u64;
        for op in OPS {
            let want = expected(op, &streams);
            // raw
            let mut b = raw::OpBuilder::new();
            for (i, k) in kinds.iter().enumerate() {
                match k {
                    Kind::Whole => b.push(&fsts[i]),
                    Kind::RangeGe => b.push(fsts[i].range().ge(b"")),
                    Kind::SearchAlways => b.push(fsts[i].search(AlwaysMatch)),
                    Kind::UserVec => b.push(VecStream::new(&srcs[i].kvs)),
                }
            }
            let got = match op {
                Op::Union => drain_op(b.union())?,
                Op::Intersection => drain_op(b.intersection())?,
                Op::Difference => drain_op(b.difference())?,
                Op::SymmetricDifference => drain_op(b.symmetric_difference())?,
            };
            n += 1;
            check_rows(&format!("raw {:?} kinds {:?}", op, kinds), got, &want)?;
            // map
            let mut b = fst::map::OpBuilder::new();
            for (i, k) in kinds.iter().enumerate() {
                match k {
                    Kind::Whole => b.push(&maps[i]),
                    Kind::RangeGe => b.push(maps[i].range().ge(b"")),
                    Kind::SearchAlways => b.push(maps[i].search(AlwaysMatch)),
                    Kind::UserVec => b.push(VecStreamU64::new(&srcs[i].kvs)),
                }
            }
            let got = match op {
                Op::Union => drain_op(b.union())?,
                Op::Intersection => drain_op(b.intersection())?,
                Op::Difference => drain_op(b.difference())?,
                Op::SymmetricDifference => drain_op(b.symmetric_difference())?,
            };
            n += 1;
            check_rows(&format!("map {:?} kinds {:?}", op, kinds), got, &want)?;
            // set
            let mut b = fst::set::OpBuilder::new();
            for (i, k) in kinds.iter().enumerate() {
                match k {
                    Kind::Whole => b.push(&sets[i]),
                    Kind::RangeGe => b.push(sets[i].range().ge(b"")),
                    Kind::SearchAlways => b.push(sets[i].search(AlwaysMatch)),
                    Kind::UserVec => b.push(VecStreamKeys::new(&srcs[i].kvs)),
                }
            }
            let got = match op {
                Op::Union => drain_keys(b.union())?,
                Op::Intersection => drain_keys(b.intersection())?,
                Op::Difference => drain_keys(b.difference())?,
                Op::SymmetricDifference => drain_keys(b.symmetric_difference())?,
            };
            n += 1;
            let wantk: Vec<Key> = want.iter().map(|r| r.0.clone()).collect();
            if got != wantk {
                return Err(format!("set {:?} kinds {:?} gave {:?} expected {:?}", op, kinds, got, wantk));
            }
            if collect_forms {
                // FromIterator / Extend / add-chaining forms
                let b: raw::OpBuilder = fsts.iter().collect();
                let got = match op {
                    Op::Union => drain_op(b.union())?,
                    Op::Intersection => drain_op(b.intersection())?,
                    Op::Difference => drain_op(b.difference())?,
                    Op::SymmetricDifference => drain_op(b.symmetric_difference())?,
                };
                check_rows(&format!("raw FromIterator {:?}", op), got, &want)?;
                let mut b = fst::map::OpBuilder::new();
                b.extend(maps.iter());
                let got = match op {
                    Op::Union => drain_op(b.union())?,
                    Op::Intersection => drain_op(b.intersection())?,
                    Op::Difference => drain_op(b.difference())?,
                    Op::SymmetricDifference => drain_op(b.symmetric_difference())?,
                };
                check_rows(&format!("map Extend {:?}", op), got, &want)?;
                let b: fst::set::OpBuilder = sets.iter().collect();
                let got = match op {
                    Op::Union => drain_keys(b.union())?,
                    Op::Intersection => drain_keys(b.intersection())?,
                    Op::Difference => drain_keys(b.difference())?,
                    Op::SymmetricDifference => drain_keys(b.symmetric_difference())?,
                };
                if got != wantk {
                    return Err(format!("set FromIterator {:?} gave {:?} expected {:?}", op, got, wantk));
                }
                // op().add() chaining starting from the first stream
                let mut b = maps[0].op();
                for m in &maps[1..] {
                    b = b.add(m);
                }
                let got = match op {
                    Op::Union => drain_op(b.union())?,
                    Op::Intersection => drain_op(b.intersection())?,
                    Op::Difference => drain_op(b.difference())?,
                    Op::SymmetricDifference => drain_op(b.symmetric_difference())?,
                };
                check_rows(&format!("map op().add() {:?}", op), got, &want)?;
                n += 4;
                // builders that already hold streams and are then extended: op() / push
                // for the first stream, extend with the middle ones (an EMPTY extend
                // before and after), push for the last - every split point
                let k = fsts.len();
                for split in 1..=k {
                    let last = if split < k { k - 1 } else { k };
                    let mut b = fsts[0].op();
                    b.extend(std::iter::empty::<&Fst<&[u8]>>());
                    b.extend(fsts[1..split.min(last).max(1)].iter());
                    b.extend(fsts[split.min(last).max(1)..last].iter());
                    b.extend(std::iter::empty::<&Fst<&[u8]>>());
                    if last < k {
                        b.push(&fsts[k - 1]);
                    }
                    let got = match op {
                        Op::Union => drain_op(b.union())?,
                        Op::Intersection => drain_op(b.intersection())?,
                        Op::Difference => drain_op(b.difference())?,
                        Op::SymmetricDifference => drain_op(b.symmetric_difference())?,
                    };
                    check_rows(&format!("raw op() + extend x2 (split {}) + push {:?}", split, op), got, &want)?;
                    // the other order: a bulk add FIRST (extend on an empty builder, or collect),
                    // then every remaining stream pushed / added one by one
                    for via_collect in [false, true] {
                        let head = &fsts[..split.min(k)];
                        let mut b: raw::OpBuilder = if via_collect { head.iter().collect() } else { let mut b = raw::OpBuilder::new(); b.extend(head.iter()); b };
                        for (j, f) in fsts[split.min(k)..].iter().enumerate() {
                            if j % 2 == 0 { b.push(f); } else { b = b.add(f); }
                        }
                        let got = match op {
                            Op::Union => drain_op(b.union())?,
                            Op::Intersection => drain_op(b.intersection())?,
                            Op::Difference => drain_op(b.difference())?,
                            Op::SymmetricDifference => drain_op(b.symmetric_difference())?,
                        };
                        check_rows(&format!("raw {} of the first {} streams, then push/add of the rest, {:?}", if via_collect { "collect" } else { "extend on an empty builder" }, split.min(k), op), got, &want)?;
                        let headm = &maps[..split.min(k)];
                        let mut b: fst::map::OpBuilder = if via_collect { headm.iter().collect() } else { let mut b = fst::map::OpBuilder::new(); b.extend(headm.iter()); b };
                        for (j, m) in maps[split.min(k)..].iter().enumerate() {
                            if j % 2 == 0 { b.push(m); } else { b = b.add(m); }
                        }
                        let got = match op {
                            Op::Union => drain_op(b.union())?,
                            Op::Intersection => drain_op(b.intersection())?,
                            Op::Difference => drain_op(b.difference())?,
                            Op::SymmetricDifference => drain_op(b.symmetric_difference())?,
                        };
                        check_rows(&format!("map {} of the first {} streams, then push/add of the rest, {:?}", if via_collect { "collect" } else { "extend on an empty builder" }, split.min(k), op), got, &want)?;
                    }
                    let mut b = maps[0].op();
                    b.extend(std::iter::empty::<&Map<&[u8]>>());
                    b.extend(maps[1..split.min(last).max(1)].iter());
                    b.extend(maps[split.min(last).max(1)..last].iter());
                    b.extend(std::iter::empty::<&Map<&[u8]>>());
                    if last < k {
                        b.push(&maps[k - 1]);
                    }
                    let got = match op {
                        Op::Union => drain_op(b.union())?,
                        Op::Intersection => drain_op(b.intersection())?,
                        Op::Difference => drain_op(b.difference())?,
                        Op::SymmetricDifference => drain_op(b.symmetric_difference())?,
                    };
                    check_rows(&format!("map op() + extend x2 (split {}) + push {:?}", split, op), got, &want)?;
                    let mut b = sets[0].op();
                    b.extend(std::iter::empty::<&Set<&[u8]>>());
                    b.extend(sets[1..split.min(last).max(1)].iter());
                    b.extend(sets[split.min(last).max(1)..last].iter());
                    b.extend(std::iter::empty::<&Set<&[u8]>>());
                    if last < k {
                        b.push(&sets[k - 1]);
                    }
                    let got = match op {
                        Op::Union => drain_keys(b.union())?,
                        Op::Intersection => drain_keys(b.intersection())?,
                        Op::Difference => drain_keys(b.difference())?,
                        Op::SymmetricDifference => drain_keys(b.symmetric_difference())?,
                    };
                    if got != wantk {
                        return Err(format!("set op() + extend x2 (split {}) + push {:?} gave {:?} expected {:?}", split, op, got, wantk));
                    }
                    n += 3;
                }
            }
        }
        Ok(n)
    })
    .and_then(|x| x)
}

/// is_disjoint / is_subset / is_superset for one ordered pair.
pub fn run_pair(a: &Src, b: &Src) -> Result<u64, String> {
    guard(|| {
        let sa = Set::new(&a.bytes[..]).unwrap();
        let sb = Set::new(&b.bytes[..]).unwrap();
        let fa = Fst::new(&a.bytes[..]).unwrap();
        let fb = Fst::new(&b.bytes[..]).unwrap();
        let ka: Vec<&Key> = a.kvs.iter().map(|x| &x.0).collect();
        let kb: Vec<&Key> = b.kvs.iter().map(|x| &x.0).collect();
        let disjoint = ka.iter().all(|k| !kb.contains(k));
        let subset = ka.iter().all(|k| kb.contains(k));
        let superset = kb.iter().all(|k| ka.contains(k));
        let mut n = 0;
        for kind in KINDS {
            let got = match kind {
                Kind::UserVec => (
                    sa.is_disjoint(VecStreamKeys::new(&b.kvs)), sa.is_subset(VecStreamKeys::new(&b.kvs)), sa.is_superset(VecStreamKeys::new(&b.kvs)),
                    fa.is_disjoint(VecStream::new(&b.kvs)), fa.is_subset(VecStream::new(&b.kvs)), fa.is_superset(VecStream::new(&b.kvs)),
                ),
                Kind::Whole => (
                    sa.is_disjoint(&sb), sa.is_subset(&sb), sa.is_superset(&sb),
                    fa.is_disjoint(&fb), fa.is_subset(&fb), fa.is_superset(&fb),
                ),
                Kind::RangeGe => (
                    sa.is_disjoint(sb.range().ge(b"")), sa.is_subset(sb.range().ge(b"")), sa.is_superset(sb.range().ge(b"")),
                    fa.is_disjoint(fb.range().ge(b"")), fa.is_subset(fb.range().ge(b"")), fa.is_superset(fb.range().ge(b"")),
                ),
                Kind::SearchAlways => (
                    sa.is_disjoint(sb.search(AlwaysMatch)), sa.is_subset(sb.search(AlwaysMatch)), sa.is_superset(sb.search(AlwaysMatch)),
                    fa.is_disjoint(fb.search(AlwaysMatch)), fa.is_subset(fb.search(AlwaysMatch)), fa.is_superset(fb.search(AlwaysMatch)),
                ),
            };
            n += 6;
            let want = (disjoint, subset, superset, disjoint, subset, superset);
            if got != want {
                return Err(format!(
                    "predicates (Set disjoint/subset/superset, Fst ...) with {:?} stream gave {:?} expected {:?}",
                    kind, got, want
                ));
            }
        }
        Ok(n)
    })
    .and_then(|x| x)
}

fn values(mode: usize, i: usize, keys: &[Key], universe: &[Key]) -> Vec<Kv> {
    keys.iter()
        .map(|k| {
            let j = universe.iter().position(|u| u == k).unwrap();
            (k.clone(), if mode == 0 { (10 * i + j) as u64 } else { 5 })
        })
        .collect()
}

pub fn replay(case: &Value) -> Result<String, String> {
    let streams: Vec<Vec<Kv>> = case["streams"].as_array().unwrap().iter().map(kvs_from).collect();
    let srcs: Vec<Src> = streams.into_iter().map(|s| make_src(s).unwrap()).collect();
    let refs: Vec<&Src> = srcs.iter().collect();
    if case["pair"].as_bool() == Some(true) {
        return run_pair(refs[0], refs[1]).map(|n| format!("{} predicate calls agree", n));
    }
    let kinds: Vec<Kind> = case["kinds"]
        .as_array()
        .unwrap()
        .iter()
        .map(|k| *KINDS.iter().find(|x| format!("{:?}", x) == k.as_str().unwrap()).unwrap())
        .collect();
    run_tuple(&refs, &kinds, true).map(|n| format!("{} operation streams agree", n))
}

pub fn plan(tier: Tier) -> Plan {
    let mut p = Plan::new("C05", "model_checking");
    let thorough = tier.thorough();
    p.rule = "every k-tuple (k=1..4) of subsets of U4={'',a,ab,b} and (k=5,6) of U3={'',a,b}, and (k=2,3) of Unul={'',00,a,a00} (keys differing only in trailing NUL bytes) and of Ulong (8-11 byte keys sharing a 7-byte prefix), values 10*stream+key-index and constant 5 (heap ties), stream kinds {whole FST, range().ge(''), search(AlwaysMatch), user Vec streamer} (all kind vectors for k<=3 quick / k<=4 thorough, a rotating vector above), four operations through raw/map/set OpBuilder (+FromIterator/Extend/op().add() forms, and builders that already hold streams extended twice - also with empty iterators - at every split point, then pushed to; and the other order: a bulk add first - extend on an empty builder, or collect - then push / add of every remaining stream), IndexedValue lists compared as sets; is_disjoint/is_subset/is_superset for all ordered pairs x stream kinds; finite family of 7..40, 64, 100, 257, 300 operand streams over a 6-key universe (4 layouts each); run-length family: every sequence of <= 4 (2 streams) / <= 3 (3 streams) segments, a segment being 1, 7, 8, 9 or 17 (thorough up to 33) consecutive keys held by one fixed non-empty group of the streams, neighbours differing in the group. non-trivial = tuples with k >= 2 and at least two non-empty streams".into();
    p.assumptions = vec!["order inside an IndexedValue list is unspecified and is normalised before comparison".into()];
    let u4: Vec<Key> = vec![b"".to_vec(), b"a".to_vec(), b"ab".to_vec(), b"b".to_vec()];
    let u3: Vec<Key> = vec![b"".to_vec(), b"a".to_vec(), b"b".to_vec()];
    // keys that differ only in trailing NUL bytes (ordering of a key and its
    // zero-padded extensions)
    let un: Vec<Key> = vec![b"".to_vec(), b"\0".to_vec(), b"a".to_vec(), b"a\0".to_vec()];
    // keys of 8..11 bytes sharing their first 7 bytes, of different lengths,
    // the longer ones not always the larger ones
    let ul: Vec<Key> = vec![b"https:/b".to_vec(), b"https:/bb.e".to_vec(), b"https:/bbb".to_vec(), b"https:/c.e".to_vec()];
    for (uni, ks) in [(u4.clone(), vec![1usize, 2, 3, 4]), (u3.clone(), vec![5, 6]), (un.clone(), vec![2, 3]), (ul.clone(), vec![2, 3])] {
        let nsub = 1usize << uni.len();
        // pre-built sources: [mode][stream index][mask]
        let mut table: Vec<Vec<Vec<Src>>> = vec![];
        for mode in 0..2 {
            let mut per_i = vec![];
            for i in 0..6 {
                let mut per_m = vec![];
                for mask in 0..nsub {
                    per_m.push(make_src(values(mode, i, &select(&uni, mask as u64), &uni)).expect("build"));
                }
                per_i.push(per_m);
            }
            table.push(per_i);
        }
        let table = Arc::new(table);
        for k in ks {
            let total = (nsub as u64).pow(k as u32);
            for (a, b) in ranges(total, 128) {
                let table = table.clone();
                let uname = if uni == ul { "Ulong" } else if uni == un { "Unul" } else if uni.len() == 4 { "U4" } else { "U3" };
                p.units.push(unit(
                    &format!("{}-all-{}-tuples", uname, k),
                    format!("{} k={} tuples {}..{}", uname, k, a, b),
                    move |st, rep| {
                        for code in a..b {
                            if rep.stopped() {
                                return;
                            }
                            let mut c = code as usize;
                            let masks: Vec<usize> = (0..k).map(|_| { let m = c % nsub; c /= nsub; m }).collect();
                            let nonempty = masks.iter().filter(|&&m| m != 0).count();
                            if k >= 2 && nonempty >= 2 {
                                st.nontrivial += 1;
                            }
                            let all_kinds = k <= if thorough { 4 } else { 3 };
                            let nkv = if all_kinds { 4usize.pow(k as u32) } else { 1 };
                            for mode in 0..2 {
                                let srcs: Vec<&Src> = masks.iter().enumerate().map(|(i, &m)| &table[mode][i][m]).collect();
                                for kv in 0..nkv {
                                    // quick: full kind vectors only for value mode 0
                                    if mode == 1 && kv != 0 && !thorough {
                                        continue;
                                    }
                                    let kinds: Vec<Kind> = if all_kinds {
                                        let mut x = kv;
                                        (0..k).map(|_| { let r = KINDS[x % 4]; x /= 4; r }).collect()
                                    } else {
                                        (0..k).map(|i| KINDS[(i + code as usize) % 4]).collect()
                                    };
                                    st.states += 1;
                                    match run_tuple(&srcs, &kinds, kv == 0) {
                                        Ok(n) => {
                                            st.evals += n;
                                            st.transitions += n * (1 + srcs.iter().map(|s| s.kvs.len() as u64).sum::<u64>());
                                            if kv == 0 && mode == 0 {
                                                st.outcome(fnv(format!("{:?}", masks).as_bytes()));
                                            }
                                        }
                                        Err(msg) => rep.violation(
                                            format!("{:?} {:?}", srcs.iter().map(|s| kvs_str(&s.kvs)).collect::<Vec<_>>(), kinds),
                                            msg,
                                            json!({"streams": srcs.iter().map(|s| kvs_json(&s.kvs)).collect::<Vec<_>>(), "kinds": kinds.iter().map(|k| format!("{:?}", k)).collect::<Vec<_>>()}),
                                        ),
                                    }
                                }
                            }
                            if code % 997 == 0 {
                                st.sample(|| json!({"k": k, "streams": masks.iter().enumerate().map(|(i, &m)| kvs_str(&table[0][i][m].kvs)).collect::<Vec<_>>()}));
                            }
                        }
                    },
                ));
            }
        }
    }
    // run-length family: long runs of keys that come from one stream only (or from a fixed
    // group of streams), separated by shared keys - state that an implementation may carry
    // from key to key (fast paths for runs, recycled slots) across 8 / 16 / 32 consecutive keys
    {
        let ls2: Vec<usize> = if thorough { vec![1, 2, 7, 8, 9, 15, 16, 17, 33] } else { vec![1, 7, 8, 9, 17] };
        let ls3: Vec<usize> = if thorough { vec![1, 8, 9, 17] } else { vec![1, 8, 9] };
        for (nstreams, ls, maxseg) in [(2usize, ls2, 4usize), (3, ls3, 3)] {
            let whos: Vec<u8> = (1..(1u8 << nstreams)).collect();
            let mut kinds_of_seg: Vec<(u8, usize)> = vec![];
            for &w in &whos { for &l in &ls { kinds_of_seg.push((w, l)); } }
            // all sequences of 1..=maxseg segments whose neighbours differ in `who`
            let mut seqs: Vec<Vec<(u8, usize)>> = kinds_of_seg.iter().map(|x| vec![*x]).collect();
            let mut frontier = seqs.clone();
            for _ in 1..maxseg {
                let mut next = vec![];
                for sq in &frontier {
                    for k in &kinds_of_seg {
                        if k.0 != sq.last().unwrap().0 {
                            let mut t = sq.clone();
                            t.push(*k);
                            next.push(t);
                        }
                    }
                }
                seqs.extend(next.iter().cloned());
                frontier = next;
            }
            let seqs = Arc::new(seqs);
            let total = seqs.len() as u64;
            for (a, b) in ranges(total, 64) {
                let seqs = seqs.clone();
                p.units.push(unit("run-length-family-(runs-of-1..33-keys-from-one-group-of-streams)", format!("{} streams, sequences {}..{}", nstreams, a, b), move |st, rep| {
                    for ci in a..b {
                        if rep.stopped() { return; }
                        let sq = &seqs[ci as usize];
                        let mut streams: Vec<Vec<Kv>> = vec![vec![]; nstreams];
                        let mut i = 0u64;
                        for (who, l) in sq {
                            for _ in 0..*l {
                                let key = vec![b'k', (i >> 8) as u8, i as u8];
                                for (j, s) in streams.iter_mut().enumerate() {
                                    if who & (1 << j) != 0 {
                                        s.push((key.clone(), 10 * (i + 1) + j as u64));
                                    }
                                }
                                i += 1;
                            }
                        }
                        let srcs: Vec<Src> = streams.into_iter().map(|s| make_src(s).unwrap()).collect();
                        let refs: Vec<&Src> = srcs.iter().collect();
                        let kinds: Vec<Kind> = (0..nstreams).map(|j| KINDS[(ci as usize + j) % KINDS.len()]).collect();
                        st.states += 1;
                        st.nontrivial += 1;
                        match run_tuple(&refs, &kinds, false) {
                            Ok(n) => { st.evals += n; st.transitions += n * i; st.count("run_length_operation_streams", n); }
                            Err(msg) => rep.violation(format!("runs {:?} kinds {:?}", sq, kinds), msg, json!({"streams": srcs.iter().map(|s| kvs_json(&s.kvs)).collect::<Vec<_>>(), "kinds": kinds.iter().map(|k| format!("{:?}", k)).collect::<Vec<_>>()})),
                        }
                    }
                }));
            }
        }
    }
    // mixed mid-size family: operations over overlapping halves of members
    for part in 0..16usize {
        p.units.push(unit("mixed-mid-size-family-(finite-family)", format!("mixed part {}", part), move |st, rep| {
            for (i, (_, kvs)) in mixed_family(if thorough { 420 } else { 84 }).into_iter().enumerate() {
                if i % 16 != part || kvs.len() > 1300 { continue; }
                // streams: all keys; even-indexed; every third with other values; a tail
                let a = make_src(kvs.clone()).unwrap();
                let b = make_src(kvs.iter().step_by(2).cloned().collect()).unwrap();
                let c = make_src(kvs.iter().skip(1).step_by(3).map(|(k, v)| (k.clone(), v.wrapping_add(1) >> 1)).collect()).unwrap();
                let d = make_src(kvs[kvs.len() / 2..].to_vec()).unwrap();
                for (srcs, kinds) in [
                    (vec![&a, &b], vec![Kind::Whole, Kind::RangeGe]),
                    (vec![&b, &c, &d], vec![Kind::SearchAlways, Kind::UserVec, Kind::Whole]),
                    (vec![&d, &c, &b, &a], vec![Kind::Whole, Kind::Whole, Kind::RangeGe, Kind::UserVec]),
                    (vec![&c, &c], vec![Kind::Whole, Kind::UserVec]),
                ] {
                    st.states += 1;
                    st.nontrivial += 1;
                    match run_tuple(&srcs, &kinds, true) {
                        Ok(n) => { st.evals += n; st.transitions += n; st.count("mixed_operation_streams", n); }
                        Err(msg) => rep.violation(format!("mixed member {} kinds {:?}", i, kinds), msg, json!({"streams": srcs.iter().map(|s| kvs_json(&s.kvs)).collect::<Vec<_>>(), "kinds": kinds.iter().map(|k| format!("{:?}", k)).collect::<Vec<_>>()})),
                    }
                }
            }
        }));
    }
    // many operands: k = 7..40, 64, 100, 257, 300 streams over a 6-key universe
    // (stream index beyond one byte; heap with many entries and many ties)
    for (ui, k) in (7usize..=40).chain([64, 100, 257, 300]).enumerate() {
        p.units.push(unit("many-streams-(finite-family)", format!("{} streams", k), move |st, rep| {
            let uni: Vec<Key> = vec![b"".to_vec(), b"a".to_vec(), b"ab".to_vec(), b"b".to_vec(), b"b\x00".to_vec(), vec![0xff; 9]];
            for variant in 0..4usize {
                // variant 0: stream i holds the keys of the bits of (i*37+11); 1: all streams equal;
                // 2: only the last stream non-empty + first; 3: disjoint singletons cycling
                let srcs: Vec<Src> = (0..k)
                    .map(|i| {
                        let mask: u64 = match variant {
                            0 => ((i * 37 + 11) % 64) as u64,
                            1 => 0b101101,
                            2 => if i == 0 || i + 1 == k { 0b111111 } else { 0 },
                            _ => 1 << (i % 6),
                        };
                        let keys = select(&uni, mask);
                        make_src(values(if variant == 1 { 1 } else { 0 }, i, &keys, &uni)).unwrap()
                    })
                    .collect();
                let refs: Vec<&Src> = srcs.iter().collect();
                let kinds: Vec<Kind> = (0..k).map(|i| [Kind::Whole, Kind::RangeGe, Kind::SearchAlways, Kind::UserVec][(i + ui + variant) % 4]).collect();
                st.states += 1;
                st.nontrivial += 1;
                match run_tuple(&refs, &kinds, k <= 40) {
                    Ok(n) => { st.evals += n; st.transitions += n * k as u64; st.count("many_stream_operations", n); }
                    Err(msg) => rep.violation(format!("{} streams variant {}", k, variant), msg, json!({"streams": srcs.iter().map(|s| kvs_json(&s.kvs)).collect::<Vec<_>>(), "kinds": kinds.iter().map(|k| format!("{:?}", k)).collect::<Vec<_>>()})),
                }
            }
        }));
    }
    // predicates: all ordered pairs of subsets of U4 x 2 value modes
    {
        let uni = u4.clone();
        p.units.push(unit("U4-all-pairs-predicates", "predicates".into(), move |st, rep| {
            for ma in 0..16u64 {
                for mb in 0..16u64 {
                    for mode in 0..2 {
                        let a = make_src(values(mode, 0, &select(&uni, ma), &uni)).unwrap();
                        let b = make_src(values(mode, 1, &select(&uni, mb), &uni)).unwrap();
                        st.states += 1;
                        match run_pair(&a, &b) {
                            Ok(n) => {
                                st.evals += n;
                                st.transitions += n;
                                st.count("predicate_calls", n);
                            }
                            Err(msg) => rep.violation(
                                format!("pair {} {}", kvs_str(&a.kvs), kvs_str(&b.kvs)),
                                msg,
                                json!({"pair": true, "streams": [kvs_json(&a.kvs), kvs_json(&b.kvs)]}),
                            ),
                        }
                    }
                }
            }
        }));
    }
    // predicates over longer streams with a SINGLE deciding key at every position
    p.units.push(unit("predicates-single-deciding-key-at-every-position-(n<=80)", "deciding key".into(), move |st, rep| {
        for n in [1usize, 2, 5, 31, 32, 33, 34, 40, 64, 65, 80] {
            let keys: Vec<Key> = (0..n).map(|i| format!("k{:03}", i).into_bytes()).collect();
            let all = make_src(Pat::Idx.apply(&keys)).unwrap();
            for pos in 0..n {
                // {k_pos} vs all: not disjoint, subset, not superset (n > 1)
                let one = make_src(vec![(keys[pos].clone(), 9)]).unwrap();
                // all-but-k_pos vs all: subset, not superset, not disjoint (n > 1)
                let but: Vec<Key> = keys.iter().enumerate().filter(|(i, _)| *i != pos).map(|(_, k)| k.clone()).collect();
                let butsrc = make_src(Pat::Idx.apply(&but)).unwrap();
                // a key outside everything, at position pos of the other stream
                let mut with_out = but.clone();
                with_out.push(format!("k{:03}x", pos).into_bytes());
                with_out.sort();
                let outsrc = make_src(Pat::Idx.apply(&with_out)).unwrap();
                for (a, b) in [(&one, &all), (&all, &one), (&butsrc, &all), (&all, &butsrc), (&butsrc, &one), (&one, &butsrc), (&all, &outsrc), (&butsrc, &outsrc)] {
                    st.states += 1;
                    match run_pair(a, b) {
                        Ok(c) => { st.evals += c; st.transitions += c; st.count("predicate_calls", c); }
                        Err(msg) => rep.violation(format!("deciding key n={} pos={} sizes {} {}", n, pos, a.kvs.len(), b.kvs.len()), msg, json!({"pair": true, "streams": [kvs_json(&a.kvs), kvs_json(&b.kvs)]})),
                    }
                }
            }
        }
    }));
    p.must_be_nonzero = vec!["predicate_calls".into()];
    p
}
