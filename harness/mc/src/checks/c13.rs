//! C13 - construction memory is bounded independently of the number of keys
//! (SEQ engine with a counting allocator: an invariant on the live heap in
//! every state of small scopes, plus a finite ladder of large N).

use std::collections::BTreeMap;
use std::sync::{Arc, Mutex};

use fst::raw;
use serde_json::{json, Value};

use super::util::*;
use crate::alloc;
use crate::ev::{guard, unit, Plan, Tier};
use crate::front::Geom;
use crate::model::*;

const T: i64 = 24; // size of a Transition
const U: i64 = 80; // upper bound on the size of an unfinished stack entry

/// The bound B(rows, cols, F, L) of DESIGN.md; no term in the number of keys.
pub fn bound(after_new: i64, geom: Geom, f: usize, l: usize) -> i64 {
    let cells = (geom.0 * geom.1) as i64;
    let tv = (4.max(2 * f) as i64) * T + 32;
    let l = l as i64;
    // the variable part is doubled so that a benign change of a struct layout
    // (a wider Transition, a different Vec growth policy) stays below it; what
    // matters is that no term depends on the number of keys; the constant 4096
    // leaves room for a benign fixed-size scratch buffer or pool
    after_new + 2 * (cells * tv + (l + 2) * tv + if l + 2 > 64 { 2 * (l + 2) * U } else { 0 } + 2 * l) + 4096
}

pub struct Trace {
    pub after_new: i64,
    pub max_live: i64,
    pub after_finish: i64,
    pub inserts: u64,
}

/// Runs a history on a builder streaming to a discarding sink and checks the
/// live-heap invariant after (and the peak during) every call.
pub fn run_history(
    geom: Geom,
    f: usize,
    l: usize,
    is_set: bool,
    n: u64,
    key_at: &mut dyn FnMut(u64, &mut Vec<u8>) -> u64,
) -> Result<Trace, String> {
    run_history_sink(geom, f, l, is_set, n, key_at, Pol::All)
}

/// How the discarding sink answers write calls. The sink itself never
/// allocates (an `io::Error` made from a bare `ErrorKind` owns no heap).
#[derive(Clone, Copy, Debug, PartialEq, Eq, PartialOrd, Ord)]
pub enum Pol {
    /// accepts every buffer completely (like `io::sink()`)
    All,
    /// accepts at most this many bytes per call
    Cap(usize),
    /// every other call returns Interrupted, the others accept at most 3 bytes
    Intr,
    /// never accepts bytes across a multiple of this block size
    Page(usize),
}

impl Pol {
    pub fn code(self) -> u64 {
        match self {
            Pol::All => 0,
            Pol::Cap(c) => 1_000 + c as u64,
            Pol::Intr => 1,
            Pol::Page(p) => 1_000_000 + p as u64,
        }
    }
    pub fn from_code(c: u64) -> Pol {
        match c {
            0 => Pol::All,
            1 => Pol::Intr,
            c if c >= 1_000_000 => Pol::Page((c - 1_000_000) as usize),
            c => Pol::Cap((c - 1_000) as usize),
        }
    }
}

pub struct PolSink {
    pol: Pol,
    calls: u64,
    accepted: u64,
}

impl std::io::Write for PolSink {
    fn write(&mut self, buf: &[u8]) -> std::io::Result<usize> {
        self.calls += 1;
        let n = match self.pol {
            Pol::All => buf.len(),
            Pol::Cap(c) => buf.len().min(c),
            Pol::Intr => {
                if self.calls % 2 == 1 {
                    return Err(std::io::Error::from(std::io::ErrorKind::Interrupted));
                }
                buf.len().min(3)
            }
            Pol::Page(p) => buf.len().min(p - (self.accepted as usize % p)),
        };
        self.accepted += n as u64;
        Ok(n)
    }
    fn flush(&mut self) -> std::io::Result<()> {
        Ok(())
    }
}

pub fn run_history_sink(
    geom: Geom,
    f: usize,
    l: usize,
    is_set: bool,
    n: u64,
    key_at: &mut dyn FnMut(u64, &mut Vec<u8>) -> u64,
    pol: Pol,
) -> Result<Trace, String> {
    guard(|| {
        let mut keybuf: Vec<u8> = Vec::with_capacity(l + 8);
        let x0 = alloc::live();
        let sink = PolSink { pol, calls: 0, accepted: 0 };
        let mut b = if geom == (10_000, 2) {
            raw::Builder::new_type(sink, 0)
        } else {
            raw::Builder::verif_new_with_registry(sink, 0, geom.0, geom.1)
        }
        .map_err(|e| format!("{:?}", e))?;
        let after_new = alloc::live() - x0;
        let bmax = bound(after_new, geom, f, l);
        let mut cur = after_new;
        let mut max_live = cur;
        for i in 0..n {
            let v = key_at(i, &mut keybuf);
            let x = alloc::live();
            alloc::reset_peak();
            let r = if is_set { b.add(&keybuf) } else { b.insert(&keybuf, v) };
            let pk = cur + (alloc::peak() - x);
            cur += alloc::live() - x;
            r.map_err(|e| format!("insert {} failed: {:?}", i, e))?;
            max_live = max_live.max(pk);
            if pk > bmax {
                return Err(format!(
                    "live heap of the builder is {} bytes during insert {} of {} (key length <= {}, fan-out <= {}, cache {}x{}); bound without any term in the number of keys is {} (heap after new: {})",
                    pk, i, n, l, f, geom.0, geom.1, bmax, after_new
                ));
            }
        }
        let x = alloc::live();
        alloc::reset_peak();
        b.finish().map_err(|e| format!("finish failed: {:?}", e))?;
        let pk = cur + (alloc::peak() - x);
        cur += alloc::live() - x;
        max_live = max_live.max(pk);
        if pk > bmax {
            return Err(format!("live heap {} during finish exceeds the bound {}", pk, bmax));
        }
        Ok(Trace { after_new, max_live, after_finish: cur, inserts: n })
    })
    .and_then(|x| x)
}

/// i-th key of the ladder: 16 base-4 digits over {a,b,c,d} of an irregularly
/// growing counter (so that sets do not collapse into a few shared nodes).
fn ladder_key(state: &mut u64, i: u64, out: &mut Vec<u8>) -> u64 {
    // gap in 1..=8 from a fixed mixing function of i (deterministic)
    let mut z = i.wrapping_mul(0x9E37_79B9_7F4A_7C15);
    z ^= z >> 29;
    *state += 1 + (z % 8);
    let c = *state;
    out.clear();
    for d in (0..16).rev() {
        out.push(b'a' + ((c >> (2 * d)) & 3) as u8);
    }
    z.wrapping_mul(0xBF58_476D_1CE4_E5B9) >> 16
}

/// Ladder variants with varying key lengths: kind 1 = every second key is 12
/// bytes longer than its neighbours (lengths go down and up all the time);
/// kind 2 = every second key is its predecessor plus one byte (a key that is a
/// proper prefix of its successor: the key-end node gets a transition later).
pub fn run_ladder_kind(geom: Geom, is_set: bool, n: u64, kind: u8) -> Result<Trace, String> {
    let mut state = 0u64;
    let mut prev: Vec<u8> = vec![];
    run_history(geom, 5, 30, is_set, n, &mut |i, out| {
        if kind == 2 && i % 2 == 1 {
            out.clear();
            out.extend_from_slice(&prev);
            out.push(b's');
            return mix_val(i);
        }
        let v = ladder_key(&mut state, i, out);
        if kind == 1 && i % 2 == 1 {
            out.extend_from_slice(b"tttttttttttt");
        }
        prev.clear();
        prev.extend_from_slice(out);
        v
    })
}

fn mix_val(i: u64) -> u64 {
    let z = i.wrapping_mul(0x9E37_79B9_7F4A_7C15);
    (z ^ (z >> 29)).wrapping_mul(0xBF58_476D_1CE4_E5B9) >> 16
}

/// Ladder keys produced lazily, with an exact size hint (what `extend_iter` sees).
struct LadderIter {
    state: u64,
    i: u64,
    n: u64,
}
impl Iterator for LadderIter {
    type Item = (Vec<u8>, u64);
    fn next(&mut self) -> Option<(Vec<u8>, u64)> {
        if self.i >= self.n {
            return None;
        }
        let mut k = Vec::with_capacity(16);
        let v = ladder_key(&mut self.state, self.i, &mut k);
        self.i += 1;
        Some((k, v))
    }
    fn size_hint(&self) -> (usize, Option<usize>) {
        let r = (self.n - self.i) as usize;
        (r, Some(r))
    }
}
impl ExactSizeIterator for LadderIter {}

/// The same keys as a user-written streamer (what `extend_stream` sees).
struct LadderStream {
    state: u64,
    i: u64,
    n: u64,
    buf: Vec<u8>,
}
impl<'a> fst::Streamer<'a> for LadderStream {
    type Item = (&'a [u8], raw::Output);
    fn next(&'a mut self) -> Option<(&'a [u8], raw::Output)> {
        if self.i >= self.n {
            return None;
        }
        let v = ladder_key(&mut self.state, self.i, &mut self.buf);
        self.i += 1;
        Some((&self.buf, raw::Output::new(v)))
    }
}
struct U64Stream(LadderStream);
impl<'a> fst::Streamer<'a> for U64Stream {
    type Item = (&'a [u8], u64);
    fn next(&'a mut self) -> Option<(&'a [u8], u64)> {
        self.0.next().map(|(k, v)| (k, v.value()))
    }
}
struct KeyStream(LadderStream);
impl<'a> fst::Streamer<'a> for KeyStream {
    type Item = &'a [u8];
    fn next(&'a mut self) -> Option<&'a [u8]> {
        self.0.next().map(|(k, _)| k)
    }
}

/// The ladder through ONE bulk call. mode: 0 raw extend_iter, 1 raw
/// extend_stream, 2 MapBuilder::extend_iter, 3 MapBuilder::extend_stream,
/// 4 SetBuilder::extend_iter, 5 SetBuilder::extend_stream (2..5: default cache).
/// Peak during the call, heap held after the call and after a second, empty
/// bulk call must respect the bound (no term in N).
pub fn run_bulk_ladder(geom: Geom, n: u64, mode: u8) -> Result<Trace, String> {
    guard(|| {
        let geom = if mode >= 2 { (10_000, 2) } else { geom };
        let x0 = alloc::live();
        enum B {
            R(raw::Builder<std::io::Sink>),
            M(fst::MapBuilder<std::io::Sink>),
            S(fst::SetBuilder<std::io::Sink>),
        }
        let mut b = match mode {
            0 | 1 => B::R(if geom == (10_000, 2) { raw::Builder::new_type(std::io::sink(), 0) } else { raw::Builder::verif_new_with_registry(std::io::sink(), 0, geom.0, geom.1) }.map_err(|e| format!("{:?}", e))?),
            2 | 3 => B::M(fst::MapBuilder::new(std::io::sink()).map_err(|e| format!("{:?}", e))?),
            _ => B::S(fst::SetBuilder::new(std::io::sink()).map_err(|e| format!("{:?}", e))?),
        };
        let after_new = alloc::live() - x0;
        let bmax = bound(after_new, geom, 4, 16) + 256;
        let name = ["raw extend_iter", "raw extend_stream", "MapBuilder::extend_iter", "MapBuilder::extend_stream", "SetBuilder::extend_iter", "SetBuilder::extend_stream"][mode as usize];
        let mut max_live = after_new;
        for (round, count) in [(0, n), (1, 0)] {
            alloc::reset_peak();
            let it = || LadderIter { state: 0, i: 0, n: count };
            let stm = || LadderStream { state: 0, i: 0, n: count, buf: Vec::with_capacity(16) };
            let r = match (&mut b, mode) {
                (B::R(b), 0) => b.extend_iter(it().map(|(k, v)| (k, raw::Output::new(v)))),
                (B::R(b), _) => b.extend_stream(stm()),
                (B::M(b), 2) => b.extend_iter(it()),
                (B::M(b), _) => b.extend_stream(U64Stream(stm())),
                (B::S(b), 4) => b.extend_iter(it().map(|(k, _)| k)),
                (B::S(b), _) => b.extend_stream(KeyStream(stm())),
            };
            r.map_err(|e| format!("{} failed: {:?}", name, e))?;
            let pk = alloc::peak() - x0;
            let held = alloc::live() - x0;
            max_live = max_live.max(pk);
            if pk > bmax || held > bmax {
                return Err(format!(
                    "{} of {} items (call {}): peak live heap {} bytes, {} held after the call (key length 16, fan-out <= 4, cache {}x{}); bound without any term in the number of items is {} (heap after new: {})",
                    name, count, round, pk, held, geom.0, geom.1, bmax, after_new
                ));
            }
        }
        alloc::reset_peak();
        match b {
            B::R(b) => b.finish(),
            B::M(b) => b.finish(),
            B::S(b) => b.finish(),
        }
        .map_err(|e| format!("finish failed: {:?}", e))?;
        let pk = alloc::peak() - x0;
        if pk > bmax {
            return Err(format!("{}: live heap {} during finish exceeds the bound {}", name, pk, bmax));
        }
        let after_finish = alloc::live() - x0;
        if after_finish != 0 {
            return Err(format!("{}: {} bytes still live after finish", name, after_finish));
        }
        Ok(Trace { after_new, max_live, after_finish, inserts: n })
    })
    .and_then(|x| x)
}

/// The ladder through MANY small bulk calls (chunks of `chunk` items, no single
/// insert in between): raw extend_iter, MapBuilder::extend_iter and
/// SetBuilder::extend_iter in turn, one builder each.
pub fn run_chunked_bulk_ladder(geom: Geom, n: u64, chunk: usize) -> Result<i64, String> {
    guard(|| {
        let mut worst = 0i64;
        for which in 0..3 {
            let x0 = alloc::live();
            let e = |x: fst::Error| format!("{:?}", x);
            let mut rb = if which == 0 { Some(if geom == (10_000, 2) { raw::Builder::new_type(std::io::sink(), 0) } else { raw::Builder::verif_new_with_registry(std::io::sink(), 0, geom.0, geom.1) }.map_err(e)?) } else { None };
            let mut mb = if which == 1 { Some(fst::MapBuilder::new(std::io::sink()).map_err(e)?) } else { None };
            let mut sb = if which == 2 { Some(fst::SetBuilder::new(std::io::sink()).map_err(e)?) } else { None };
            let g = if which == 0 { geom } else { (10_000, 2) };
            let after_new = alloc::live() - x0;
            let bmax = bound(after_new, g, 4, 16) + 256;
            let mut it = LadderIter { state: 0, i: 0, n };
            alloc::reset_peak();
            let mut calls = 0u64;
            while it.i < it.n {
                let part = it.by_ref().take(chunk);
                match which {
                    0 => rb.as_mut().unwrap().extend_iter(part.map(|(k, v)| (k, raw::Output::new(v)))),
                    1 => mb.as_mut().unwrap().extend_iter(part),
                    _ => sb.as_mut().unwrap().extend_iter(part.map(|(k, _)| k)),
                }
                .map_err(e)?;
                calls += 1;
                let held = alloc::live() - x0;
                if held > bmax {
                    return Err(format!("{} bulk calls of {} items each ({}): {} bytes held after call {} (cache {}x{}); bound without any term in the number of items is {} (heap after new: {})", calls, chunk, ["raw extend_iter", "MapBuilder::extend_iter", "SetBuilder::extend_iter"][which], held, calls, g.0, g.1, bmax, after_new));
                }
            }
            worst = worst.max(alloc::peak() - x0);
            match which {
                0 => rb.take().unwrap().finish(),
                1 => mb.take().unwrap().finish(),
                _ => sb.take().unwrap().finish(),
            }
            .map_err(e)?;
            if alloc::live() != x0 {
                return Err(format!("{} bytes still live after finish (many small bulk calls)", alloc::live() - x0));
            }
        }
        Ok(worst)
    })
    .and_then(|x| x)
}

pub fn run_ladder(geom: Geom, is_set: bool, n: u64) -> Result<Trace, String> {
    run_ladder_sink(geom, is_set, n, Pol::All)
}

pub fn run_ladder_sink(geom: Geom, is_set: bool, n: u64, pol: Pol) -> Result<Trace, String> {
    let mut state = 0u64;
    run_history_sink(geom, 4, 16, is_set, n, &mut |i, out| ladder_key(&mut state, i, out), pol)
}

/// Wide-node ladder: `p` prefixes of 3 bytes, each followed by 40 distinct
/// bytes and a 2-byte suffix that depends on the prefix, so that every prefix
/// node is a distinct node with fan-out 40 (> 32: the nodes that carry an
/// index table), for sets (distinct children) and maps (distinct outputs).
pub fn run_wide_ladder(geom: Geom, is_set: bool, prefixes: u64) -> Result<Trace, String> {
    run_wide_ladder_w(geom, is_set, prefixes, 40)
}

/// `width` = fan-out of every wide node; width 0 = widths cycling through
/// 33..=64 (nodes of different widths evicting each other).
pub fn run_wide_ladder_w(geom: Geom, is_set: bool, prefixes: u64, width: u64) -> Result<Trace, String> {
    if width == 0 {
        // variable widths: precompute the key index -> (prefix, member) mapping on the fly
        let mut pi = 0u64;
        let mut j = 0u64;
        let total: u64 = (0..prefixes).map(|p| 33 + (p * 7) % 32).sum();
        return run_history(geom, 64, 6, is_set, total, &mut |i, out| {
            let w = 33 + (pi * 7) % 32;
            let h = (pi.wrapping_mul(7919) + j) % 65536;
            out.clear();
            out.extend_from_slice(&[b'A' + (pi / 4096 % 26) as u8, b'0' + (pi / 64 % 64) as u8, b'0' + (pi % 64) as u8, b'0' + j as u8, (h >> 8) as u8, h as u8]);
            j += 1;
            if j == w {
                j = 0;
                pi += 1;
            }
            i.wrapping_mul(0x9E37_79B9_7F4A_7C15) >> 24
        });
    }
    run_history(geom, width as usize, 6, is_set, prefixes * width, &mut |i, out| {
        let pi = i / width;
        let j = (i % width) as u8;
        let h = (pi.wrapping_mul(7919) + j as u64) % 65536;
        out.clear();
        out.extend_from_slice(&[b'A' + (pi / 4096 % 26) as u8, b'0' + (pi / 64 % 64) as u8, b'0' + (pi % 64) as u8, j, (h >> 8) as u8, h as u8]);
        i.wrapping_mul(0x9E37_79B9_7F4A_7C15) >> 24
    })
}

/// History independence: what a builder holds must be determined by ITS OWN
/// cache geometry, fan-out and longest key - not by what earlier builders of
/// the thread or of the process have seen. On a fresh thread: measure a fixed
/// small ladder (tiny and default cache), then build - on this thread and on
/// another one - an input with a 300 000-byte key and 50 distinct nodes of
/// 256 transitions, then measure the same ladder again.
pub fn run_history_independence() -> Result<Vec<(String, i64, i64)>, String> {
    std::thread::spawn(|| -> Result<Vec<(String, i64, i64)>, String> {
        let measure = || -> Result<Vec<(String, i64)>, String> {
            let mut v = vec![];
            for g in [(2usize, 2usize), (10_000, 2)] {
                let t = run_ladder(g, false, 2_000)?;
                v.push((format!("heap after new, cache {}x{}", g.0, g.1), t.after_new));
                v.push((format!("peak live heap, cache {}x{}", g.0, g.1), t.max_live));
            }
            Ok(v)
        };
        let giant = || -> Result<(), String> {
            let mut key = vec![b'g'; 300_000];
            run_history((10_000, 2), 2, 300_001, false, 2, &mut |i, out| {
                out.clear();
                out.extend_from_slice(&key);
                if i == 1 {
                    out.push(b'h');
                }
                7 + i
            })?;
            key.clear();
            run_wide_ladder_w((10_000, 2), false, 50, 256)?;
            run_wide_ladder_w((2, 2), true, 50, 256)?;
            Ok(())
        };
        let before = measure()?;
        giant()?;
        std::thread::spawn(giant).join().map_err(|_| "thread panicked".to_string())??;
        let after = measure()?;
        Ok(before.into_iter().zip(after).map(|(b, a)| (b.0, b.1, a.1)).collect())
    })
    .join()
    .map_err(|_| "thread panicked".to_string())?
}

pub fn run_small(geom: Geom, is_set: bool, kvs: &[Kv]) -> Result<Trace, String> {
    let l = kvs.iter().map(|x| x.0.len()).max().unwrap_or(0);
    let mut firsts = std::collections::BTreeSet::new();
    for (k, _) in kvs {
        for &b in k {
            firsts.insert(b);
        }
    }
    let f = firsts.len().max(1);
    run_history(geom, f, l, is_set, kvs.len() as u64, &mut |i, out| {
        out.clear();
        out.extend_from_slice(&kvs[i as usize].0);
        kvs[i as usize].1
    })
}

pub fn replay(case: &Value) -> Result<String, String> {
    if case["history_independence"].as_bool() == Some(true) {
        let rows = run_history_independence()?;
        for (what, b, a) in &rows {
            if (a - b).abs() > 16 * 1024 {
                return Err(format!("{}: {} bytes before, {} after", what, b, a));
            }
        }
        return Ok(format!("{} measurements unchanged", rows.len()));
    }
    let geom = geom_from(&case["geom"]);
    let is_set = case["set"].as_bool().unwrap();
    if let Some(chunk) = case["chunked_bulk"].as_u64() {
        return run_chunked_bulk_ladder(geom, case["ladder_n"].as_u64().unwrap(), chunk as usize).map(|pk| format!("peak {} bytes", pk));
    }
    if let Some(mode) = case["bulk_mode"].as_u64() {
        let n = case["ladder_n"].as_u64().unwrap();
        return run_bulk_ladder(geom, n, mode as u8).map(|t| format!("peak live {} bytes for N={}", t.max_live, n));
    }
    if let Some(n) = case["wide_prefixes"].as_u64() {
        return run_wide_ladder_w(geom, is_set, n, case["wide_width"].as_u64().unwrap_or(40)).map(|t| format!("peak live {} bytes for {} wide nodes", t.max_live, n));
    }
    if let (Some(n), Some(kind)) = (case["ladder_n"].as_u64(), case["ladder_kind"].as_u64()) {
        return run_ladder_kind(geom, is_set, n, kind as u8).map(|t| format!("peak live {} bytes for N={}", t.max_live, n));
    }
    if let Some(n) = case["ladder_n"].as_u64() {
        run_ladder_sink(geom, is_set, n, Pol::from_code(case["sink_policy"].as_u64().unwrap_or(0))).map(|t| format!("peak live {} bytes for N={}", t.max_live, n))
    } else {
        run_small(geom, is_set, &kvs_from(&case["kvs"])).map(|t| format!("max live {} bytes", t.max_live))
    }
}

pub fn plan(tier: Tier) -> Plan {
    let mut p = Plan::new("C13", "exploration");
    let thorough = tier.thorough();
    p.rule = "counting allocator with per-thread counters; the builder streams to a discarding sink (the ladder also to discarding sinks that accept at most 1 / 5 bytes per call, interrupt every other call, or never accept across a 4096-byte boundary). (1) exhaustive: under the tiny cache geometries 1x1, 1x2, 2x2, 3x3 (cache saturated after a handful of inserts, i.e. the regime 'evicting on every miss' is reachable) every subset of U_ab3 as set and map, and every prefix of the sorted universes {a,b}^<=6 and {a,b,c,d}^<=4: after (and at the peak during) EVERY insert and finish the builder's live heap <= B(rows,cols,F,L) = heap_after_new + 2*(cells*(max(4,2F)*24+32) + (L+2)*(max(4,2F)*24+32) + [2(L+2)*80 if L+2>64] + 2L) + 4096, which has no term in the number of keys; after finish everything is freed. (2) finite ladder (not exhaustive): 16-byte keys over {a..d} with irregular gaps and non-shareable values, sets and maps, N in {1e4,1e5,2e5,4e5} (thorough: 1e6,4e6,1e7), geometries 1x1, 2x2, 100x2 and the default 10000x2, two ladders with varying key lengths (alternating 16/28-byte keys; keys that are proper prefixes of their successors), and a wide-node ladder (250..5000 (thorough 100000) distinct nodes of fan-out 40, 100, 256 and of widths cycling through 33..64, the node form with an index table), and the fixed ladder through ONE bulk call (raw/Map/Set extend_iter with an exact size hint and extend_stream, N up to 400000, thorough 2 million; a second, empty bulk call afterwards), and through MANY bulk calls of 1 / 7 / 63 items each with no single insert in between: peak live <= B for every N and, for geometries with <= 200 cells, |peak(N_{i+1}) - peak(N_i)| <= 1 KiB. (3) history independence: heap after new and peak of a fixed ladder, measured on a fresh thread before and after this thread and another one built an input with a 300 000-byte key and nodes of 256 transitions, differ by <= 16 KiB. non-trivial = histories with >= 8 keys".into();
    p.assumptions = vec![
        "'for all N' beyond the ladder is not decided by a bounded exploration; the ladder is a finite family and is reported as such".into(),
        "heap attributable to the builder = sum over its API calls of the change of the thread's live bytes (harness allocations are outside the measured calls)".into(),
    ];
    p.exhaustive = false;
    if !alloc::installed() {
        eprintln!("machinery: counting allocator is not installed");
        std::process::exit(2);
    }
    let tiny: Vec<Geom> = vec![(1, 1), (1, 2), (2, 2), (3, 3)];
    p.units.push(unit("history-independence-(after-builds-with-a-300000-byte-key-and-wide-nodes)", "history independence".into(), move |st, rep| {
        st.evals += 1;
        st.states += 4_000 + 2 * 25_600;
        match run_history_independence() {
            Ok(rows) => {
                st.count("history_independence_measurements", rows.len() as u64);
                st.sample(|| json!({"history_independence": rows.iter().map(|(w, b, a)| json!({"what": w, "before": b, "after": a})).collect::<Vec<_>>()}));
                for (what, b, a) in rows {
                    if (a - b).abs() > 16 * 1024 {
                        rep.violation(format!("history independence: {}", what), format!("{}: {} bytes on a fresh thread, {} bytes for the same input after this thread and another one built an input with a 300000-byte key and nodes of 256 transitions: the heap of a builder depends on what earlier builders have seen", what, b, a), json!({"history_independence": true}));
                    }
                }
            }
            Err(msg) => rep.violation("history independence".into(), msg, json!({"history_independence": true})),
        }
    }));
    {
        let u = u_ab3();
        for (a, b) in ranges(1 << u.keys.len(), 64) {
            let u = u.clone();
            let tiny = tiny.clone();
            p.units.push(unit("U_ab3-subsets-tiny-geometries-every-step", format!("U_ab3 masks {}..{}", a, b), move |st, rep| {
                for mask in a..b {
                    if rep.stopped() { return; }
                    let keys = select(&u.keys, mask);
                    for (is_set, pat) in [(true, Pat::Zero), (false, Pat::Lin3), (false, Pat::MaxMinus)] {
                        if !thorough && pat == Pat::MaxMinus && mask % 4 != 0 { continue; }
                        let kvs = pat.apply(&keys);
                        for g in &tiny {
                            st.states += kvs.len() as u64 + 2;
                            st.transitions += kvs.len() as u64 + 2;
                            st.evals += 1;
                            st.nontrivial += (kvs.len() >= 8) as u64;
                            match run_small(*g, is_set, &kvs) {
                                Ok(t) => {
                                    st.max("max_live_small_scopes", t.max_live as u64);
                                    if t.after_finish != 0 {
                                        rep.violation(format!("leak {} {:?}", kvs_str(&kvs), g), format!("{} bytes still live after finish", t.after_finish), json!({"kvs": kvs_json(&kvs), "geom": [g.0, g.1], "set": is_set}));
                                    }
                                }
                                Err(msg) => rep.violation(format!("{} {:?} set={}", kvs_str(&kvs), g, is_set), msg, json!({"kvs": kvs_json(&kvs), "geom": [g.0, g.1], "set": is_set})),
                            }
                        }
                    }
                }
            }));
        }
    }
    for (name, alpha, maxlen) in [("ab<=6", b"ab".to_vec(), 6usize), ("abcd<=4", b"abcd".to_vec(), 4), ("ab<=9", b"ab".to_vec(), 9)] {
        if name == "ab<=9" && !thorough { continue; }
        let tiny = tiny.clone();
        p.units.push(unit("full-sorted-universes-every-prefix", format!("universe {}", name), move |st, rep| {
            let keys = strings_over(&alpha, maxlen);
            for (is_set, pat) in [(true, Pat::Zero), (false, Pat::Lin3), (false, Pat::Dec)] {
                let kvs: Vec<Kv> = if pat == Pat::Dec { keys.iter().enumerate().map(|(i, k)| (k.clone(), 1_000_000 - 7 * i as u64)).collect() } else { pat.apply(&keys) };
                for g in &tiny {
                    st.states += kvs.len() as u64 + 2;
                    st.transitions += kvs.len() as u64 + 2;
                    st.evals += 1;
                    st.nontrivial += 1;
                    match run_small(*g, is_set, &kvs) {
                        Ok(t) => {
                            st.max("max_live_small_scopes", t.max_live as u64);
                            st.sample(|| json!({"universe": name, "keys": kvs.len(), "geom": [g.0, g.1], "heap_after_new": t.after_new, "max_live": t.max_live, "bound": bound(t.after_new, *g, alpha.len(), maxlen)}));
                        }
                        Err(msg) => rep.violation(format!("universe {} {:?} set={}", name, g, is_set), msg, json!({"kvs": kvs_json(&kvs), "geom": [g.0, g.1], "set": is_set})),
                    }
                }
            }
        }));
    }
    // the ladder through one bulk call (iterators with exact size hints, streamers)
    {
        let bulk_ns: Vec<u64> = if thorough { vec![10_000, 100_000, 400_000, 2_000_000] } else { vec![10_000, 100_000, 400_000] };
        let bulk_peaks: Arc<Mutex<BTreeMap<(Geom, u8, u64), i64>>> = Arc::new(Mutex::new(BTreeMap::new()));
        for mode in 0..6u8 {
            let geoms: Vec<Geom> = if mode < 2 { vec![(1, 1), (2, 2), (100, 2), (10_000, 2)] } else { vec![(10_000, 2)] };
            for g in geoms {
                for &n in &bulk_ns {
                    let bulk_peaks = bulk_peaks.clone();
                    p.units.push(unit("bulk-call-ladder-(finite-family)", format!("bulk ladder mode {} {:?} N={}", mode, g, n), move |st, rep| {
                        st.evals += 1;
                        st.states += n + 2;
                        st.transitions += n + 2;
                        st.nontrivial += 1;
                        match run_bulk_ladder(g, n, mode) {
                            Ok(t) => {
                                st.count("bulk_ladder_points", 1);
                                bulk_peaks.lock().unwrap().insert((g, mode, n), t.max_live);
                            }
                            Err(msg) => rep.violation(format!("bulk ladder mode {} {:?} N={}", mode, g, n), msg, json!({"bulk_mode": mode, "ladder_n": n, "geom": [g.0, g.1], "set": mode >= 4})),
                        }
                    }));
                }
            }
        }
        let bulk_ns2 = bulk_ns.clone();
        p.finish_extra.push(Box::new(move |st, rep| {
            let pk = bulk_peaks.lock().unwrap();
            st.samples.push(json!({"bulk_ladder_peak_live": pk.iter().map(|((g, m, n), v)| json!({"geom": [g.0, g.1], "mode": m, "N": n, "bytes": v})).collect::<Vec<_>>()}));
            for g in [(1usize, 1usize), (2, 2), (100, 2)] {
                for mode in 0..2u8 {
                    for w in bulk_ns2.windows(2) {
                        if let (Some(a), Some(b)) = (pk.get(&(g, mode, w[0])), pk.get(&(g, mode, w[1]))) {
                            if (a - b).abs() > 1024 {
                                rep.violation(format!("bulk ladder growth mode {} {:?} N={}..{}", mode, g, w[0], w[1]), format!("peak live heap of a bulk call is {} bytes for N={} but {} for N={} (cache {}x{})", a, w[0], b, w[1], g.0, g.1), json!({"bulk_mode": mode, "ladder_n": w[1], "geom": [g.0, g.1], "set": false}));
                            }
                        }
                    }
                }
            }
        }));
    }
    // the ladder through many small bulk calls
    for g in [(2usize, 2usize), (10_000, 2)] {
        for chunk in [1usize, 7, 63] {
            for n in [20_000u64, 200_000] {
                p.units.push(unit("many-small-bulk-calls-ladder-(finite-family)", format!("chunked bulk {:?} chunk {} N={}", g, chunk, n), move |st, rep| {
                    st.evals += 1;
                    st.states += 3 * n / chunk as u64;
                    st.transitions += 3 * n;
                    st.nontrivial += 1;
                    match run_chunked_bulk_ladder(g, n, chunk) {
                        Ok(_) => st.count("chunked_bulk_ladder_points", 1),
                        Err(msg) => rep.violation(format!("chunked bulk {:?} chunk {} N={}", g, chunk, n), msg, json!({"chunked_bulk": chunk, "ladder_n": n, "geom": [g.0, g.1], "set": false})),
                    }
                }));
            }
        }
    }
    // ladder
    let ns: Vec<u64> = if thorough { vec![10_000, 100_000, 200_000, 400_000, 1_000_000, 4_000_000, 10_000_000] } else { vec![10_000, 100_000, 200_000, 400_000] };
    let peaks: Arc<Mutex<BTreeMap<(Geom, bool, u64), i64>>> = Arc::new(Mutex::new(BTreeMap::new()));
    for g in [(1usize, 1usize), (2, 2), (100, 2), (10_000, 2)] {
        for is_set in [true, false] {
            for &n in &ns {
                let peaks = peaks.clone();
                p.units.push(unit("ladder-(finite-family)", format!("ladder {:?} set={} N={}", g, is_set, n), move |st, rep| {
                    st.evals += 1;
                    st.states += n + 2;
                    st.transitions += n + 2;
                    st.nontrivial += 1;
                    match run_ladder(g, is_set, n) {
                        Ok(t) => {
                            st.count("ladder_points", 1);
                            peaks.lock().unwrap().insert((g, is_set, n), t.max_live);
                            if t.after_finish != 0 {
                                rep.violation(format!("ladder leak {:?} {} {}", g, is_set, n), format!("{} bytes still live after finish", t.after_finish), json!({"ladder_n": n, "geom": [g.0, g.1], "set": is_set}));
                            }
                        }
                        Err(msg) => rep.violation(format!("ladder {:?} set={} N={}", g, is_set, n), msg, json!({"ladder_n": n, "geom": [g.0, g.1], "set": is_set})),
                    }
                }));
            }
        }
    }
    // the ladder under sinks that accept writes reluctantly (the heap must not depend on the sink either)
    let pol_peaks: Arc<Mutex<BTreeMap<(Pol, Geom, bool, u64), i64>>> = Arc::new(Mutex::new(BTreeMap::new()));
    let pols = [Pol::Cap(1), Pol::Cap(5), Pol::Intr, Pol::Page(4096)];
    for pol in pols {
        for g in [(2usize, 2usize), (100, 2)] {
            for is_set in [true, false] {
                for &n in &ns {
                    if n > 1_000_000 { continue; }
                    let pol_peaks = pol_peaks.clone();
                    p.units.push(unit("ladder-under-reluctant-sinks-(finite-family)", format!("ladder {:?} {:?} set={} N={}", pol, g, is_set, n), move |st, rep| {
                        st.evals += 1;
                        st.states += n + 2;
                        st.transitions += n + 2;
                        st.nontrivial += 1;
                        match run_ladder_sink(g, is_set, n, pol) {
                            Ok(t) => {
                                st.count("reluctant_sink_ladder_points", 1);
                                pol_peaks.lock().unwrap().insert((pol, g, is_set, n), t.max_live);
                                if t.after_finish != 0 {
                                    rep.violation(format!("ladder leak {:?} {:?} {} {}", pol, g, is_set, n), format!("{} bytes still live after finish", t.after_finish), json!({"ladder_n": n, "geom": [g.0, g.1], "set": is_set, "sink_policy": pol.code()}));
                                }
                            }
                            Err(msg) => rep.violation(format!("ladder {:?} {:?} set={} N={}", pol, g, is_set, n), format!("sink policy {:?}: {}", pol, msg), json!({"ladder_n": n, "geom": [g.0, g.1], "set": is_set, "sink_policy": pol.code()})),
                        }
                    }));
                }
            }
        }
    }
    {
        let ns4 = ns.clone();
        p.finish_extra.push(Box::new(move |st, rep| {
            let pk = pol_peaks.lock().unwrap();
            st.samples.push(json!({"reluctant_sink_ladder_peaks": pk.iter().map(|((pol, g, s, n), v)| json!({"sink": format!("{:?}", pol), "geom": format!("{}x{}", g.0, g.1), "set": s, "N": n, "peak_live_bytes": v})).collect::<Vec<_>>()}));
            for pol in pols {
                for g in [(2usize, 2usize), (100, 2)] {
                    for is_set in [true, false] {
                        for w in ns4.windows(2) {
                            if let (Some(a), Some(b)) = (pk.get(&(pol, g, is_set, w[0])), pk.get(&(pol, g, is_set, w[1]))) {
                                if (a - b).abs() > 1024 {
                                    rep.violation(
                                        format!("plateau {:?} {:?} set={} N={}..{}", pol, g, is_set, w[0], w[1]),
                                        format!("sink policy {:?}: peak live heap is {} bytes for N={} but {} for N={} (cache {}x{}): it grows with the number of keys / bytes emitted", pol, a, w[0], b, w[1], g.0, g.1),
                                        json!({"ladder_n": w[1], "geom": [g.0, g.1], "set": is_set, "sink_policy": pol.code()}),
                                    );
                                }
                            }
                        }
                    }
                }
            }
        }));
    }
    // ladders with varying key lengths (kind 1: alternating lengths, kind 2: prefix pairs)
    let kind_peaks: Arc<Mutex<BTreeMap<(u8, Geom, bool, u64), i64>>> = Arc::new(Mutex::new(BTreeMap::new()));
    for kind in [1u8, 2] {
        for g in [(1usize, 1usize), (2, 2), (100, 2), (10_000, 2)] {
            for is_set in [true, false] {
                for &n in &ns {
                    let kind_peaks = kind_peaks.clone();
                    p.units.push(unit("varying-key-length-ladders-(finite-family)", format!("ladder kind {} {:?} set={} N={}", kind, g, is_set, n), move |st, rep| {
                        st.evals += 1;
                        st.states += n + 2;
                        st.transitions += n + 2;
                        st.nontrivial += 1;
                        match run_ladder_kind(g, is_set, n, kind) {
                            Ok(t) => {
                                st.count("varying_length_ladder_points", 1);
                                kind_peaks.lock().unwrap().insert((kind, g, is_set, n), t.max_live);
                            }
                            Err(msg) => rep.violation(format!("ladder kind {} {:?} set={} N={}", kind, g, is_set, n), msg, json!({"ladder_n": n, "ladder_kind": kind, "geom": [g.0, g.1], "set": is_set})),
                        }
                    }));
                }
            }
        }
    }
    // wide-node ladder (fan-out 40)
    let wide_ps: Vec<u64> = if thorough { vec![250, 2_500, 5_000, 25_000, 100_000] } else { vec![250, 2_500, 5_000] };
    let wide_peaks: Arc<Mutex<BTreeMap<(Geom, bool, u64), i64>>> = Arc::new(Mutex::new(BTreeMap::new()));
    for width in [40u64, 100, 256, 0] {
        for g in [(1usize, 1usize), (2, 2), (100, 2), (10_000, 2)] {
            for is_set in [true, false] {
                for &np in &wide_ps {
                    if width != 40 && !thorough && (g == (10_000, 2) || np == 250) {
                        continue;
                    }
                    let wide_peaks = wide_peaks.clone();
                    p.units.push(unit("wide-node-ladder-(finite-family)", format!("wide ladder w={} {:?} set={} prefixes={}", width, g, is_set, np), move |st, rep| {
                        st.evals += 1;
                        st.states += np * 40 + 2;
                        st.transitions += np * 40 + 2;
                        st.nontrivial += 1;
                        match run_wide_ladder_w(g, is_set, np, width) {
                            Ok(t) => {
                                st.count("wide_ladder_points", 1);
                                wide_peaks.lock().unwrap().insert((g, is_set, np + width * 1_000_000), t.max_live);
                            }
                            Err(msg) => rep.violation(format!("wide ladder w={} {:?} set={} prefixes={}", width, g, is_set, np), msg, json!({"wide_prefixes": np, "wide_width": width, "geom": [g.0, g.1], "set": is_set})),
                        }
                    }));
                }
            }
        }
    }
    let ns2 = ns.clone();
    let wide_ps2 = wide_ps.clone();
    let ns3 = ns.clone();
    p.finish = Some(Box::new(move |st, rep| {
        {
            let pk = kind_peaks.lock().unwrap();
            st.samples.push(json!({"varying_length_ladder_peaks": pk.iter().map(|((k, g, s, n), v)| json!({"kind": k, "geom": format!("{}x{}", g.0, g.1), "set": s, "N": n, "peak_live_bytes": v})).collect::<Vec<_>>()}));
            for kind in [1u8, 2] {
                for g in [(1usize, 1usize), (2, 2), (100, 2)] {
                    for is_set in [true, false] {
                        for w in ns3.windows(2) {
                            if let (Some(a), Some(b)) = (pk.get(&(kind, g, is_set, w[0])), pk.get(&(kind, g, is_set, w[1]))) {
                                if (a - b).abs() > 1024 {
                                    rep.violation(
                                        format!("plateau kind {} {:?} set={} N={}..{}", kind, g, is_set, w[0], w[1]),
                                        format!("peak live heap is {} bytes for N={} but {} for N={} (cache {}x{}, {}): it grows with the number of keys", a, w[0], b, w[1], g.0, g.1, if kind == 1 { "alternating key lengths" } else { "keys that are prefixes of their successors" }),
                                        json!({"ladder_n": w[1], "ladder_kind": kind, "geom": [g.0, g.1], "set": is_set}),
                                    );
                                }
                            }
                        }
                    }
                }
            }
        }
        {
            let pk = wide_peaks.lock().unwrap();
            st.samples.push(json!({"wide_ladder_peaks": pk.iter().map(|((g, s, n), v)| json!({"geom": format!("{}x{}", g.0, g.1), "set": s, "wide_nodes": n, "peak_live_bytes": v})).collect::<Vec<_>>()}));
            // plateau only for caches of <= 4 cells: with 200 cells the cells'
            // transition vectors legitimately keep growing towards their
            // largest capacity over the first thousands of wide nodes (the
            // bound B, which has the cells term, is asserted for every N)
            for g in [(1usize, 1usize), (2, 2)] {
                for is_set in [true, false] {
                    for (w, width) in wide_ps2.windows(2).flat_map(|w| [40u64, 100, 256, 0].into_iter().map(move |x| (w, x))) {
                        let w = [w[0] + width * 1_000_000, w[1] + width * 1_000_000];
                        if let (Some(a), Some(b)) = (pk.get(&(g, is_set, w[0])), pk.get(&(g, is_set, w[1]))) {
                            if (a - b).abs() > 4096 {
                                rep.violation(
                                    format!("wide plateau {:?} set={} {}..{}", g, is_set, w[0], w[1]),
                                    format!("peak live heap is {} bytes for {} wide nodes but {} for {} (cache {}x{}): it grows with the number of keys", a, w[0], b, w[1], g.0, g.1),
                                    json!({"wide_prefixes": w[1], "geom": [g.0, g.1], "set": is_set}),
                                );
                            }
                        }
                    }
                }
            }
        }
        let pk = peaks.lock().unwrap();
        let mut table = vec![];
        for ((g, is_set, n), v) in pk.iter() {
            table.push(json!({"geom": format!("{}x{}", g.0, g.1), "set": is_set, "N": n, "peak_live_bytes": v}));
        }
        st.samples.push(json!({"ladder_peaks": table}));
        for g in [(1usize, 1usize), (2, 2), (100, 2)] {
            for is_set in [true, false] {
                for w in ns2.windows(2) {
                    if let (Some(a), Some(b)) = (pk.get(&(g, is_set, w[0])), pk.get(&(g, is_set, w[1]))) {
                        if (a - b).abs() > 1024 {
                            rep.violation(
                                format!("plateau {:?} set={} N={}..{}", g, is_set, w[0], w[1]),
                                format!("peak live heap is {} bytes for N={} but {} for N={} (cache {}x{}): it grows with the number of keys", a, w[0], b, w[1], g.0, g.1),
                                json!({"ladder_n": w[1], "geom": [g.0, g.1], "set": is_set}),
                            );
                        }
                    }
                }
            }
        }
    }));
    p.must_be_nonzero = vec!["ladder_points".into()];
    p
}
