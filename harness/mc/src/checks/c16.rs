//! C16 - get_key inverts maps whose values increase with the keys (SEQ).

use fst::raw::Fst;
use serde_json::{json, Value};

use super::util::*;
use crate::ev::{guard, unit, Plan, Reporter, Stats, Tier};
use crate::front::{self, Front, Geom};
use crate::model::*;

pub fn run_case(kvs: &[Kv], geom: Geom) -> Result<u64, String> {
    let bytes = front::build(Front::RawInsert, geom, kvs)?;
    let mut n = check_bytes(&bytes, kvs)?;
    if kvs.len() <= 6 && crate::ev::hash_kvs(kvs) % 5 == 0 {
        // the same map from builders kept in use after rejected calls
        // (duplicates with smaller / larger values, smaller keys)
        for kind in [0u8, 1] {
            for mask in [1u8, 31] {
                match front::noisy_build(kind, if kind == 0 { geom } else { front::DEFAULT_GEOM }, kvs, mask) {
                    Ok((b, _, None)) if b != bytes => {
                        n += check_bytes(&b, kvs).map_err(|e| format!("map from a {} kept in use after rejected calls: {}", if kind == 0 { "raw::Builder" } else { "MapBuilder" }, e))?;
                    }
                    Ok(_) => {}
                    Err(e) if front::is_usage_skip(&e) => {}
                    Err(e) => return Err(e),
                }
            }
        }
    }
    Ok(n)
}

fn check_bytes(bytes: &[u8], kvs: &[Kv]) -> Result<u64, String> {
    guard(|| {
        let f = Fst::new(&bytes[..]).map_err(|e| format!("{:?}", e))?;
        let max = kvs.last().map(|x| x.1).unwrap_or(0);
        let mut queries: Vec<u64> = vec![0, 1, u64::MAX, u64::MAX - 1];
        if max < 64 {
            queries.extend(0..=max + 2);
        }
        for (_, v) in kvs {
            queries.extend([v.wrapping_sub(1), *v, v.wrapping_add(1)]);
        }
        queries.sort();
        queries.dedup();
        let mut n = 0;
        for &q in &queries {
            n += 1;
            let want: Option<&Key> = kvs.iter().find(|(_, v)| *v == q).map(|(k, _)| k);
            let got = f.get_key(q);
            if got.as_ref() != want {
                return Err(format!("get_key({}) = {:?}, expected {:?}", q, got.map(|k| key_str(&k)), want.map(|k| key_str(k))));
            }
            let mut buf = b"xy".to_vec();
            let found = f.get_key_into(q, &mut buf);
            match want {
                Some(k) => {
                    let mut exp = b"xy".to_vec();
                    exp.extend_from_slice(k);
                    if !found || buf != exp {
                        return Err(format!("get_key_into({}) returned {} with buffer {}, expected true with xy+{}", q, found, key_str(&buf), key_str(k)));
                    }
                }
                None => {
                    if found {
                        return Err(format!("get_key_into({}) returned true (buffer {}) but no key has that value", q, key_str(&buf)));
                    }
                }
            }
            // through the Map wrapper's underlying fst as well
            let m = fst::Map::new(&bytes[..]).map_err(|e| format!("{:?}", e))?;
            if m.as_fst().get_key(q).as_ref() != want {
                return Err(format!("Map::as_fst().get_key({}) differs", q));
            }
        }
        // arena use: ONE buffer that keeps growing over all queries of this map,
        // starting empty / already as large as the whole file / 64 KiB
        for prefill in [0usize, bytes.len(), 1 << 16] {
            let mut arena = vec![b'z'; prefill];
            for &q in &queries {
                let before = arena.len();
                let want: Option<&Key> = kvs.iter().find(|(_, v)| *v == q).map(|(k, _)| k);
                let found = f.get_key_into(q, &mut arena);
                match want {
                    Some(k) => {
                        if !found || arena.len() != before + k.len() || &arena[before..] != &k[..] || arena[..before.min(prefill)].iter().any(|&b| b != b'z') {
                            return Err(format!("get_key_into({}) into a buffer already holding {} bytes returned {} and appended {}, expected true and {}", q, before, found, key_str(&arena[before.min(arena.len())..]), key_str(k)));
                        }
                    }
                    None => {
                        if found {
                            return Err(format!("get_key_into({}) into a buffer already holding {} bytes returned true but no key has that value", q, before));
                        }
                        arena.truncate(before);
                    }
                }
            }
        }
        Ok(n)
    })
    .and_then(|x| x)
}

pub fn replay(case: &Value) -> Result<String, String> {
    if let Some(r) = super::seqread::replay(case) {
        return r;
    }
    if case["gapsv"].as_bool() == Some(true) {
        return super::c10::run_gaps_versions(case["n"].as_u64().unwrap() as usize, case["variant"].as_u64().unwrap() as usize, case["depth"].as_u64().unwrap() as usize, 4).map(|n| format!("{} queries agree", n));
    }
    run_case(&kvs_from(&case["kvs"]), geom_from(&case["geom"])).map(|n| format!("{} queries agree", n))
}

fn do_case(kvs: &[Kv], geom: Geom, st: &mut Stats, rep: &Reporter) {
    st.states += 1;
    match run_case(kvs, geom) {
        Ok(n) => {
            crate::ev::obs(crate::ev::hash_kvs(kvs));
            st.evals += n;
            st.transitions += 3 * n;
        }
        Err(msg) => rep.violation(format!("{} {:?}", kvs_str(kvs), geom), msg, json!({"kvs": kvs_json(kvs), "geom": [geom.0, geom.1]})),
    }
}

/// All strictly increasing assignments of n values from 0..m, as index vectors.
fn increasing(n: usize, m: u64, f: &mut dyn FnMut(&[u64])) {
    fn rec(n: usize, m: u64, from: u64, cur: &mut Vec<u64>, f: &mut dyn FnMut(&[u64])) {
        if cur.len() == n {
            f(cur);
            return;
        }
        for v in from..m {
            cur.push(v);
            rec(n, m, v + 1, cur, f);
            cur.pop();
        }
    }
    rec(n, m, 0, &mut vec![], f);
}

pub fn plan(tier: Tier) -> Plan {
    let mut p = Plan::new("C16", "model_checking");
    let thorough = tier.thorough();
    p.rule = "every key set of U_ab3 with <= 5 keys (thorough: <= 7) and of U_abc2 with <= 4 (thorough: <= 6) x EVERY strictly increasing value assignment from {0..n+3} (C(n+4,n) each), plus gapped assignments at pack-width boundaries and with u64::MAX as the largest value; with and without the empty key; queries: every value in 0..=max+2, every stored value +-1, 0, 1, u64::MAX-1, u64::MAX, through get_key and get_key_into (buffer pre-filled with 'xy'; and one arena buffer growing over all queries, starting empty, as large as the file, and at 64 KiB); for every fifth map of <= 6 keys also on the FSTs of builders kept in use after rejected calls. non-trivial = maps with >= 2 keys; wide nodes with gaps in files of versions 1, 2 and 3 from the reference encoder (every value 0..2n+2)".into();
    p.assumptions = vec!["the buffer content after get_key_into returned false is unspecified and not compared".into()];
    for (u, maxk) in [(u_ab3(), if thorough { 7 } else { 5 }), (u_abc2(), if thorough { 6 } else { 4 })] {
        let mut masks = vec![];
        for_each_mask_upto(u.keys.len(), maxk, &mut |m| masks.push(m));
        let chunk = (masks.len() + 127) / 128;
        for part in masks.chunks(chunk) {
            let part = part.to_vec();
            let u = u.clone();
            p.units.push(unit(&format!("{}-upto{}-all-increasing-assignments", u.name, maxk), format!("{} {} masks from {}", u.name, part.len(), part[0]), move |st, rep| {
                for &mask in &part {
                    if rep.stopped() { return; }
                    let keys = select(&u.keys, mask);
                    if u.name == "U_abc2" && mask != 0 && keys.iter().all(|k| !k.contains(&b'c')) { continue; }
                    let n = keys.len();
                    increasing(n, n as u64 + 4, &mut |vals| {
                        let kvs: Vec<Kv> = keys.iter().cloned().zip(vals.iter().cloned()).collect();
                        st.nontrivial += (n >= 2) as u64;
                        do_case(&kvs, (3, 3), st, rep);
                        if mask % 97 == 5 && vals.first() == Some(&1) {
                            st.sample(|| json!({"kvs": kvs_str(&kvs)}));
                        }
                    });
                    // gapped assignments at pack-width boundaries, and MAX as largest
                    for r in 0..4usize {
                        let mut vals: Vec<u64> = (0..n).map(|i| BOUNDARY_VALUES[(2 * i + r) % 14]).collect();
                        vals.sort();
                        vals.dedup();
                        if vals.len() == n {
                            let kvs: Vec<Kv> = keys.iter().cloned().zip(vals.iter().cloned()).collect();
                            do_case(&kvs, (1, 1), st, rep);
                            let mut kv2 = kvs.clone();
                            if let Some(l) = kv2.last_mut() {
                                l.1 = u64::MAX;
                            }
                            do_case(&kv2, (10_000, 2), st, rep);
                        }
                    }
                }
            }));
        }
    }
    p.units.push(unit("wide-nodes-with-strictly-increasing-values", "wide monotone".into(), move |st, rep| {
        for n in [1usize, 2, 31, 32, 33, 34, 64, 128, 255, 256] {
            for w in 1..=8usize {
                for with_empty in [false, true] {
                    for depth in 0..2usize {
                        let base: u64 = 1u64 << (8 * (w - 1));
                        let mut kvs: Vec<Kv> = vec![];
                        if with_empty {
                            kvs.push((vec![], base / 2 + 1));
                        }
                        for i in 0..n {
                            let b = ((i * 256) / n) as u8;
                            let mut k = if depth == 1 { vec![b'p'] } else { vec![] };
                            k.push(b);
                            kvs.push((k.clone(), base + 3 * i as u64));
                            if i % 5 == 0 {
                                k.push(b'z');
                                kvs.push((k, base + 3 * i as u64 + 1));
                            }
                        }
                        kvs.sort();
                        st.nontrivial += 1;
                        st.count("wide_monotone_cases", 1);
                        do_case(&kvs, (3, 3), st, rep);
                    }
                }
            }
        }
    }));
    for part in 0..8usize {
        p.units.push(unit("mixed-mid-size-family-monotone-members-(finite-family)", format!("mixed part {}", part), move |st, rep| {
            // members with value mode 5 have strictly increasing values
            for (i, (name, kvs)) in mixed_family(if thorough { 1260 } else { 252 }).into_iter().enumerate() {
                if i % 8 != part || !name.ends_with("-v5") || kvs.len() > 1300 { continue; }
                st.nontrivial += 1;
                st.count("mixed_cases", 1);
                do_case(&kvs, (10_000, 2), st, rep);
            }
        }));
    }
    // the gap family written by the reference encoder in versions 1, 2 and 3
    for n in [2usize, 31, 32, 33, 34, 40, 64, 100, 255, 256] {
        p.units.push(unit("wide-nodes-with-gaps-in-versions-1-2-3", format!("gaps versions fan-out {}", n), move |st, rep| {
            for variant in 0..5usize {
                for depth in 0..2usize {
                    st.states += 3;
                    st.nontrivial += 3;
                    match super::c10::run_gaps_versions(n, variant, depth, 4) {
                        Ok(c) => { st.evals += c; st.transitions += c; st.count("gap_version_queries", c); }
                        Err(msg) => rep.violation(format!("gaps versions fan-out {} variant {} depth {}", n, variant, depth), msg, json!({"gapsv": true, "n": n, "variant": variant, "depth": depth, "kvs": [], "geom": [3, 3]})),
                    }
                }
            }
        }));
    }
    p.rule.push_str(super::seqread::RULE);
    super::seqread::add_units(&mut p, super::seqread::Class::GetKey, if tier.thorough() { 5 } else { 4 });
    p
}
