//! Reader operation sequences (SEQ engine on the reader side): every
//! sequence of API calls up to a depth on TWO reader handles, each step
//! compared with a reference model. The builder side has had this from the
//! start (C06); on the reader side the checks enumerated inputs densely but
//! call sequences only where a driver had been written for one.
//!
//! Handles h0, h1 start on two maps X and Y of clearly different file length
//! (values increase with the keys, so
//! that get_key is defined). Alphabet (46 operations):
//!   Get(h, p)      get + contains_key of probe p in {"", a, ab, ba}
//!   Open(h, b)     open the stream slot of h (replacing an open one) with
//!                  bounds b in {none, ge(a).le(b), gt(a), lt(b)} or as
//!                  search(Subsequence("b")).gt("")
//!   Next(h)        next() on the slot of h (a slot that has ended stays ended)
//!   Drop(h)        drop the slot of h
//!   MapData(h)     h.map_data(..) to the bytes of the OTHER map
//!   CloneFrom(h)   h.clone_from(other handle)
//!   Verify(h)      verify()
//!   GetKey(h, v)   get_key(v), v in {2, 3}
//! Streams borrow their handle, so the two mutating operations end every
//! open stream first (in the model too). Next/Drop on an empty slot are no-ops
//! and such sequences are not enumerated.
//!
//! A wrong answer is attributed to the property of the operation that gave it:
//! Get -> C02, Open/Next -> C03 (C04 for the search), Verify -> C08, GetKey -> C16, len/is_empty -> C01, any panic -> also C20, a failing open / map_data / clone_from -> C10; each of those checks
//! runs the exploration and reports only its own class.

use std::sync::OnceLock;

use fst::raw::Fst;
use fst::{IntoStreamer, Streamer};
use serde_json::{json, Value};

use super::util::*;
use crate::ev::{guard, unit, Plan};
use crate::front::{self, Front, DEFAULT_GEOM};
use crate::model::*;

#[derive(Clone, Copy, Debug, PartialEq, Eq)]
pub enum Op {
    Get(u8, u8),
    /// contains_key alone (Get asks get alone): which of the two comes first on an object matters to a lazily filled table
    Contains(u8, u8),
    Open(u8, u8),
    Next(u8),
    Drop(u8),
    MapData(u8),
    CloneFrom(u8),
    Verify(u8),
    GetKey(u8, u8),
    /// consume the rest of the open stream through into_byte_vec / into_byte_keys / into_values
    Collect(u8, u8),
    /// harmless questions: len, is_empty, size, fst_type, as_bytes, root, a clone that is dropped
    Ask(u8),
}

#[derive(Clone, Copy, Debug, PartialEq, Eq)]
pub enum Class {
    Lookup,
    Stream,
    Verify,
    GetKey,
    /// len() / is_empty() / size() / as_bytes() (C01: len and is_empty report the number of keys)
    Meta,
    /// next() of a stream opened by search(..) (C04)
    Search,
    /// every class, but only panics (C20: whatever opens answers without panicking)
    Panics,
    /// opening, map_data or clone_from itself failed or panicked (C10)
    Reopen,
}

pub fn alphabet() -> Vec<Op> {
    let mut a = vec![];
    for h in 0..2u8 {
        for p in 0..4u8 {
            a.push(Op::Get(h, p));
            a.push(Op::Contains(h, p));
        }
    }
    for h in 0..2u8 {
        for b in 0..5u8 {
            a.push(Op::Open(h, b));
        }
    }
    for h in 0..2u8 {
        a.push(Op::Next(h));
        a.push(Op::Drop(h));
        a.push(Op::MapData(h));
        a.push(Op::CloneFrom(h));
        a.push(Op::Verify(h));
        a.push(Op::GetKey(h, 2));
        a.push(Op::GetKey(h, 3));
        a.push(Op::Ask(h));
        a.push(Op::Collect(h, 0));
        a.push(Op::Collect(h, 1));
    }
    a
}

const PROBES: [&[u8]; 4] = [b"", b"a", b"ab", b"ba"];

pub fn contents() -> &'static [(Vec<Kv>, &'static [u8]); 2] {
    static C: OnceLock<[(Vec<Kv>, &'static [u8]); 2]> = OnceLock::new();
    C.get_or_init(|| {
        let x: Vec<Kv> = vec![(b"".to_vec(), 1), (b"a".to_vec(), 2), (b"ab".to_vec(), 5), (b"b".to_vec(), 7), (b"czzzzzzzzzzzzzzzzzzz".to_vec(), 100)];
        let y: Vec<Kv> = vec![(b"a".to_vec(), 3), (b"b".to_vec(), 4), (b"ba".to_vec(), 9)];
        let bx: &'static [u8] = Box::leak(front::build(Front::RawInsert, DEFAULT_GEOM, &x).expect("build X").into_boxed_slice());
        let by: &'static [u8] = Box::leak(front::build(Front::RawInsert, DEFAULT_GEOM, &y).expect("build Y").into_boxed_slice());
        [(x, bx), (y, by)]
    })
}

fn in_bounds(k: &[u8], b: u8) -> bool {
    match b {
        0 => true,
        1 => k >= &b"a"[..] && k <= &b"b"[..],
        2 => k > &b"a"[..],
        3 => k < &b"b"[..],
        // search(Subsequence("b")).gt("")
        _ => k > &b""[..] && k.contains(&b'b'),
    }
}

fn subseq() -> &'static fst::automaton::Subsequence<'static> {
    static A: OnceLock<fst::automaton::Subsequence<'static>> = OnceLock::new();
    A.get_or_init(|| fst::automaton::Subsequence::new("b"))
}

/// A stream slot: a plain range stream or an automaton search.
enum Slot<'f> {
    Plain(fst::raw::Stream<'f>),
    Search(fst::raw::Stream<'f, &'static fst::automaton::Subsequence<'static>>),
}

impl<'f> Slot<'f> {
    fn collect(self, how: u8) -> Vec<Kv> {
        match (self, how) {
            (Slot::Plain(s), 0) => s.into_byte_vec(),
            (Slot::Search(s), 0) => s.into_byte_vec(),
            (Slot::Plain(s), _) => s.into_byte_keys().into_iter().map(|k| (k, u64::MAX)).collect(),
            (Slot::Search(s), _) => s.into_values().into_iter().map(|v| (vec![], v)).collect(),
        }
    }

    fn next_owned(&mut self) -> Option<Kv> {
        match self {
            Slot::Plain(s) => s.next().map(|(k, o)| (k.to_vec(), o.value())),
            Slot::Search(s) => s.next().map(|(k, o)| (k.to_vec(), o.value())),
        }
    }
}

/// Runs one sequence; Err((class, message)) at the first step whose answer
/// differs from the model. Returns the number of operations executed.
pub fn run_seq(seq: &[Op]) -> Result<u64, (Class, String)> {
    let cs = contents();
    let open = |i: usize| Fst::new(cs[i].1).map_err(|e| (Class::Reopen, format!("Fst::new failed: {:?}", e)));
    let mut h: [Fst<&'static [u8]>; 2] = [open(0)?, open(1)?];
    let mut content = [0usize, 1];
    let mut n = 0u64;
    let mut i = 0;
    while i < seq.len() {
        let j = i + seq[i..].iter().position(|o| matches!(o, Op::MapData(_) | Op::CloneFrom(_))).unwrap_or(seq.len() - i);
        {
            let mut slots: [Option<Slot<'_>>; 2] = [None, None];
            let mut searching = [false, false];
            let mut model: [Option<(Vec<Kv>, usize)>; 2] = [None, None];
            for (step, op) in seq[i..j].iter().enumerate() {
                n += 1;
                CURRENT.with(|c| c.set(class_of(op)));
                let at = || format!("step {} ({:?}) of {:?}", i + step, op, seq);
                match *op {
                    Op::Get(hh, p) => {
                        let hh = hh as usize;
                        let want = cs[content[hh]].0.iter().find(|kv| kv.0 == PROBES[p as usize]).map(|kv| kv.1);
                        let got = h[hh].get(PROBES[p as usize]).map(|o| o.value());
                        if got != want {
                            return Err((Class::Lookup, format!("{}: get = {:?}, the map is {}", at(), got, kvs_str(&cs[content[hh]].0))));
                        }
                    }
                    Op::Contains(hh, p) => {
                        let hh = hh as usize;
                        let want = cs[content[hh]].0.iter().any(|kv| kv.0 == PROBES[p as usize]);
                        let c = h[hh].contains_key(PROBES[p as usize]);
                        if c != want {
                            return Err((Class::Lookup, format!("{}: contains_key = {}, the map is {}", at(), c, kvs_str(&cs[content[hh]].0))));
                        }
                    }
                    Op::Open(hh, b) => {
                        let hu = hh as usize;
                        slots[hu] = None;
                        let f = &h[hu];
                        slots[hu] = Some(match b {
                            0 => Slot::Plain(f.stream()),
                            1 => Slot::Plain(f.range().ge("a").le("b").into_stream()),
                            2 => Slot::Plain(f.range().gt("a").into_stream()),
                            3 => Slot::Plain(f.range().lt("b").into_stream()),
                            _ => Slot::Search(f.search(subseq()).gt("").into_stream()),
                        });
                        searching[hu] = b == 4;
                        model[hu] = Some((cs[content[hu]].0.iter().filter(|kv| in_bounds(&kv.0, b)).cloned().collect(), 0));
                    }
                    Op::Next(hh) => {
                        let hu = hh as usize;
                        if let (Some(s), Some((items, pos))) = (slots[hu].as_mut(), model[hu].as_mut()) {
                            if searching[hu] {
                                CURRENT.with(|c| c.set(Class::Search));
                            }
                            let got = s.next_owned();
                            let want = items.get(*pos).cloned();
                            if *pos < items.len() {
                                *pos += 1;
                            }
                            if got != want {
                                return Err((if searching[hu] { Class::Search } else { Class::Stream }, format!("{}: next() = {:?}, expected {:?} (stream over {} )", at(), got.map(|g| (key_str(&g.0), g.1)), want.map(|g| (key_str(&g.0), g.1)), kvs_str(items))));
                            }
                        }
                    }
                    Op::Collect(hh, how) => {
                        let hu = hh as usize;
                        if let (Some(s), Some((items, pos))) = (slots[hu].take(), model[hu].take()) {
                            let was_search = searching[hu];
                            if was_search {
                                CURRENT.with(|c| c.set(Class::Search));
                            }
                            let plain = !was_search;
                            let got = s.collect(how);
                            let want: Vec<Kv> = items[pos..].iter().map(|(k, v)| if how == 0 { (k.clone(), *v) } else if plain { (k.clone(), u64::MAX) } else { (vec![], *v) }).collect();
                            if got != want {
                                return Err((if was_search { Class::Search } else { Class::Stream }, format!("{}: collecting the rest of a stream after {} items gave {} items, expected {}", at(), pos, got.len(), want.len())));
                            }
                        }
                    }
                    Op::Drop(hh) => {
                        slots[hh as usize] = None;
                        model[hh as usize] = None;
                    }
                    Op::Verify(hh) => {
                        if let Err(e) = h[hh as usize].verify() {
                            return Err((Class::Verify, format!("{}: verify() of builder output failed: {:?}", at(), e)));
                        }
                    }
                    Op::GetKey(hh, v) => {
                        let hu = hh as usize;
                        let want = cs[content[hu]].0.iter().find(|kv| kv.1 == v as u64).map(|kv| kv.0.clone());
                        let got = h[hu].get_key(v as u64);
                        if got != want {
                            return Err((Class::GetKey, format!("{}: get_key({}) = {:?}, expected {:?}", at(), v, got.map(|k| key_str(&k)), want.map(|k| key_str(&k)))));
                        }
                    }
                    Op::Ask(hh) => {
                        let hu = hh as usize;
                        let f = &h[hu];
                        let c = f.clone();
                        let (want_len, want_size) = (cs[content[hu]].0.len(), cs[content[hu]].1.len());
                        if f.len() != want_len || f.is_empty() != (want_len == 0) || f.size() != want_size || f.as_bytes().len() != want_size || f.fst_type() != 0 || c.len() != want_len || f.root().is_final() != (cs[content[hu]].0.iter().any(|kv| kv.0.is_empty())) {
                            return Err((Class::Meta, format!("{}: len() = {}, is_empty() = {}, size() = {}, fst_type() = {}; the map has {} keys in {} bytes", at(), f.len(), f.is_empty(), f.size(), f.fst_type(), want_len, want_size)));
                        }
                        drop(c);
                    }
                    Op::MapData(_) | Op::CloneFrom(_) => unreachable!(),
                }
            }
        }
        if j < seq.len() {
            n += 1;
            CURRENT.with(|c| c.set(Class::Reopen));
            match seq[j] {
                Op::MapData(hh) => {
                    let hu = hh as usize;
                    let to = 1 - content[hu];
                    let data = cs[to].1;
                    h[hu] = h[hu].clone().map_data(|_| data).map_err(|e| (Class::Reopen, format!("step {} of {:?}: map_data to well-formed bytes failed: {:?}", j, seq, e)))?;
                    content[hu] = to;
                }
                Op::CloneFrom(hh) => {
                    let hu = hh as usize;
                    let src = h[1 - hu].clone();
                    h[hu].clone_from(&src);
                    content[hu] = content[1 - hu];
                }
                _ => unreachable!(),
            }
        }
        i = j + 1;
    }
    Ok(n)
}

thread_local! {
    static CURRENT: std::cell::Cell<Class> = std::cell::Cell::new(Class::Reopen);
}

fn class_of(op: &Op) -> Class {
    match op {
        Op::Get(..) | Op::Contains(..) => Class::Lookup,
        Op::Open(..) | Op::Next(_) | Op::Drop(_) | Op::Collect(..) => Class::Stream,
        Op::Verify(_) => Class::Verify,
        Op::GetKey(..) => Class::GetKey,
        Op::Ask(_) => Class::Meta,
        Op::MapData(_) | Op::CloneFrom(_) => Class::Reopen,
    }
}

fn guarded(seq: &[Op]) -> Result<u64, (Class, String)> {
    CURRENT.with(|c| c.set(Class::Reopen));
    match guard(|| run_seq(seq)) {
        Ok(r) => r,
        // a panic is attributed to the operation that was running
        Err(p) => Err((CURRENT.with(|c| c.get()), format!("PANIC {:?}: {}", seq, p))),
    }
}

fn enumerate(prefix: &mut Vec<Op>, open: [bool; 2], depth: usize, alpha: &[Op], f: &mut dyn FnMut(&[Op]) -> bool) -> bool {
    if !f(prefix) {
        return false;
    }
    if prefix.len() == depth {
        return true;
    }
    for op in alpha {
        let mut o = open;
        match *op {
            Op::Next(h) => {
                if !open[h as usize] {
                    continue;
                }
            }
            Op::Drop(h) | Op::Collect(h, _) => {
                if !open[h as usize] {
                    continue;
                }
                o[h as usize] = false;
            }
            Op::Open(h, _) => o[h as usize] = true,
            Op::MapData(_) | Op::CloneFrom(_) => o = [false, false],
            _ => {}
        }
        prefix.push(*op);
        let go = enumerate(prefix, o, depth, alpha, f);
        prefix.pop();
        if !go {
            return false;
        }
    }
    true
}

pub fn ops_json(seq: &[Op]) -> Value {
    Value::Array(
        seq.iter()
            .map(|o| match *o {
                Op::Get(h, p) => json!(["get", h, p]),
                Op::Contains(h, p) => json!(["contains", h, p]),
                Op::Open(h, b) => json!(["open", h, b]),
                Op::Next(h) => json!(["next", h, 0]),
                Op::Drop(h) => json!(["drop", h, 0]),
                Op::MapData(h) => json!(["map_data", h, 0]),
                Op::CloneFrom(h) => json!(["clone_from", h, 0]),
                Op::Verify(h) => json!(["verify", h, 0]),
                Op::GetKey(h, v) => json!(["get_key", h, v]),
                Op::Ask(h) => json!(["ask", h, 0]),
                Op::Collect(h, x) => json!(["collect", h, x]),
            })
            .collect(),
    )
}

pub fn ops_from(v: &Value) -> Vec<Op> {
    v.as_array()
        .expect("ops")
        .iter()
        .map(|e| {
            let (h, x) = (e[1].as_u64().unwrap() as u8, e[2].as_u64().unwrap() as u8);
            match e[0].as_str().unwrap() {
                "get" => Op::Get(h, x),
                "contains" => Op::Contains(h, x),
                "open" => Op::Open(h, x),
                "next" => Op::Next(h),
                "drop" => Op::Drop(h),
                "map_data" => Op::MapData(h),
                "clone_from" => Op::CloneFrom(h),
                "verify" => Op::Verify(h),
                "ask" => Op::Ask(h),
                "collect" => Op::Collect(h, x),
                _ => Op::GetKey(h, x),
            }
        })
        .collect()
}

pub fn replay(case: &Value) -> Option<Result<String, String>> {
    if case["shared_handle"].as_bool() == Some(true) {
        return Some(run_concurrent(8, 300).map(|n| format!("{} concurrent calls agree with the model", n)).map_err(|e| e.1));
    }
    if !case["reader_ops"].is_array() {
        return None;
    }
    let seq = ops_from(&case["reader_ops"]);
    Some(guarded(&seq).map(|n| format!("{} reader operations agree with the model", n)).map_err(|e| e.1))
}

pub const RULE: &str = " reader operation sequences: every sequence of at most D calls (quick D=4, thorough D=5) over a 46-operation alphabet on two reader handles (get and contains_key, separately, of 4 probes, open one of 4 bounded streams or a bounded Subsequence search, next, drop, collect the rest through into_byte_vec / into_byte_keys / into_values, map_data to the other map's bytes, clone_from the other handle, verify, get_key of 2 values, the harmless questions len/is_empty/size/fst_type/as_bytes/root and a clone that is dropped), every answer compared with a reference model; a wrong answer is reported by the check of the operation's own property.";

/// Adds the exploration to a plan; only failures of class `mine` are reported.
pub fn add_units(p: &mut Plan, mine: Class, depth: usize) {
    let alpha = alphabet();
    for (fi, first) in alpha.iter().enumerate() {
        if matches!(first, Op::Next(_) | Op::Drop(_) | Op::Collect(..)) {
            continue;
        }
        let first = *first;
        let alpha = alpha.clone();
        p.units.push(unit("reader-operation-sequences-two-handles", format!("sequences starting with {:?} (#{})", first, fi), move |st, rep| {
            let mut open = [false, false];
            if let Op::Open(h, _) = first {
                open[h as usize] = true;
            }
            let mut prefix = vec![first];
            let mut reported = 0;
            enumerate(&mut prefix, open, depth, &alpha, &mut |seq| {
                st.states += 1;
                st.evals += 1;
                st.nontrivial += (seq.len() >= 2) as u64;
                match guarded(seq) {
                    Ok(n) => {
                        st.transitions += n;
                    }
                    Err((class, msg)) => {
                        if class == mine || (mine == Class::Panics && msg.starts_with("PANIC")) {
                            rep.violation(format!("reader ops {:?}", seq), msg, json!({"reader_ops": ops_json(seq)}));
                            reported += 1;
                        }
                    }
                }
                st.count("reader_operation_sequences", 1);
                reported < 3 && !rep.stopped()
            });
        }));
    }
}

/// One reader handle shared by several free-running threads (readers are
/// Sync): behind a barrier every thread asks the SAME fresh handle the same
/// questions at the same time - verify(), lookups, a full stream, get_key -,
/// for `rounds` fresh handles. Not an enumeration of schedules (the library's
/// readers have no synchronisation points to intercept; whatever state a
/// change adds inside a handle is reached by the first concurrent calls on
/// it); answers are compared with the model, panics are caught per thread.
pub fn run_concurrent(threads: usize, rounds: usize) -> Result<u64, (Class, String)> {
    use std::sync::{Arc, Barrier, Mutex};
    let cs = contents();
    let failure: Arc<Mutex<Option<(Class, String)>>> = Arc::new(Mutex::new(None));
    let mut n = 0u64;
    for round in 0..rounds {
        let which = round % 2;
        let handle = Arc::new(Fst::new(cs[which].1).map_err(|e| (Class::Reopen, format!("{:?}", e)))?);
        let barrier = Arc::new(Barrier::new(threads));
        std::thread::scope(|sc| {
            for t in 0..threads {
                let (handle, barrier, failure) = (handle.clone(), barrier.clone(), failure.clone());
                sc.spawn(move || {
                    barrier.wait();
                    let fail = |c: Class, m: String| {
                        let mut f = failure.lock().unwrap();
                        if f.is_none() {
                            *f = Some((c, m));
                        }
                    };
                    // the order of the questions differs per thread, the first one is always concurrent
                    for q in 0..4usize {
                        let what = (q + if round % 3 == 0 { 0 } else { t }) % 4;
                        let class = [Class::Verify, Class::Lookup, Class::Stream, Class::GetKey][what];
                        let r = guard(|| -> Result<(), String> {
                            match what {
                                0 => handle.verify().map_err(|e| format!("verify() of builder output failed: {:?}", e)),
                                1 => {
                                    for p in PROBES {
                                        let want = cs[which].0.iter().find(|kv| kv.0 == p).map(|kv| kv.1);
                                        let got = handle.get(p).map(|o| o.value());
                                        if got != want {
                                            return Err(format!("get({}) = {:?}, expected {:?}", key_str(p), got, want));
                                        }
                                    }
                                    Ok(())
                                }
                                2 => {
                                    let mut s = handle.stream();
                                    let mut got: Vec<Kv> = vec![];
                                    while let Some((k, o)) = s.next() {
                                        got.push((k.to_vec(), o.value()));
                                    }
                                    if got != cs[which].0 {
                                        return Err(format!("stream() gave {}, expected {}", kvs_str(&got), kvs_str(&cs[which].0)));
                                    }
                                    Ok(())
                                }
                                _ => {
                                    for (k, v) in &cs[which].0 {
                                        if handle.get_key(*v).as_ref() != Some(k) {
                                            return Err(format!("get_key({}) did not give {}", v, key_str(k)));
                                        }
                                    }
                                    Ok(())
                                }
                            }
                        });
                        match r {
                            Ok(Ok(())) => {}
                            Ok(Err(m)) => fail(class, format!("{} threads sharing one reader handle, round {}: {}", threads, round, m)),
                            Err(p) => fail(class, format!("PANIC {} threads sharing one reader handle, round {}: {}", threads, round, p)),
                        }
                    }
                });
            }
        });
        n += 4 * threads as u64;
        if failure.lock().unwrap().is_some() {
            break;
        }
    }
    let f = failure.lock().unwrap().take();
    match f {
        Some(f) => Err(f),
        None => Ok(n),
    }
}

pub const RULE_CONCURRENT: &str = " One reader handle shared by 8 free-running threads behind a barrier (300 fresh handles; verify, lookups, a full stream, get_key at the same time): answers as in the model, no panic - uncontrolled schedules, not an enumeration.";

pub fn add_concurrent_unit(p: &mut Plan, mine: Class) {
    p.units.push(unit("one-reader-handle-shared-by-free-running-threads (uncontrolled schedules, not an enumeration)", "shared handle".into(), move |st, rep| {
        match run_concurrent(8, 300) {
            Ok(n) => {
                st.evals += n;
                st.transitions += n;
                st.count("calls_on_reader_handles_shared_between_threads", n);
            }
            Err((class, msg)) => {
                if class == mine || (mine == Class::Panics && msg.starts_with("PANIC")) {
                    rep.violation("shared reader handle".into(), msg, json!({"shared_handle": true}));
                }
            }
        }
    }));
}
