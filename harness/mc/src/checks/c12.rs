//! C12 - equivalent sub-automata are shared: minimal whenever the node cache
//! suffices (SEQ engine; eviction premise observed through hook H2).

use std::collections::HashSet;

use serde_json::{json, Value};

use super::util::*;
use crate::codec::{self, Decoded};
use crate::ev::{guard, unit, Plan, Reporter, Stats, Tier};
use crate::front::{self, Geom, GEOMS};
use crate::model::*;

pub struct Obs {
    pub nodes: usize,
    pub trie: usize,
    pub minimal_expected: usize,
    pub evictions: u64,
    pub rejections: u64,
    pub duplicates: usize,
}

pub fn observe(kvs: &[Kv], geom: Geom) -> Result<Obs, String> {
    let (bytes, (ev, rej)) = front::build_raw_counted(geom, 0, kvs)?;
    observe_bytes(&bytes, kvs, ev, rej)
}

fn observe_bytes(bytes: &[u8], kvs: &[Kv], ev: u64, rej: u64) -> Result<Obs, String> {
    guard(|| {
        let d = codec::decode(&bytes)?;
        let keys: Vec<Key> = kvs.iter().map(|x| x.0.clone()).collect();
        let (trie, classes, has_ef) = codec::trie_and_minimal_sizes(&keys);
        let mut seen = HashSet::new();
        let mut dup = 0;
        for n in d.nodes.values() {
            if !seen.insert(Decoded::signature(n)) {
                dup += 1;
            }
        }
        Ok(Obs { nodes: d.nodes.len(), trie, minimal_expected: classes - has_ef as usize, evictions: ev, rejections: rej, duplicates: dup })
    })
    .and_then(|x| x)
}

pub fn run_case(kvs: &[Kv], geom: Geom) -> Result<Obs, String> {
    let o = observe(kvs, geom)?;
    judge(&o, kvs, "")?;
    // the same key sequence through a builder kept in use after rejected calls
    // (insert path, and for sets the add path): the premise is observed on
    // that builder's own counters
    if kvs.len() <= 8 && !kvs.is_empty() {
        let is_set = kvs.iter().all(|x| x.1 == 0);
        for use_add in [false, true] {
            if use_add && !is_set {
                continue;
            }
            let (bytes, stray, (ev, rej)) = front::noisy_build_raw_counted(geom, kvs, use_add)?;
            if stray {
                continue; // a rejected call was accepted: C06's business
            }
            let on = observe_bytes(&bytes, kvs, ev, rej)?;
            judge(&on, kvs, if use_add { " (builder kept in use after rejected add calls)" } else { " (builder kept in use after rejected insert calls)" })?;
        }
    }
    // (a) another builder is created, used and finished (or dropped) on the same
    // thread at every point of the build; (b) the keys with value 0 that come
    // first go through add(), the others through insert() - add() before
    // insert() is the well-behaved order of mixing the two on one raw builder
    if kvs.len() <= 8 && kvs.len() >= 2 {
        for split in 0..=kvs.len() {
            if kvs.len() > 5 && split != kvs.len() / 2 {
                continue;
            }
            for finish_other in [split % 2 == 0] {
                let (bytes, (ev, rej)) = guard(|| -> Result<(Vec<u8>, (u64, u64)), String> {
                    let e = |x: fst::Error| format!("{:?}", x);
                    let mut b = fst::raw::Builder::verif_new_with_registry(Vec::with_capacity(64), 0, geom.0, geom.1).map_err(e)?;
                    for (i, (k, v)) in kvs.iter().enumerate() {
                        if i == split {
                            other_builder(geom, finish_other);
                        }
                        b.insert(k, *v).map_err(e)?;
                    }
                    if split == kvs.len() {
                        other_builder(geom, finish_other);
                    }
                    let c = b.verif_registry_counters();
                    let bytes = b.into_inner().map_err(e)?;
                    let ld = |i: usize| c[i].load(std::sync::atomic::Ordering::Relaxed);
                    Ok((bytes, (ld(0), ld(1))))
                })
                .and_then(|x| x)?;
                let on = observe_bytes(&bytes, kvs, ev, rej)?;
                judge(&on, kvs, " (another builder was created and used on the thread in the middle of the build)")?;
            }
        }
        let zeros = kvs.iter().take_while(|x| x.1 == 0).count();
        if zeros > 0 && zeros < kvs.len() {
            let (bytes, (ev, rej)) = guard(|| -> Result<(Vec<u8>, (u64, u64)), String> {
                let e = |x: fst::Error| format!("{:?}", x);
                let mut b = fst::raw::Builder::verif_new_with_registry(Vec::with_capacity(64), 0, geom.0, geom.1).map_err(e)?;
                for (i, (k, v)) in kvs.iter().enumerate() {
                    if i < zeros { b.add(k).map_err(e)?; } else { b.insert(k, *v).map_err(e)?; }
                }
                let c = b.verif_registry_counters();
                let bytes = b.into_inner().map_err(e)?;
                let ld = |i: usize| c[i].load(std::sync::atomic::Ordering::Relaxed);
                Ok((bytes, (ld(0), ld(1))))
            })
            .and_then(|x| x)?;
            let on = observe_bytes(&bytes, kvs, ev, rej)?;
            judge(&on, kvs, " (leading zero-valued keys through add(), the rest through insert())")?;
        }
    }
    Ok(o)
}

/// A second builder living on the same thread for a moment.
fn other_builder(geom: Geom, finish: bool) {
    let _ = guard(|| {
        if let Ok(mut b) = fst::raw::Builder::verif_new_with_registry(Vec::with_capacity(64), 0, geom.0, geom.1) {
            let _ = b.insert("aa", 3);
            let _ = b.insert("ab", 1);
            let _ = b.insert("bab", 9);
            if finish {
                let _ = b.into_inner();
            }
        }
    });
}

fn judge(o: &Obs, kvs: &[Kv], what: &str) -> Result<(), String> {
    let is_set = kvs.iter().all(|x| x.1 == 0);
    if o.nodes > o.trie {
        return Err(format!("{} nodes emitted but the prefix trie of the keys has only {}{}", o.nodes, o.trie, what));
    }
    if o.evictions == 0 && o.rejections == 0 {
        if o.duplicates > 0 {
            return Err(format!("cache never evicted, yet {} emitted nodes duplicate an earlier node{}", o.duplicates, what));
        }
        if is_set && o.nodes != o.minimal_expected {
            return Err(format!("cache never evicted, yet the set has {} nodes; the minimal acyclic DFA needs {}{}", o.nodes, o.minimal_expected, what));
        }
    }
    Ok(())
}

pub fn replay(case: &Value) -> Result<String, String> {
    if let Some(c) = case["corpus"].as_str() {
        return corpus_ratio(c).and_then(|(r, _, _, _)| if r > 0.5 { Ok(format!("sharing ratio {:.3}", r)) } else { Err(format!("sharing ratio {:.3} <= 0.5", r)) });
    }
    let kvs = kvs_from(&case["kvs"]);
    let geom = geom_from(&case["geom"]);
    run_case(&kvs, geom).map(|o| format!("{} nodes, trie {}, evictions {}", o.nodes, o.trie, o.evictions))
}

fn do_case(kvs: &[Kv], geom: Geom, st: &mut Stats, rep: &Reporter) {
    st.states += 1;
    st.evals += 1;
    st.transitions += kvs.len() as u64 + 1;
    match run_case(kvs, geom) {
        Ok(o) => {
            crate::ev::obs(((o.nodes as u64) << 32) | ((o.trie as u64) << 8) | (o.evictions.min(255)));
            if o.evictions == 0 && o.rejections == 0 {
                st.count(&format!("eviction_free_builds[{}x{}]", geom.0, geom.1), 1);
                if o.nodes < o.trie {
                    st.nontrivial += 1;
                    st.count("eviction_free_builds_with_real_sharing", 1);
                }
            } else {
                st.count(&format!("evicting_builds[{}x{}]", geom.0, geom.1), 1);
            }
        }
        Err(msg) => rep.violation(format!("{} {:?}", kvs_str(kvs), geom), msg, json!({"kvs": kvs_json(kvs), "geom": [geom.0, geom.1]})),
    }
}

/// (realised/achievable sharing, trie nodes, emitted nodes, minimal nodes)
pub fn corpus_ratio(name: &str) -> Result<(f64, usize, usize, usize), String> {
    let path = format!("/repo/data/{}", name);
    let data = std::fs::read(&path).map_err(|e| format!("machinery: cannot read {}: {}", path, e))?;
    let mut keys: Vec<Key> = data.split(|&b| b == b'\n').filter(|l| !l.is_empty()).map(|l| l.to_vec()).collect();
    keys.sort();
    keys.dedup();
    if keys.is_empty() {
        return Err(format!("machinery: corpus {} is empty", name));
    }
    let kvs: Vec<Kv> = keys.iter().map(|k| (k.clone(), 0)).collect();
    let bytes = front::build(front::Front::SetInsert, front::DEFAULT_GEOM, &kvs)?;
    let d = codec::decode(&bytes)?;
    let (trie, classes, has_ef) = codec::trie_and_minimal_sizes(&keys);
    let minimal = classes - has_ef as usize;
    let emitted = d.nodes.len();
    if emitted > trie {
        return Err(format!("{}: {} nodes emitted, trie has {}", name, emitted, trie));
    }
    let ratio = (trie - emitted) as f64 / (trie - minimal).max(1) as f64;
    Ok((ratio, trie, emitted, minimal))
}

pub fn plan(tier: Tier) -> Plan {
    // (see run_case: noisy builders, a second builder in the middle of the build, add() before insert())
    let mut p = Plan::new("C12", "model_checking");
    let thorough = tier.thorough();
    p.rule = "every key set of U_ab3, U_abc2, U_raw2 as a set and as a map (values i, 7, 3i+1, boundary values) under every cache geometry of {0x0,1x1,1x2,2x1,2x2,1x3,3x3,10000x2}; per build the eviction/rejection counters (hook H2) are read and the nodes come from the independent decoder's tiling (unreachable garbage would count); if no eviction and no rejection happened: no two tiled nodes have the same (final, final output, transitions) and a set has exactly the node count of the minimal acyclic DFA of its keys (bottom-up signature hashing of the trie) minus the unstored empty-final state; always: nodes <= prefix-trie nodes; twin families: two or three equivalent subtrees whose root has 1..256 transitions (across the index threshold), as sets and as maps; corpora clause: realised/achievable sharing > 0.5 on the shipped word/url lists (fixed evaluations, not an enumeration). non-trivial = eviction-free builds with real sharing (nodes < trie nodes); for key sets of <= 8 keys the same judgement on the output of a raw builder kept in use after rejected calls (insert path; for sets also the add path), the premise observed on that builder's own counters; for key sets of <= 8 keys also with a second builder created, used and finished (or dropped) on the same thread at every point of the build, and with the leading zero-valued keys going through add() and the rest through insert() (that builder's own counters as premise)".into();
    p.assumptions = vec![
        "'equivalent nodes' is checked as identical (final, final output, [(input, output, target address)]); with targets already deduplicated bottom-up this is language equivalence".into(),
        "data/wiki-urls-100000 is an emptied file in this checkout and is skipped".into(),
    ];
    let geoms: Vec<Geom> = GEOMS.to_vec();
    for u in [u_ab3(), u_abc2(), u_raw2()] {
        for (a, b) in ranges(1 << u.keys.len(), 64) {
            let u = u.clone();
            let geoms = geoms.clone();
            p.units.push(unit(&format!("{}-subsets-all-geometries", u.name), format!("{} masks {}..{}", u.name, a, b), move |st, rep| {
                for mask in a..b {
                    if rep.stopped() { return; }
                    let keys = select(&u.keys, mask);
                    if u.name == "U_abc2" && mask != 0 && keys.iter().all(|k| !k.contains(&b'c')) { continue; }
                    let pats: Vec<Pat> = if thorough { vec![Pat::Zero, Pat::Idx, Pat::Const7, Pat::Lin3, Pat::Boundary(0), Pat::Dec] } else { vec![Pat::Zero, Pat::Idx, Pat::Const7, Pat::Lin3] };
                    for pat in pats {
                        let kvs = pat.apply(&keys);
                        for g in &geoms {
                            if !thorough && pat != Pat::Zero && pat != Pat::Lin3 && *g != (10_000, 2) && *g != (2, 2) {
                                continue;
                            }
                            do_case(&kvs, *g, st, rep);
                        }
                    }
                    if mask % 4099 == 77 {
                        st.sample(|| {
                            let kvs = Pat::Zero.apply(&keys);
                            let o = observe(&kvs, (10_000, 2)).ok();
                            json!({"keys": keys.iter().map(|k| key_str(k)).collect::<Vec<_>>(), "nodes": o.as_ref().map(|o| o.nodes), "trie": o.as_ref().map(|o| o.trie), "minimal": o.as_ref().map(|o| o.minimal_expected)})
                        });
                    }
                }
            }));
        }
    }
    // maps with every assignment from {0,1,2}: subsets of U_abc2 with <= 5
    // keys (thorough <= 6) under a cache that never evicts for such inputs
    {
        let u = u_abc2();
        let maxk = if thorough { 6 } else { 5 };
        let mut masks = vec![];
        for_each_mask_upto(u.keys.len(), maxk, &mut |m| masks.push(m));
        let chunk = (masks.len() + 127) / 128;
        for part in masks.chunks(chunk.max(1)) {
            let part = part.to_vec();
            let u = u.clone();
            p.units.push(unit("U_abc2-all-value-assignments-{0,1,2}-cache-100x2", format!("abc2 assignments {} masks from {}", part.len(), part[0]), move |st, rep| {
                for &mask in &part {
                    if rep.stopped() { return; }
                    let keys = select(&u.keys, mask);
                    let n = keys.len();
                    for code in 0..3usize.pow(n as u32) {
                        let mut c = code;
                        let kvs: Vec<Kv> = keys.iter().map(|k| { let v = (c % 3) as u64; c /= 3; (k.clone(), v) }).collect();
                        do_case(&kvs, (100, 2), st, rep);
                        do_case(&kvs, (2, 2), st, rep);
                    }
                }
            }));
        }
    }
    // fan-out families under the default geometry
    for n in FANOUTS_QUICK {
        p.units.push(unit("fanout-families", format!("fanout {}", n), move |st, rep| {
            for (_, keys) in fanout_family(n) {
                for pat in [Pat::Zero, Pat::Lin3] {
                    do_case(&pat.apply(&keys), (10_000, 2), st, rep);
                    do_case(&pat.apply(&keys), (2, 2), st, rep);
                }
            }
        }));
    }
    // twin wide nodes: two (three) equivalent subtrees whose root has n
    // transitions, n across the index threshold (32/33) and up to 256
    for n in [1usize, 2, 31, 32, 33, 34, 64, 200, 256] {
        p.units.push(unit("twin-wide-subtrees", format!("twin fan-out {}", n), move |st, rep| {
            for heads in [&b"ac"[..], &b"acx"[..]] {
                for depth2 in [false, true] {
                    let mut keys: Vec<Key> = vec![];
                    for &h in heads {
                        for i in 0..n {
                            let b = ((i * 256) / n) as u8;
                            let mut k = vec![h, b];
                            if depth2 {
                                k.push(b'q');
                            }
                            keys.push(k);
                        }
                    }
                    keys.sort();
                    st.count("twin_cases", 1);
                    do_case(&Pat::Zero.apply(&keys), (10_000, 2), st, rep);
                    do_case(&Pat::Zero.apply(&keys), (100, 2), st, rep);
                    // as a map whose values repeat with period n, the twins are equivalent as transducers too
                    let kvs: Vec<Kv> = keys.iter().enumerate().map(|(i, k)| (k.clone(), (i % n) as u64)).collect();
                    do_case(&kvs, (10_000, 2), st, rep);
                }
            }
        }));
    }
    {
        let total = if thorough { 1260 } else { 168 };
        for part in 0..16usize {
            p.units.push(unit("mixed-mid-size-family-(finite-family)", format!("mixed part {}", part), move |st, rep| {
                for (i, (_, kvs)) in crate::model::mixed_family(total).into_iter().enumerate() {
                    if i % 16 != part { continue; }
                    do_case(&kvs, (10_000, 2), st, rep);
                    let set: Vec<Kv> = kvs.iter().map(|x| (x.0.clone(), 0)).collect();
                    do_case(&set, (10_000, 2), st, rep);
                    do_case(&set, (50, 3), st, rep);
                }
            }));
        }
    }
    for part in 0..16usize {
        p.units.push(unit("key-length-ladder-2..1100-(finite-family)", format!("length ladder part {}", part), move |st, rep| {
            for (_, kvs) in crate::model::key_length_ladder(part, 16) {
                if kvs.iter().any(|x| x.0.len() > 1101) { continue; }
                do_case(&kvs, (10_000, 2), st, rep);
            }
        }));
    }
    let corpora: Vec<&'static str> = if thorough { vec!["words-10000", "wiki-urls-10000", "words-100000"] } else { vec!["words-10000", "wiki-urls-10000"] };
    for c in corpora {
        p.units.push(unit("corpora-sharing-ratio", format!("corpus {}", c), move |st, rep| {
            st.evals += 1;
            st.states += 1;
            match corpus_ratio(c) {
                Ok((r, trie, emitted, minimal)) => {
                    st.count("corpora_evaluated", 1);
                    st.sample(|| json!({"corpus": c, "sharing_ratio": r, "trie_nodes": trie, "emitted_nodes": emitted, "minimal_nodes": minimal}));
                    if !(r > 0.5) {
                        rep.violation(format!("corpus {}", c), format!("realised/achievable sharing {:.3} (trie {}, emitted {}, minimal {})", r, trie, emitted, minimal), json!({"corpus": c}));
                    }
                }
                Err(msg) => rep.violation(format!("corpus {}", c), msg, json!({"corpus": c})),
            }
        }));
    }
    p.must_be_nonzero = vec!["corpora_evaluated".into(), "twin_cases".into()];
    p
}
