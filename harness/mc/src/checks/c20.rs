//! C20 - opening and verifying untrusted bytes is total and memory-safe.

use fst::raw::Fst;
use fst::{Map, Set};
use serde_json::{json, Value};

use super::util::*;
use crate::crc::masked_crc32c;
use crate::ev::{guard, hex, unhex, unit, Plan, Tier};
use crate::front::{self, Front};
use crate::model::*;

/// `total` on the bytes as given and as an interior slice of a larger buffer
/// at the offsets 1, 3 and 7 (data that does not start on an aligned address).
pub fn total(bytes: &[u8]) -> Result<bool, String> {
    let r = total_at(bytes)?;
    let mut big = vec![0x5au8; bytes.len() + 16];
    // the Vec's buffer is at least 8-aligned; its offsets 1, 3, 7 are not
    let base = (8 - (big.as_ptr() as usize % 8)) % 8;
    for off in [1usize, 3, 7] {
        let o = base + off;
        big[o..o + bytes.len()].copy_from_slice(bytes);
        if total_at(&big[o..o + bytes.len()])? != r {
            return Err(format!("the same {} bytes open at one address and not at another (offset {} from an 8-byte boundary)", bytes.len(), off));
        }
    }
    Ok(r)
}

fn total_at(bytes: &[u8]) -> Result<bool, String> {
    let r = guard(|| {
        let mut opened = false;
        if let Ok(f) = Fst::new(bytes) {
            opened = true;
            let _ = f.len();
            let _ = f.is_empty();
            let _ = f.fst_type();
            let _ = f.size();
            let _ = f.as_bytes().len();
            let _ = f.to_vec().len();
            let _ = f.verify();
        }
        if let Ok(f) = Fst::new(bytes.to_vec()) {
            let _ = (f.len(), f.fst_type(), f.size());
            let _ = f.verify();
        }
        if let Ok(m) = Map::new(bytes) {
            let _ = (m.len(), m.is_empty());
            let _ = (m.as_fst().fst_type(), m.as_fst().size());
            let _ = m.as_fst().verify();
        }
        if let Ok(s) = Set::new(bytes) {
            let _ = (s.len(), s.is_empty());
            let _ = s.as_fst().verify();
        }
        // an existing reader handed these bytes through map_data
        if let Ok(f) = Fst::new(other_fst_bytes()).unwrap().map_data(|_| bytes) {
            let _ = (f.len(), f.is_empty(), f.fst_type(), f.size(), f.as_bytes().len());
            let _ = f.verify();
        }
        if let Ok(m) = Map::new(other_fst_bytes()).unwrap().map_data(|_| bytes.to_vec()) {
            let _ = (m.len(), m.is_empty());
            let _ = m.as_fst().verify();
        }
        opened
    });
    r.map_err(|p| format!("{} on {} bytes {}", p, bytes.len(), if bytes.len() <= 80 { hex(bytes) } else { format!("{}...", hex(&bytes[..80])) }))
}

fn put64(b: &mut [u8], at: usize, v: u64) {
    for i in 0..8 {
        if at + i < b.len() {
            b[at + i] = (v >> (8 * i)) as u8;
        }
    }
}

/// All grid files of one total length.
pub fn run_grid(len: usize) -> Result<(u64, u64), String> {
    let mut n = 0;
    let mut opened = 0;
    let l = len as u64;
    let versions = [0u64, 1, 2, 3, 4, 1 << 32, u64::MAX];
    let roots = [
        0u64, 1, 15, 16,
        l.wrapping_sub(22), l.wrapping_sub(21), l.wrapping_sub(20), l.wrapping_sub(18), l.wrapping_sub(17), l.wrapping_sub(16),
        l.wrapping_sub(1), l, l + 1, 1 << 31, 1 << 63, u64::MAX - 20, u64::MAX - 16, u64::MAX,
    ];
    let counts = [0u64, 1, u64::MAX];
    for &version in &versions {
        for &root in &roots {
            for &count in &counts {
                for filler in [0x00u8, 0xff, 0x80, 0x40, 0xc1] {
                    for ck in 0..3 {
                        let mut b = vec![filler; len];
                        put64(&mut b, 0, version);
                        // footer positions for both layouts (with and without checksum)
                        let end = if version >= 3 { len.saturating_sub(4) } else { len };
                        if end >= 16 {
                            put64(&mut b, end - 8, root);
                            put64(&mut b, end - 16, count);
                        }
                        if len >= 4 {
                            let c = match ck {
                                0 => 0,
                                1 => masked_crc32c(&b[..len - 4]),
                                _ => !masked_crc32c(&b[..len - 4]),
                            };
                            if version >= 3 || ck == 0 {
                                if version >= 3 {
                                    b[len - 4..].copy_from_slice(&c.to_le_bytes());
                                }
                            } else {
                                continue;
                            }
                        }
                        n += 1;
                        if total(&b)? {
                            opened += 1;
                        }
                    }
                }
            }
        }
    }
    Ok((n, opened))
}

/// Every truncation and single-byte mutation of a valid FST.
pub fn run_mutations(bytes: &[u8]) -> Result<(u64, u64), String> {
    let mut n = 0;
    let mut opened = 0;
    for cut in 0..=bytes.len() {
        n += 2;
        opened += total(&bytes[..cut])? as u64;
        opened += total(&bytes[cut..])? as u64;
    }
    let mut m = bytes.to_vec();
    for pos in 0..bytes.len() {
        for d in 1..=255u8 {
            m[pos] = bytes[pos] ^ d;
            n += 1;
            opened += total(&m)? as u64;
        }
        m[pos] = bytes[pos];
    }
    Ok((n, opened))
}

/// Sets the header version of a file encoded for version `from` to `to`,
/// adding / dropping / recomputing the trailing checksum as `to` requires.
fn relabel(bytes: &[u8], from: u64, to: u64) -> Vec<u8> {
    let mut b = if from >= 3 { bytes[..bytes.len() - 4].to_vec() } else { bytes.to_vec() };
    put64(&mut b, 0, to);
    if to >= 3 {
        let c = masked_crc32c(&b);
        b.extend_from_slice(&c.to_le_bytes());
    }
    b
}

/// The member `(v, name)` of the legacy family: reference-encoded files of
/// version 1, 2 and 3 (sets and maps, fan-outs across the index threshold).
pub fn legacy_members() -> Vec<(String, Vec<Kv>)> {
    let mut v: Vec<(String, Vec<Kv>)> = vec![];
    let u = u_ab3();
    for mask in [0u64, 1, 0b10, 0b110, 0b10110, 0b1011011, (1 << 15) - 1] {
        v.push((format!("U_ab3 mask {:x}", mask), Pat::Lin3.apply(&select(&u.keys, mask))));
    }
    for n in [1usize, 2, 31, 32, 33, 34, 40, 64, 100, 255, 256] {
        let keys: Vec<Key> = (0..n).map(|i| vec![((i * 256) / n) as u8]).collect();
        v.push((format!("fanout {} set", n), Pat::Zero.apply(&keys)));
        v.push((format!("fanout {} map", n), Pat::Lin3.apply(&keys)));
        let mut keys2: Vec<Key> = vec![vec![]];
        keys2.extend((0..n).map(|i| vec![(255 - i) as u8]));
        keys2.sort();
        v.push((format!("fanout {} final root wide values", n), Pat::MaxMinus.apply(&keys2)));
        let mut keys3: Vec<Key> = (0..n).map(|i| vec![b'p', i as u8]).collect();
        keys3.push(b"q".to_vec());
        v.push((format!("fanout {} below a prefix", n), Pat::Lin3.apply(&keys3)));
    }
    v
}

/// One legacy member: every version, every relabelling, every truncation and
/// every single-byte mutation (plain, and with the checksum recomputed).
pub fn run_legacy(kvs: &[Kv], mutate: bool) -> Result<(u64, u64), String> {
    use crate::codec::{self, EncodeOpts, Layout};
    let mut n = 0u64;
    let mut opened = 0u64;
    for from in [1u64, 2, 3] {
        for any_only in [false, true] {
            let base = codec::encode(kvs, &EncodeOpts { version: from, ty: 0, layout: Layout::Shared, any_trans_only: any_only });
            for to in [1u64, 2, 3] {
                let b = relabel(&base, from, to);
                n += 1;
                let o = total(&b)?;
                opened += o as u64;
                if !mutate || (from != to && b.len() > 400) {
                    continue;
                }
                for cut in 0..=b.len() {
                    n += 1;
                    opened += total(&b[..cut])? as u64;
                }
                let mut m = b.clone();
                let body = if to >= 3 { b.len() - 4 } else { b.len() };
                let deltas: &[u8] = if b.len() > 400 { &[0x01, 0x80, 0xff] } else { &[0x01, 0x02, 0x04, 0x08, 0x10, 0x20, 0x40, 0x80, 0xff, 0x7f, 0x03] };
                for pos in 0..body {
                    for &d in deltas {
                        m[pos] = b[pos] ^ d;
                        n += 1;
                        opened += total(&m)? as u64;
                        if to >= 3 {
                            // the same mutant with a correct checksum: reaches the code behind the checksum test
                            let c = masked_crc32c(&m[..body]);
                            m[body..].copy_from_slice(&c.to_le_bytes());
                            n += 1;
                            opened += total(&m)? as u64;
                            m[body..].copy_from_slice(&b[body..]);
                        }
                    }
                    m[pos] = b[pos];
                }
            }
        }
    }
    Ok((n, opened))
}

pub fn replay(case: &Value) -> Result<String, String> {
    if let Some(r) = super::seqread::replay(case) {
        return r;
    }
    match case["kind"].as_str().unwrap() {
        "legacy" => {
            let i = case["member"].as_u64().unwrap() as usize;
            run_legacy(&legacy_members()[i].1, true).map(|(n, o)| format!("{} files, {} opened, no panic", n, o))
        }
        "grid" => run_grid(case["len"].as_u64().unwrap() as usize).map(|(n, o)| format!("{} files, {} opened, no panic", n, o)),
        "bytes" => total(&unhex(case["hex"].as_str().unwrap())).map(|o| format!("opened={} no panic", o)),
        "unsafe" => forbid_unsafe(),
        _ => {
            let kvs = kvs_from(&case["kvs"]);
            let b = front::build(Front::RawInsert, (3, 3), &kvs)?;
            run_mutations(&b).map(|(n, o)| format!("{} mutants, {} opened, no panic", n, o))
        }
    }
}

/// `-F unsafe_code` over the library crate (forbid cannot be overridden by
/// inner allows). This is a compiler lint over all compilation units of the
/// library, not model checking; it is reported under that name.
pub fn forbid_unsafe() -> Result<String, String> {
    let out = std::process::Command::new("cargo")
        .current_dir("/repo")
        .env("CARGO_TARGET_DIR", format!("{}/harness/target/forbid-unsafe", crate::ev::verif_dir()))
        .env_remove("RUSTFLAGS")
        .args(["rustc", "--offline", "-p", "fst", "--lib", "--features", "levenshtein", "--", "-F", "unsafe_code"])
        .output()
        .map_err(|e| format!("machinery: cannot run cargo: {}", e))?;
    let err = String::from_utf8_lossy(&out.stderr).to_string();
    let uses_unsafe = err.contains("usage of an `unsafe`")
        || err.contains("declaration of an `unsafe`")
        || err.contains("implementation of an `unsafe`")
        || err.contains("usage of `unsafe`")
        || err.contains("unsafe attribute");
    if out.status.success() {
        Ok("library compiles under -F unsafe_code".into())
    } else if !uses_unsafe && err.contains("E0453") && !super::c15::shared_state_scan().iter().any(|h| h.ends_with("unsafe ")) {
        // only a lint-level conflict (an `allow(unsafe_code)` attribute somewhere)
        // and no `unsafe` token in the sources: there is no unsafe code
        Ok("no unsafe code (only an allow(unsafe_code) attribute conflicts with forbid)".into())
    } else if uses_unsafe || err.contains("unsafe_code") {
        let lines: Vec<&str> = err.lines().filter(|l| l.contains("unsafe") || l.trim_start().starts_with("-->")).take(6).collect();
        Err(format!("the library contains unsafe code: {}", lines.join(" | ")))
    } else {
        Err(format!("machinery: cargo rustc failed for another reason: {}", err.lines().rev().take(8).collect::<Vec<_>>().join(" | ")))
    }
}

pub fn plan(tier: Tier) -> Plan {
    let mut p = Plan::new("C20", "exploration");
    let thorough = tier.thorough();
    p.rule = "[also: verify() of well-formed files of 40 bytes .. 9 MB in growing, shrinking and mixed order on one fresh thread and then on others] (a) boundary grid: total length 0..64 x version field {0,1,2,3,4,2^32,u64::MAX} x root address {0,1,15,16,len-22..len-16,len-1,len,len+1,2^31,2^63,u64::MAX-20,u64::MAX-16,u64::MAX} x key count {0,1,u64::MAX} x filler {00,ff,80,40,c1} x checksum {0, correct, inverted}; (b) every truncation (every prefix and every suffix) and every single-byte mutation (255 values) of every FST built from subsets of U_ab3 with <= 3 keys (thorough: <= 4) and of three fan-out FSTs; for each byte string (as given and as an interior slice 1, 3 and 7 bytes past an 8-byte boundary), under catch_unwind with overflow checks on: Fst::new / Map::new / Set::new (slice and Vec) / map_data of an existing reader to these bytes and, on whatever opens, len, is_empty, fst_type, size, as_bytes, to_vec, verify - any panic is a violation; (b2) files written by the independent reference encoder in versions 1, 2 and 3 (small sets, fan-outs 1..256 across the index threshold, final roots, wide node below a prefix; both node-form policies): each as is, with the header relabelled to each other version (checksum added/dropped/recomputed), every truncation, and single-byte mutants (11 xor masks per position) both plain and WITH THE CHECKSUM RECOMPUTED so that the code behind the checksum test is reached; (c) cargo rustc -p fst --lib --features levenshtein -- -F unsafe_code must compile (a lint, not model checking). non-trivial = byte strings that open".into();
    p.assumptions = vec![
        "operations after the gate (root, stream, get) on garbage may panic by the property's own wording and are not called".into(),
        "the 'no unsafe code' clause is decided by the compiler's forbid(unsafe_code) lint over the library crate with the levenshtein feature on".into(),
    ];
    for len in 0..=64usize {
        p.units.push(unit("header-footer-boundary-grid-len-0..64", format!("grid len {}", len), move |st, rep| {
            match run_grid(len) {
                Ok((n, o)) => {
                    st.evals += n;
                    st.states += n;
                    st.transitions += 7 * o + n;
                    st.nontrivial += o;
                    st.count("grid_files", n);
                    st.count("grid_files_opened", o);
                }
                Err(msg) => rep.violation(format!("grid len {}", len), msg, json!({"kind": "grid", "len": len})),
            }
        }));
    }
    {
        let u = u_ab3();
        let mut masks = vec![];
        for_each_mask_upto(u.keys.len(), if thorough { 4 } else { 3 }, &mut |m| masks.push(m));
        let chunk = (masks.len() + 127) / 128;
        for part in masks.chunks(chunk) {
            let part = part.to_vec();
            let u = u.clone();
            p.units.push(unit("U_ab3-small-sets-truncations-and-mutations", format!("mutations {} masks from {}", part.len(), part[0]), move |st, rep| {
                for &mask in &part {
                    if rep.stopped() { return; }
                    for pat in [Pat::Lin3, Pat::MaxMinus] {
                        let kvs = pat.apply(&select(&u.keys, mask));
                        let b = match front::build(Front::RawInsert, (3, 3), &kvs) { Ok(b) => b, Err(_) => continue };
                        match run_mutations(&b) {
                            Ok((n, o)) => {
                                st.evals += n;
                                st.states += n;
                                st.transitions += 7 * o + n;
                                st.nontrivial += o;
                                st.count("mutants", n);
                                st.count("mutants_opened", o);
                            }
                            Err(msg) => rep.violation(format!("mutation of {}", kvs_str(&kvs)), msg, json!({"kind": "mutations", "kvs": kvs_json(&kvs)})),
                        }
                        if mask == 0b111 {
                            st.sample(|| json!({"valid_fst_of": kvs_str(&kvs), "hex": hex(&b)}));
                        }
                    }
                }
            }));
        }
        for n in [2usize, 33, 256] {
            p.units.push(unit("fanout-truncations-and-mutations", format!("mutations fanout {}", n), move |st, rep| {
                let keys: Vec<Key> = (0..n).map(|i| vec![i as u8]).collect();
                let kvs = Pat::Lin3.apply(&keys);
                let b = front::build(Front::RawInsert, (3, 3), &kvs).unwrap();
                match run_mutations(&b) {
                    Ok((n, o)) => {
                        st.evals += n;
                        st.states += n;
                        st.nontrivial += o;
                        st.count("mutants", n);
                        st.count("mutants_opened", o);
                    }
                    Err(msg) => rep.violation(format!("mutation of fanout {}", n), msg, json!({"kind": "mutations", "kvs": kvs_json(&kvs)})),
                }
            }));
        }
    }
    for (i, (name, kvs)) in legacy_members().into_iter().enumerate() {
        p.units.push(unit("reference-encoded-v1-v2-v3-files-relabelled-truncated-mutated", format!("legacy {}", name), move |st, rep| {
            match run_legacy(&kvs, true) {
                Ok((n, o)) => {
                    st.evals += n;
                    st.states += n;
                    st.transitions += 7 * o + n;
                    st.nontrivial += o;
                    st.count("legacy_files", n);
                    st.count("legacy_files_opened", o);
                }
                Err(msg) => {
                    if msg.starts_with("machinery") {
                        eprintln!("{}", msg);
                        std::process::exit(2);
                    }
                    rep.violation(format!("legacy {}", name), msg, json!({"kind": "legacy", "member": i}))
                }
            }
        }));
    }
    p.units.push(unit("forbid-unsafe-code-lint", "unsafe lint".into(), move |st, rep| {
        st.evals += 1;
        st.states += 1;
        match forbid_unsafe() {
            Ok(_) => st.count("unsafe_lint_passed", 1),
            Err(msg) => {
                if msg.starts_with("machinery") {
                    eprintln!("{}", msg);
                    std::process::exit(2);
                }
                rep.violation("unsafe code in the library".into(), msg, json!({"kind": "unsafe"}));
            }
        }
    }));
    p.must_be_nonzero = vec!["grid_files_opened".into(), "mutants_opened".into(), "unsafe_lint_passed".into(), "legacy_files_opened".into()];
    // verify() of well-formed files of very different sizes, in growing, shrinking and mixed
    // order on one fresh thread, then on a second thread in another order (whatever verify()
    // sizes or caches from the first file it sees must not break on the next)
    p.units.push(unit("verify-of-files-of-growing-and-shrinking-sizes-on-one-thread-and-across-threads", "verify size sequences".into(), move |st, rep| {
        let sizes: [usize; 9] = [3_100, 40, 40_000, 4_000, 400_000, 3_000_000, 70_000, 9_000_000, 5_000];
        let files: std::sync::Arc<Vec<Vec<u8>>> = std::sync::Arc::new(sizes.iter().map(|&l| {
            let mut b = fst::raw::Builder::memory();
            b.insert(vec![b'a'; l], 7).unwrap();
            b.insert(vec![b'b'; 3], 9).unwrap();
            b.into_inner().unwrap()
        }).collect());
        let run = |order: Vec<usize>, files: std::sync::Arc<Vec<Vec<u8>>>| -> Result<u64, String> {
            std::thread::spawn(move || -> Result<u64, String> {
                let mut n = 0;
                for i in order {
                    let r = guard(|| Fst::new(&files[i][..]).map(|f| (f.verify().is_ok(), f.len())));
                    match r {
                        Ok(Ok((true, 2))) => n += 1,
                        Ok(other) => return Err(format!("verify() of a builder output of {} bytes (file {} of the sequence) gave {:?}", files[i].len(), n + 1, other.map(|x| x.0).map_err(|e| format!("{:?}", e)))),
                        Err(p) => return Err(format!("verify() of a well-formed file of {} bytes, the {}. file verified on this thread: {}", files[i].len(), n + 1, p)),
                    }
                }
                Ok(n)
            })
            .join()
            .map_err(|_| "thread panicked".to_string())?
        };
        for order in [vec![0usize, 1, 2, 3, 4, 5, 6, 7, 8], vec![8, 7, 6, 5, 4, 3, 2, 1, 0], vec![7, 0, 5, 2]] {
            st.evals += order.len() as u64;
            st.states += order.len() as u64;
            match run(order.clone(), files.clone()) {
                Ok(n) => st.count("verify_size_sequence_calls", n),
                Err(msg) => rep.violation(format!("verify sizes {:?}", order), msg, json!({"verify_sizes": order})),
            }
        }
    }));
    p.rule.push_str(super::seqread::RULE);
    p.rule.push_str(super::seqread::RULE_CONCURRENT);
    super::seqread::add_concurrent_unit(&mut p, super::seqread::Class::Panics);
    super::seqread::add_units(&mut p, super::seqread::Class::Panics, if tier.thorough() { 5 } else { 4 });
    p
}
