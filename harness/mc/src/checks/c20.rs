//! C20 - opening and verifying untrusted bytes is total and memory-safe.

use fst::raw::Fst;
use fst::{Map, Set};
use serde_json::{json, Value};

use super::util::*;
use crate::crc::masked_crc32c;
use crate::ev::{guard, hex, unhex, unit, Plan, Tier};
use crate::front::{self, Front};
use crate::model::*;

/// "open, then metadata + verify" under catch_unwind. Ok(opened?).
pub fn total(bytes: &[u8]) -> Result<bool, String> {
    let r = guard(|| {
        let mut opened = false;
        if let Ok(f) = Fst::new(bytes) {
            opened = true;
            let _ = f.len();
            let _ = f.is_empty();
            let _ = f.fst_type();
            let _ = f.size();
            let _ = f.as_bytes().len();
            let _ = f.to_vec().len();
            let _ = f.verify();
        }
        if let Ok(f) = Fst::new(bytes.to_vec()) {
            let _ = (f.len(), f.fst_type(), f.size());
            let _ = f.verify();
        }
        if let Ok(m) = Map::new(bytes) {
            let _ = (m.len(), m.is_empty());
            let _ = (m.as_fst().fst_type(), m.as_fst().size());
            let _ = m.as_fst().verify();
        }
        if let Ok(s) = Set::new(bytes) {
            let _ = (s.len(), s.is_empty());
            let _ = s.as_fst().verify();
        }
        opened
    });
    r.map_err(|p| format!("{} on {} bytes {}", p, bytes.len(), if bytes.len() <= 80 { hex(bytes) } else { format!("{}...", hex(&bytes[..80])) }))
}

fn put64(b: &mut [u8], at: usize, v: u64) {
    for i in 0..8 {
        if at + i < b.len() {
            b[at + i] = (v >> (8 * i)) as u8;
        }
    }
}

/// All grid files of one total length.
pub fn run_grid(len: usize) -> Result<(u64, u64), String> {
    let mut n = 0;
    let mut opened = 0;
    let l = len as u64;
    let versions = [0u64, 1, 2, 3, 4, 1 << 32, u64::MAX];
    let roots = [
        0u64, 1, 15, 16,
        l.wrapping_sub(22), l.wrapping_sub(21), l.wrapping_sub(20), l.wrapping_sub(18), l.wrapping_sub(17), l.wrapping_sub(16),
        l.wrapping_sub(1), l, l + 1, 1 << 31, 1 << 63, u64::MAX - 20, u64::MAX - 16, u64::MAX,
    ];
    let counts = [0u64, 1, u64::MAX];
    for &version in &versions {
        for &root in &roots {
            for &count in &counts {
                for filler in [0x00u8, 0xff, 0x80, 0x40, 0xc1] {
                    for ck in 0..3 {
                        let mut b = vec![filler; len];
                        put64(&mut b, 0, version);
                        // footer positions for both layouts (with and without checksum)
                        let end = if version >= 3 { len.saturating_sub(4) } else { len };
                        if end >= 16 {
                            put64(&mut b, end - 8, root);
                            put64(&mut b, end - 16, count);
                        }
                        if len >= 4 {
                            let c = match ck {
                                0 => 0,
                                1 => masked_crc32c(&b[..len - 4]),
                                _ => !masked_crc32c(&b[..len - 4]),
                            };
                            if version >= 3 || ck == 0 {
                                if version >= 3 {
                                    b[len - 4..].copy_from_slice(&c.to_le_bytes());
                                }
                            } else {
                                continue;
                            }
                        }
                        n += 1;
                        if total(&b)? {
                            opened += 1;
                        }
                    }
                }
            }
        }
    }
    Ok((n, opened))
}

/// Every truncation and single-byte mutation of a valid FST.
pub fn run_mutations(bytes: &[u8]) -> Result<(u64, u64), String> {
    let mut n = 0;
    let mut opened = 0;
    for cut in 0..=bytes.len() {
        n += 2;
        opened += total(&bytes[..cut])? as u64;
        opened += total(&bytes[cut..])? as u64;
    }
    let mut m = bytes.to_vec();
    for pos in 0..bytes.len() {
        for d in 1..=255u8 {
            m[pos] = bytes[pos] ^ d;
            n += 1;
            opened += total(&m)? as u64;
        }
        m[pos] = bytes[pos];
    }
    Ok((n, opened))
}

pub fn replay(case: &Value) -> Result<String, String> {
    match case["kind"].as_str().unwrap() {
        "grid" => run_grid(case["len"].as_u64().unwrap() as usize).map(|(n, o)| format!("{} files, {} opened, no panic", n, o)),
        "bytes" => total(&unhex(case["hex"].as_str().unwrap())).map(|o| format!("opened={} no panic", o)),
        "unsafe" => forbid_unsafe(),
        _ => {
            let kvs = kvs_from(&case["kvs"]);
            let b = front::build(Front::RawInsert, (3, 3), &kvs)?;
            run_mutations(&b).map(|(n, o)| format!("{} mutants, {} opened, no panic", n, o))
        }
    }
}

/// `-F unsafe_code` over the library crate (forbid cannot be overridden by
/// inner allows). This is a compiler lint over all compilation units of the
/// library, not model checking; it is reported under that name.
pub fn forbid_unsafe() -> Result<String, String> {
    let out = std::process::Command::new("cargo")
        .current_dir("/repo")
        .env("CARGO_TARGET_DIR", format!("{}/harness/target/forbid-unsafe", crate::ev::verif_dir()))
        .env_remove("RUSTFLAGS")
        .args(["rustc", "--offline", "-p", "fst", "--lib", "--features", "levenshtein", "--", "-F", "unsafe_code"])
        .output()
        .map_err(|e| format!("machinery: cannot run cargo: {}", e))?;
    let err = String::from_utf8_lossy(&out.stderr).to_string();
    let uses_unsafe = err.contains("usage of an `unsafe`")
        || err.contains("declaration of an `unsafe`")
        || err.contains("implementation of an `unsafe`")
        || err.contains("usage of `unsafe`")
        || err.contains("unsafe attribute");
    if out.status.success() {
        Ok("library compiles under -F unsafe_code".into())
    } else if !uses_unsafe && err.contains("E0453") && !super::c15::shared_state_scan().iter().any(|h| h.ends_with("unsafe ")) {
        // only a lint-level conflict (an `allow(unsafe_code)` attribute somewhere)
        // and no `unsafe` token in the sources: there is no unsafe code
        Ok("no unsafe code (only an allow(unsafe_code) attribute conflicts with forbid)".into())
    } else if uses_unsafe || err.contains("unsafe_code") {
        let lines: Vec<&str> = err.lines().filter(|l| l.contains("unsafe") || l.trim_start().starts_with("-->")).take(6).collect();
        Err(format!("the library contains unsafe code: {}", lines.join(" | ")))
    } else {
        Err(format!("machinery: cargo rustc failed for another reason: {}", err.lines().rev().take(8).collect::<Vec<_>>().join(" | ")))
    }
}

pub fn plan(tier: Tier) -> Plan {
    let mut p = Plan::new("C20", "exploration");
    let thorough = tier.thorough();
    p.rule = "(a) boundary grid: total length 0..64 x version field {0,1,2,3,4,2^32,u64::MAX} x root address {0,1,15,16,len-22..len-16,len-1,len,len+1,2^31,2^63,u64::MAX-20,u64::MAX-16,u64::MAX} x key count {0,1,u64::MAX} x filler {00,ff,80,40,c1} x checksum {0, correct, inverted}; (b) every truncation (every prefix and every suffix) and every single-byte mutation (255 values) of every FST built from subsets of U_ab3 with <= 3 keys (thorough: <= 4) and of three fan-out FSTs; for each byte string, under catch_unwind with overflow checks on: Fst::new / Map::new / Set::new (slice and Vec) and, on whatever opens, len, is_empty, fst_type, size, as_bytes, to_vec, verify - any panic is a violation; (c) cargo rustc -p fst --lib --features levenshtein -- -F unsafe_code must compile (a lint, not model checking). non-trivial = byte strings that open".into();
    p.assumptions = vec![
        "operations after the gate (root, stream, get) on garbage may panic by the property's own wording and are not called".into(),
        "the 'no unsafe code' clause is decided by the compiler's forbid(unsafe_code) lint over the library crate with the levenshtein feature on".into(),
    ];
    for len in 0..=64usize {
        p.units.push(unit("header-footer-boundary-grid-len-0..64", format!("grid len {}", len), move |st, rep| {
            match run_grid(len) {
                Ok((n, o)) => {
                    st.evals += n;
                    st.states += n;
                    st.transitions += 7 * o + n;
                    st.nontrivial += o;
                    st.count("grid_files", n);
                    st.count("grid_files_opened", o);
                }
                Err(msg) => rep.violation(format!("grid len {}", len), msg, json!({"kind": "grid", "len": len})),
            }
        }));
    }
    {
        let u = u_ab3();
        let mut masks = vec![];
        for_each_mask_upto(u.keys.len(), if thorough { 4 } else { 3 }, &mut |m| masks.push(m));
        let chunk = (masks.len() + 127) / 128;
        for part in masks.chunks(chunk) {
            let part = part.to_vec();
            let u = u.clone();
            p.units.push(unit("U_ab3-small-sets-truncations-and-mutations", format!("mutations {} masks from {}", part.len(), part[0]), move |st, rep| {
                for &mask in &part {
                    if rep.stopped() { return; }
                    for pat in [Pat::Lin3, Pat::MaxMinus] {
                        let kvs = pat.apply(&select(&u.keys, mask));
                        let b = match front::build(Front::RawInsert, (3, 3), &kvs) { Ok(b) => b, Err(_) => continue };
                        match run_mutations(&b) {
                            Ok((n, o)) => {
                                st.evals += n;
                                st.states += n;
                                st.transitions += 7 * o + n;
                                st.nontrivial += o;
                                st.count("mutants", n);
                                st.count("mutants_opened", o);
                            }
                            Err(msg) => rep.violation(format!("mutation of {}", kvs_str(&kvs)), msg, json!({"kind": "mutations", "kvs": kvs_json(&kvs)})),
                        }
                        if mask == 0b111 {
                            st.sample(|| json!({"valid_fst_of": kvs_str(&kvs), "hex": hex(&b)}));
                        }
                    }
                }
            }));
        }
        for n in [2usize, 33, 256] {
            p.units.push(unit("fanout-truncations-and-mutations", format!("mutations fanout {}", n), move |st, rep| {
                let keys: Vec<Key> = (0..n).map(|i| vec![i as u8]).collect();
                let kvs = Pat::Lin3.apply(&keys);
                let b = front::build(Front::RawInsert, (3, 3), &kvs).unwrap();
                match run_mutations(&b) {
                    Ok((n, o)) => {
                        st.evals += n;
                        st.states += n;
                        st.nontrivial += o;
                        st.count("mutants", n);
                        st.count("mutants_opened", o);
                    }
                    Err(msg) => rep.violation(format!("mutation of fanout {}", n), msg, json!({"kind": "mutations", "kvs": kvs_json(&kvs)})),
                }
            }));
        }
    }
    p.units.push(unit("forbid-unsafe-code-lint", "unsafe lint".into(), move |st, rep| {
        st.evals += 1;
        st.states += 1;
        match forbid_unsafe() {
            Ok(_) => st.count("unsafe_lint_passed", 1),
            Err(msg) => {
                if msg.starts_with("machinery") {
                    eprintln!("{}", msg);
                    std::process::exit(2);
                }
                rep.violation("unsafe code in the library".into(), msg, json!({"kind": "unsafe"}));
            }
        }
    }));
    p.must_be_nonzero = vec!["grid_files_opened".into(), "mutants_opened".into(), "unsafe_lint_passed".into()];
    p
}
