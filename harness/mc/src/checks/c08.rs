//! C08 - checksums certify the bytes: built FSTs verify, corrupted ones never
//! do (SEQ engine for mutants and chunkings).

use fst::raw::{self, Fst};
use serde_json::{json, Value};

use super::util::*;
use crate::crc::masked_crc32c;
use crate::ev::{guard, hex, unhex, unit, Plan, Tier};
use crate::front::{self, Front};
use crate::model::*;

/// Outcome of "open, then verify" on possibly corrupt bytes.
#[derive(Debug, PartialEq, Eq)]
pub enum Gate {
    OpenFails,
    VerifyErr,
    VerifyOk,
    /// the three answers (first call, second call, clone) disagree
    VerifyMixed,
    Panic(String),
}

pub fn gate(bytes: &[u8]) -> Gate {
    match guard(|| match Fst::new(bytes) {
        Err(_) => Gate::OpenFails,
        // asked once, asked again, and asked of a clone: corruption must not be
        // certified by ANY of the answers
        Ok(f) => match (f.verify(), f.verify(), f.clone().verify()) {
            (Err(_), Err(_), Err(_)) => Gate::VerifyErr,
            (Ok(()), Ok(()), Ok(())) => Gate::VerifyOk,
            _ => Gate::VerifyMixed,
        },
    }) {
        Ok(g) => g,
        Err(p) => Gate::Panic(p),
    }
}

/// The same gate when a reader that was opened on the INTACT file is handed
/// the bytes through `map_data` (an index reload that swaps the buffer).
pub fn gate_map_data(intact: &[u8], bytes: &[u8]) -> Gate {
    match guard(|| match Fst::new(intact).map_err(|_| ()).and_then(|f| f.map_data(|_| bytes).map_err(|_| ())) {
        Err(_) => Gate::OpenFails,
        // asked once, asked again, and asked of a clone: corruption must not be
        // certified by ANY of the answers
        Ok(f) => match (f.verify(), f.verify(), f.clone().verify()) {
            (Err(_), Err(_), Err(_)) => Gate::VerifyErr,
            (Ok(()), Ok(()), Ok(())) => Gate::VerifyOk,
            _ => Gate::VerifyMixed,
        },
    }) {
        Ok(g) => g,
        Err(p) => Gate::Panic(p),
    }
}

fn trailer_ok(bytes: &[u8]) -> Result<(), String> {
    let n = bytes.len();
    if n < 36 {
        return Err(format!("builder output of {} bytes", n));
    }
    let got = u32::from_le_bytes([bytes[n - 4], bytes[n - 3], bytes[n - 2], bytes[n - 1]]);
    let want = masked_crc32c(&bytes[..n - 4]);
    if got != want {
        return Err(format!("trailing checksum {:#010x} but reference masked CRC-32C of the preceding {} bytes is {:#010x}", got, n - 4, want));
    }
    match gate(bytes) {
        Gate::VerifyOk => {}
        g => return Err(format!("builder output does not pass verify(): {:?}", g)),
    }
    // the same bytes as an interior slice at every offset 1..15 from a 16-byte boundary
    if n <= 70_000 {
        let mut big = vec![0u8; n + 32];
        let base = (16 - (big.as_ptr() as usize % 16)) % 16;
        for off in 1..16usize {
            let o = base + off;
            big[o..o + n].copy_from_slice(bytes);
            match gate(&big[o..o + n]) {
                Gate::VerifyOk => {}
                g => return Err(format!("builder output does not pass verify() when it starts {} bytes past a 16-byte boundary: {:?}", off, g)),
            }
        }
    }
    Ok(())
}

/// A built map whose TRAILING CHECKSUM has a chosen value (0, 1, 2^31,
/// u32::MAX ...): the value of one key has 32 free bits (its 8 bytes stay 8
/// bytes because bit 56 is set); the CRC is affine in those bits, so the bits
/// are found by Gaussian elimination over GF(2) with the independent CRC.
pub fn file_with_checksum(target: u32) -> Result<Vec<u8>, String> {
    let build = |x: u32| -> Result<Vec<u8>, String> {
        front::build(Front::RawInsert, (3, 3), &[(b"a".to_vec(), 7), (b"b".to_vec(), (1u64 << 56) | x as u64), (b"c".to_vec(), 9)])
    };
    let want_crc = target.wrapping_sub(0xA282_EAD8).rotate_left(15); // inverse of the mask
    let crc_of = |x: u32| -> Result<u32, String> {
        let b = build(x)?;
        Ok(crate::crc::crc32c(&b[..b.len() - 4]))
    };
    let c0 = crc_of(0)?;
    // columns d_i = crc(e_i) ^ crc(0); solve sum x_i d_i = want ^ c0
    let mut rows: Vec<(u32, u32)> = vec![]; // (vector, combination of unit bits)
    for i in 0..32 {
        rows.push((crc_of(1 << i)? ^ c0, 1 << i));
    }
    let mut rhs = want_crc ^ c0;
    let mut x = 0u32;
    let mut basis: Vec<(u32, u32)> = vec![];
    for (mut v, mut comb) in rows {
        for (bv, bc) in &basis {
            if v & (1 << bv.trailing_zeros()) != 0 {
                v ^= bv;
                comb ^= bc;
            }
        }
        if v != 0 {
            basis.push((v, comb));
        }
    }
    for (bv, bc) in &basis {
        if rhs & (1 << bv.trailing_zeros()) != 0 {
            rhs ^= bv;
            x ^= bc;
        }
    }
    if rhs != 0 {
        return Err(format!("machinery: no value gives the checksum {:#010x}", target));
    }
    let b = build(x)?;
    let n = b.len();
    if u32::from_le_bytes([b[n - 4], b[n - 3], b[n - 2], b[n - 1]]) != target && masked_crc32c(&b[..n - 4]) == target {
        return Err(format!("the file whose reference checksum is {:#010x} carries another trailer", target));
    }
    if masked_crc32c(&b[..n - 4]) != target {
        return Err("machinery: the solved file does not have the chosen reference checksum".into());
    }
    Ok(b)
}

/// Every single-byte mutant (255 values per position) and every burst.
pub fn run_mutants(bytes: &[u8], bursts: bool) -> Result<u64, String> {
    let mut n = 0u64;
    let mut m = bytes.to_vec();
    for pos in 0..bytes.len() {
        let orig = bytes[pos];
        for d in 1..=255u8 {
            m[pos] = orig ^ d;
            n += 1;
            if d.count_ones() == 1 || d == 0xff {
                if let Gate::VerifyOk | Gate::VerifyMixed = gate_map_data(bytes, &m) {
                    return Err(format!("byte {} changed {:#04x} -> {:#04x}: a reader opened on the intact file and handed the changed bytes through map_data says verify() Ok", pos, orig, orig ^ d));
                }
                n += 1;
            }
            match gate(&m) {
                Gate::VerifyOk | Gate::VerifyMixed => return Err(format!("byte {} changed {:#04x} -> {:#04x}: opens and verify() says Ok", pos, orig, orig ^ d)),
                Gate::Panic(p) => return Err(format!("byte {} changed {:#04x} -> {:#04x}: {}", pos, orig, orig ^ d, p)),
                _ => {}
            }
        }
        m[pos] = orig;
    }
    if bursts {
        const MASKS: [u8; 3] = [0x01, 0x80, 0xff];
        for len in 2..=4usize {
            for start in 0..bytes.len().saturating_sub(len - 1) {
                let combos = 3usize.pow(len as u32);
                for c in 0..combos {
                    let mut x = c;
                    for j in 0..len {
                        m[start + j] = bytes[start + j] ^ MASKS[x % 3];
                        x /= 3;
                    }
                    n += 1;
                    match gate(&m) {
                        Gate::VerifyOk | Gate::VerifyMixed => return Err(format!("burst at {} len {} combo {}: opens and verify() says Ok", start, len, c)),
                        Gate::Panic(p) => return Err(format!("burst at {} len {}: {}", start, len, p)),
                        _ => {}
                    }
                }
                for j in 0..len {
                    m[start + j] = bytes[start + j];
                }
            }
        }
    }
    Ok(n)
}

fn pattern(kind: usize, len: usize) -> Vec<u8> {
    (0..len)
        .map(|i| match kind {
            0 => 0u8,
            1 => 0xff,
            _ => (i as u32).wrapping_mul(2654435761).rotate_left(7) as u8,
        })
        .collect()
}

/// Every 2-cut and 3-cut of a buffer through the crate's checksummer (H3).
pub fn run_chunkings(data: &[u8], all_cuts: bool) -> Result<u64, String> {
    let want = masked_crc32c(data);
    let mut n = 0;
    let one = raw::verif_crc32c_masked(&[data]);
    n += 1;
    if one != want {
        return Err(format!("one-shot checksum of {} bytes = {:#010x}, reference {:#010x}", data.len(), one, want));
    }
    let len = data.len();
    let cuts: Vec<usize> = if all_cuts {
        (0..=len).collect()
    } else {
        let mut v: Vec<usize> = vec![0, 1, 15, 16, 17, 31, 32, 33];
        v.extend([15usize, 16, 17, 31, 32, 33, 1, 0].iter().filter(|&&c| c <= len).map(|c| len - c));
        v.retain(|&c| c <= len);
        v.sort();
        v.dedup();
        v
    };
    for &a in &cuts {
        let got = raw::verif_crc32c_masked(&[&data[..a], &data[a..]]);
        n += 1;
        if got != want {
            return Err(format!("chunks [0..{}),[{}..{}) give {:#010x}, reference {:#010x}", a, a, len, got, want));
        }
        for &b in &cuts {
            if b < a {
                continue;
            }
            let got = raw::verif_crc32c_masked(&[&data[..a], &data[a..b], &data[b..]]);
            n += 1;
            if got != want {
                return Err(format!("chunks cut at {} and {} of {} bytes give {:#010x}, reference {:#010x}", a, b, len, got, want));
            }
        }
    }
    Ok(n)
}

pub fn replay(case: &Value) -> Result<String, String> {
    if let Some(r) = super::seqread::replay(case) {
        return r;
    }
    match case["kind"].as_str().unwrap() {
        "mutants" => {
            let kvs = kvs_from(&case["kvs"]);
            let bytes = front::build(Front::RawInsert, (3, 3), &kvs)?;
            trailer_ok(&bytes)?;
            run_mutants(&bytes, true).map(|n| format!("{} mutants rejected", n))
        }
        "trailer" => {
            let kvs = kvs_from(&case["kvs"]);
            let bytes = front::build(front_from(case["front"].as_str().unwrap()), geom_from(&case["geom"]), &kvs)?;
            trailer_ok(&bytes).map(|_| "trailer is the reference checksum".into())
        }
        "checksum-value" => {
            let b = file_with_checksum(case["target"].as_u64().unwrap() as u32)?;
            trailer_ok(&b)?;
            run_mutants(&b, false).map(|n| format!("verifies; {} mutants rejected", n))
        }
        "sinkpolicy-large" => {
            use crate::sink::{Policy, ScriptSink};
            let kvs = super::c07::large_inputs().into_iter().find(|x| Some(x.0) == case["name"].as_str()).map(|x| x.1).ok_or("unknown input")?;
            for pol in [Policy::Cap(1), Policy::Cap(3), Policy::InterruptEach, Policy::Paged(512), Policy::Paged(4096), Policy::Paged(8192), Policy::Paged(65536)] {
                let mut b = fst::raw::Builder::new(ScriptSink::new(vec![], pol)).map_err(|e| format!("{:?}", e))?;
                for (k, v) in &kvs {
                    b.insert(k, *v).map_err(|e| format!("{:?}", e))?;
                }
                let sink = b.into_inner().map_err(|e| format!("{:?}", e))?;
                trailer_ok(&sink.data).map_err(|e| format!("{:?}: {}", pol, e))?;
            }
            Ok("all policy sinks give the reference checksum".into())
        }
        "interleaved" => {
            let (a, b) = (kvs_from(&case["a"]), kvs_from(&case["b"]));
            let e = |x: fst::Error| format!("{:?}", x);
            let mut ba = fst::raw::Builder::memory();
            let mut bb = fst::raw::Builder::memory();
            for j in 0..a.len().max(b.len()) {
                if let Some((k, v)) = a.get(j) { ba.insert(k, *v).map_err(e)?; }
                if let Some((k, v)) = b.get(j) { bb.insert(k, *v).map_err(e)?; }
            }
            trailer_ok(&ba.into_inner().map_err(e)?)?;
            trailer_ok(&bb.into_inner().map_err(e)?)?;
            Ok("both trailers are the reference checksum".into())
        }
        "sinkpolicy" => {
            use crate::sink::{Policy, ScriptSink};
            let kvs = kvs_from(&case["kvs"]);
            let mut n = 0;
            for c in 1..=16 {
                let mut b = fst::raw::Builder::new(ScriptSink::new(vec![], Policy::Cap(c))).map_err(|e| format!("{:?}", e))?;
                for (k, v) in &kvs {
                    b.insert(k, *v).map_err(|e| format!("{:?}", e))?;
                }
                let sink = b.into_inner().map_err(|e| format!("{:?}", e))?;
                trailer_ok(&sink.data).map_err(|e| format!("cap {}: {}", c, e))?;
                n += 1;
            }
            Ok(format!("{} capped sinks give the reference checksum", n))
        }
        "ladder" => {
            let l = case["len"].as_u64().unwrap() as usize;
            let bytes = front::build(Front::RawInsert, (1, 1), &[(vec![b'a'; l], 1)])?;
            trailer_ok(&bytes).map(|_| "trailer is the reference checksum".into())
        }
        _ => {
            let data = unhex(case["data"].as_str().unwrap());
            run_chunkings(&data, data.len() <= 64).map(|n| format!("{} chunkings agree", n))
        }
    }
}

pub fn plan(tier: Tier) -> Plan {
    let mut p = Plan::new("C08", "model_checking");
    let thorough = tier.thorough();
    p.rule = "[also: two builders alive on one thread and fed alternately, with a third built completely in between - every trailer is the reference checksum of its own file] (a) every single-byte mutant (every position x all 255 other values) and every 2-4 byte burst (xor masks {01,80,ff} per byte) of every FST built from subsets of U_ab3 with <= 3 keys (thorough: <= 5) plus fan-out FSTs: 'opens and verify()==Ok' (asked once, asked a second time, or asked of a clone of the reader) is the violation, also when a reader opened on the intact file is handed the mutant through map_data (9 of the 255 values per position); (b) the trailing 4 bytes of every builder output (all subsets of U_ab3/U_abc2/U_raw2 x patterns, fan-out families, single-key ladders giving every file length 37..4150 and 150 lengths around each of 2^13..2^17; built maps whose checksum VALUE is 0, 1, 2^31-1, 2^31, u32::MAX-1, u32::MAX, the mask constant, 0x0000ffff, 0xffff0000 - found by solving for 32 free value bits over GF(2)) equal an independent bitwise masked CRC-32C, and verify() passes at every start offset 1..15 from a 16-byte boundary; (c) through hook H3 every 2-cut and 3-cut of buffers of length 0..64 (3 contents) and cuts at 0,1,15,16,17,31,32,33 from either end for lengths up to 4096; non-trivial = mutants + chunkings with >= 2 non-empty chunks".into();
    p.assumptions = vec![
        "independent reference: bit-by-bit reflected CRC-32C (0x82F63B78), validated on the RFC 3720 vector, rotate-right-15 + 0xA282EAD8 mask".into(),
        "chunking by a sink: policy sinks (cap 1..16, Interrupted before every call) here; the full answer-schedule space is C07's".into(),
    ];
    // (a) mutants
    {
        let u = u_ab3();
        let mut masks = vec![];
        for_each_mask_upto(u.keys.len(), if thorough { 5 } else { 3 }, &mut |m| masks.push(m));
        let chunk = (masks.len() + 127) / 128;
        for part in masks.chunks(chunk) {
            let part = part.to_vec();
            let u = u.clone();
            p.units.push(unit("U_ab3-small-sets-all-mutants", format!("mutants {} masks from {}", part.len(), part[0]), move |st, rep| {
                for &mask in &part {
                    if rep.stopped() { return; }
                    let kvs = Pat::Lin3.apply(&select(&u.keys, mask));
                    let bytes = match front::build(Front::RawInsert, (3, 3), &kvs) { Ok(b) => b, Err(e) => { rep.violation(format!("build {}", kvs_str(&kvs)), e, json!({"kind": "mutants", "kvs": kvs_json(&kvs)})); continue; } };
                    st.states += 1;
                    match run_mutants(&bytes, true) {
                        Ok(n) => { st.evals += n; st.transitions += 2 * n; st.nontrivial += n; st.count("mutants", n); }
                        Err(msg) => rep.violation(format!("mutant of {}", kvs_str(&kvs)), msg, json!({"kind": "mutants", "kvs": kvs_json(&kvs)})),
                    }
                    st.sample(|| json!({"fst_of": kvs_str(&kvs), "bytes": hex(&bytes)}));
                }
            }));
        }
        for n in [2usize, 33, 40] {
            p.units.push(unit("fanout-all-mutants", format!("mutants of fanout {}", n), move |st, rep| {
                let keys: Vec<Key> = (0..n).map(|i| vec![b'0' + i as u8]).collect();
                let kvs = Pat::Lin3.apply(&keys);
                let bytes = front::build(Front::RawInsert, (3, 3), &kvs).unwrap();
                match run_mutants(&bytes, thorough) {
                    Ok(n) => { st.evals += n; st.transitions += 2 * n; st.nontrivial += n; st.count("mutants", n); }
                    Err(msg) => rep.violation(format!("mutant of fanout {}", n), msg, json!({"kind": "mutants", "kvs": kvs_json(&kvs)})),
                }
            }));
        }
    }
    // (b) trailers
    for u in [u_ab3(), u_abc2(), u_raw2()] {
        for (a, b) in ranges(1 << u.keys.len(), 32) {
            let u = u.clone();
            p.units.push(unit(&format!("{}-subsets-trailer", u.name), format!("trailer {} {}..{}", u.name, a, b), move |st, rep| {
                for mask in a..b {
                    let keys = select(&u.keys, mask);
                    for pat in patterns_for(keys.len(), thorough) {
                        let kvs = pat.apply(&keys);
                        for (fr, g) in [(Front::RawInsert, (3, 3)), (Front::RawInsert, (1, 1))] {
                            st.evals += 1;
                            st.states += 1;
                            st.transitions += kvs.len() as u64 + 1;
                            match front::build(fr, g, &kvs).and_then(|b| trailer_ok(&b)) {
                                Ok(()) => {}
                                Err(msg) => rep.violation(format!("trailer {} {:?}", kvs_str(&kvs), g), msg, json!({"kind": "trailer", "kvs": kvs_json(&kvs), "front": format!("{:?}", fr), "geom": [g.0, g.1]})),
                            }
                        }
                    }
                }
            }));
        }
    }
    for n in FANOUTS_QUICK {
        p.units.push(unit("fanout-families-trailer", format!("trailer fanout {}", n), move |st, rep| {
            for (_, keys) in fanout_family(n) {
                let kvs = Pat::Boundary(1).apply(&keys);
                for fr in [Front::RawInsert, Front::MapInsert] {
                    st.evals += 1;
                    st.states += 1;
                    if let Err(msg) = front::build(fr, front::DEFAULT_GEOM, &kvs).and_then(|b| trailer_ok(&b)) {
                        rep.violation(format!("trailer fanout {} {:?}", n, fr), msg, json!({"kind": "trailer", "kvs": kvs_json(&kvs), "front": format!("{:?}", fr), "geom": [10000, 2]}));
                    }
                }
            }
        }));
    }
    for (a, b) in ranges(4100, 32) {
        p.units.push(unit("single-key-length-ladder-0..4100", format!("ladder {}..{}", a, b), move |st, rep| {
            for l in a..b {
                st.evals += 1;
                st.states += 1;
                st.count("ladder_files", 1);
                let r = front::build(Front::RawInsert, (1, 1), &[(vec![b'a'; l as usize], 1)]).and_then(|b| trailer_ok(&b));
                if let Err(msg) = r {
                    rep.violation(format!("ladder {}", l), msg, json!({"kind": "ladder", "len": l}));
                }
            }
        }));
    }
    // (d0) two or three builders alive on one thread and fed alternately (every builder
    // checksums its OWN bytes), also nested: a second builder built completely
    // between two inserts of the first
    p.units.push(unit("builders-alive-together-on-one-thread", "interleaved builders".into(), move |st, rep| {
        let inputs = super::c07::inputs();
        for (i, (na, a)) in inputs.iter().enumerate() {
            for (nb, b) in inputs.iter().skip(i) {
                st.evals += 1;
                st.states += 1;
                st.nontrivial += 1;
                st.count("interleaved_builder_pairs", 1);
                let r = guard(|| -> Result<(), String> {
                    let e = |x: fst::Error| format!("{:?}", x);
                    let mut ba = fst::raw::Builder::memory();
                    let mut bb = fst::raw::Builder::memory();
                    let n = a.len().max(b.len());
                    for j in 0..n {
                        if let Some((k, v)) = a.get(j) { ba.insert(k, *v).map_err(e)?; }
                        if let Some((k, v)) = b.get(j) { bb.insert(k, *v).map_err(e)?; }
                        if j == n / 2 {
                            // nested: a third builder from start to finish
                            let mut bc = fst::raw::Builder::memory();
                            for (k, v) in b.iter().take(5) { bc.insert(k, *v).map_err(e)?; }
                            trailer_ok(&bc.into_inner().map_err(e)?).map_err(|m| format!("builder built completely in the middle of two others: {}", m))?;
                        }
                    }
                    let (xa, xb) = (ba.into_inner().map_err(e)?, bb.into_inner().map_err(e)?);
                    trailer_ok(&xa).map_err(|m| format!("first of two builders fed alternately: {}", m))?;
                    trailer_ok(&xb).map_err(|m| format!("second of two builders fed alternately: {}", m))
                })
                .and_then(|x| x);
                if let Err(msg) = r {
                    rep.violation(format!("interleaved builders {} / {}", na, nb), msg, json!({"kind": "interleaved", "a": kvs_json(a), "b": kvs_json(b)}));
                }
            }
        }
    }));
    // (d) chunking by the sink: every cap 1..16 and Interrupted-before-every-call
    // sink (the full schedule space is C07's); the bytes the sink ends up with
    // must carry the reference checksum and verify
    p.units.push(unit("sink-chunking-policies", "sink policies".into(), move |st, rep| {
        use crate::sink::{Policy, ScriptSink};
        for (name, kvs) in super::c07::inputs() {
            let mut pols: Vec<Policy> = (1..=16).map(Policy::Cap).collect();
            pols.push(Policy::InterruptEach);
            pols.push(Policy::CapInterrupt(1));
            for pol in pols {
                st.evals += 1;
                st.states += 1;
                st.nontrivial += 1;
                st.count("sink_policy_runs", 1);
                let r = guard(|| {
                    let mut b = fst::raw::Builder::new(ScriptSink::new(vec![], pol)).map_err(|e| format!("{:?}", e))?;
                    for (k, v) in &kvs {
                        b.insert(k, *v).map_err(|e| format!("{:?}", e))?;
                    }
                    let sink = b.into_inner().map_err(|e| format!("{:?}", e))?;
                    trailer_ok(&sink.data)
                })
                .and_then(|x| x);
                if let Err(msg) = r {
                    rep.violation(format!("sink policy {} {:?}", name, pol), format!("bytes written through a {:?} sink: {}", pol, msg), json!({"kind": "sinkpolicy", "kvs": kvs_json(&kvs)}));
                }
            }
        }
    }));
    // (d2) larger outputs through policy sinks
    for (name, kvs) in super::c07::large_inputs() {
        p.units.push(unit("large-inputs-sink-policies", format!("sink policies {}", name), move |st, rep| {
            use crate::sink::{Policy, ScriptSink};
            for pol in [Policy::Cap(1), Policy::Cap(3), Policy::InterruptEach, Policy::Paged(512), Policy::Paged(4096), Policy::Paged(8192), Policy::Paged(65536)] {
                st.evals += 1;
                st.states += 1;
                st.count("sink_policy_runs", 1);
                let r = guard(|| {
                    let mut b = fst::raw::Builder::new(ScriptSink::new(vec![], pol)).map_err(|e| format!("{:?}", e))?;
                    for (k, v) in &kvs {
                        b.insert(k, *v).map_err(|e| format!("{:?}", e))?;
                    }
                    let sink = b.into_inner().map_err(|e| format!("{:?}", e))?;
                    trailer_ok(&sink.data)
                })
                .and_then(|x| x);
                if let Err(msg) = r {
                    rep.violation(format!("sink policy {} {:?}", name, pol), format!("bytes written through a {:?} sink: {}", pol, msg), json!({"kind": "sinkpolicy-large", "name": name}));
                }
            }
        }));
    }
    // (b3) files whose checksum has a boundary VALUE
    p.units.push(unit("files-with-chosen-checksum-values", "checksum values".into(), move |st, rep| {
        for target in [0u32, 1, 0x7fff_ffff, 0x8000_0000, 0xffff_fffe, 0xffff_ffff, 0xA282_EAD8, 0x0000_ffff, 0xffff_0000] {
            st.evals += 1;
            st.states += 1;
            st.count("chosen_checksum_files", 1);
            let r = file_with_checksum(target).and_then(|b| {
                trailer_ok(&b)?;
                run_mutants(&b, false).map(|_| ())
            });
            if let Err(msg) = r {
                if msg.starts_with("machinery") {
                    eprintln!("{}", msg);
                    std::process::exit(2);
                }
                rep.violation(format!("checksum value {:#010x}", target), msg, json!({"kind": "checksum-value", "target": target}));
            }
        }
    }));
    // (b2) file lengths around powers of two from 8 KiB to 128 KiB (block-wise checksum code)
    for k in 13..=17u32 {
        p.units.push(unit("single-key-length-ladder-around-powers-of-two", format!("ladder around 2^{}", k), move |st, rep| {
            let centre = 1usize << k;
            for l in (centre - 110)..(centre + 40) {
                st.evals += 1;
                st.states += 1;
                st.count("ladder_files", 1);
                let r = front::build(Front::RawInsert, (1, 1), &[(vec![b'a'; l], 1)]).and_then(|b| trailer_ok(&b));
                if let Err(msg) = r {
                    rep.violation(format!("ladder {}", l), msg, json!({"kind": "ladder", "len": l}));
                }
            }
        }));
    }
    // (c) chunkings
    for kind in 0..3usize {
        p.units.push(unit("chunkings-len-0..64-all-cuts", format!("chunkings small kind {}", kind), move |st, rep| {
            for len in 0..=64usize {
                let data = pattern(kind, len);
                match run_chunkings(&data, true) {
                    Ok(n) => { st.evals += n; st.states += n; st.transitions += 3 * n; st.nontrivial += n; st.count("chunkings", n); }
                    Err(msg) => rep.violation(format!("chunking kind {} len {}", kind, len), msg, json!({"kind": "chunking", "data": hex(&data)})),
                }
            }
        }));
        for (a, b) in ranges(4097, 16) {
            p.units.push(unit("chunkings-len-65..4096-boundary-cuts", format!("chunkings kind {} {}..{}", kind, a, b), move |st, rep| {
                for len in a.max(65)..b {
                    if !thorough && len % 7 != 0 && !(len % 16 <= 1 || len % 16 == 15) && len > 300 {
                        continue;
                    }
                    let data = pattern(kind, len as usize);
                    match run_chunkings(&data, false) {
                        Ok(n) => { st.evals += n; st.states += n; st.transitions += 3 * n; st.nontrivial += n; st.count("chunkings", n); }
                        Err(msg) => rep.violation(format!("chunking kind {} len {}", kind, len), msg, json!({"kind": "chunking", "data": hex(&data)})),
                    }
                }
            }));
        }
    }
    p.must_be_nonzero = vec!["sink_policy_runs".into(), "mutants".into(), "chunkings".into(), "ladder_files".into()];
    p.rule.push_str(super::seqread::RULE);
    p.rule.push_str(super::seqread::RULE_CONCURRENT);
    super::seqread::add_concurrent_unit(&mut p, super::seqread::Class::Verify);
    super::seqread::add_units(&mut p, super::seqread::Class::Verify, if tier.thorough() { 5 } else { 4 });
    p
}
