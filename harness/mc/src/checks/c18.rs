//! C18 - built-in automata and combinators match their specs with sound
//! pruning hints (SEQ engine over expressions x strings).

use std::any::Any;
use std::rc::Rc;
use std::sync::Arc;

use fst::automaton::{AlwaysMatch, Str, Subsequence};
use fst::Automaton;
use serde_json::{json, Value};

use crate::dfa::{all_dfas, ClassFn, TableDfa};
use crate::ev::{guard, unit, Plan, Tier};

// ---- type erasure so that expression trees over the REAL combinator types
// ---- can be generated at run time

trait DynA {
    fn start(&self) -> Box<dyn Any>;
    fn is_match(&self, s: &dyn Any) -> bool;
    fn can_match(&self, s: &dyn Any) -> bool;
    fn will_always_match(&self, s: &dyn Any) -> bool;
    fn accept(&self, s: &dyn Any, b: u8) -> Box<dyn Any>;
}

struct Erased<A>(A);

impl<A: Automaton> DynA for Erased<A>
where
    A::State: 'static,
{
    fn start(&self) -> Box<dyn Any> {
        Box::new(self.0.start())
    }
    fn is_match(&self, s: &dyn Any) -> bool {
        self.0.is_match(s.downcast_ref::<A::State>().expect("state type"))
    }
    fn can_match(&self, s: &dyn Any) -> bool {
        self.0.can_match(s.downcast_ref::<A::State>().expect("state type"))
    }
    fn will_always_match(&self, s: &dyn Any) -> bool {
        self.0.will_always_match(s.downcast_ref::<A::State>().expect("state type"))
    }
    fn accept(&self, s: &dyn Any, b: u8) -> Box<dyn Any> {
        Box::new(self.0.accept(s.downcast_ref::<A::State>().expect("state type"), b))
    }
}

#[derive(Clone)]
pub struct BoxAut(Rc<dyn DynA>);

impl BoxAut {
    fn new<A: Automaton + 'static>(a: A) -> BoxAut
    where
        A::State: 'static,
    {
        BoxAut(Rc::new(Erased(a)))
    }
}

impl Automaton for BoxAut {
    type State = Box<dyn Any>;
    fn start(&self) -> Box<dyn Any> {
        self.0.start()
    }
    fn is_match(&self, s: &Box<dyn Any>) -> bool {
        self.0.is_match(&**s)
    }
    fn can_match(&self, s: &Box<dyn Any>) -> bool {
        self.0.can_match(&**s)
    }
    fn will_always_match(&self, s: &Box<dyn Any>) -> bool {
        self.0.will_always_match(&**s)
    }
    fn accept(&self, s: &Box<dyn Any>, b: u8) -> Box<dyn Any> {
        self.0.accept(&**s, b)
    }
}

// ---- expressions

#[derive(Clone, Debug)]
pub enum LeafDef {
    Always,
    Str(&'static str),
    Subseq(&'static str),
    Table(TableDfa),
}

#[derive(Clone, Debug)]
pub enum Ex {
    Leaf(usize),
    Sw(Box<Ex>),
    Co(Box<Ex>),
    Un(Box<Ex>, Box<Ex>),
    In(Box<Ex>, Box<Ex>),
}

impl Ex {
    pub fn show(&self, leaves: &[LeafDef]) -> String {
        match self {
            Ex::Leaf(i) => match &leaves[*i] {
                LeafDef::Always => "AlwaysMatch".into(),
                LeafDef::Str(s) => format!("Str({:?})", s),
                LeafDef::Subseq(s) => format!("Subsequence({:?})", s),
                LeafDef::Table(t) => format!("Dfa[d={:?} acc={:?} can={:?} always={:?}]", t.delta, t.accept, t.can, t.always),
            },
            Ex::Sw(e) => format!("StartsWith({})", e.show(leaves)),
            Ex::Co(e) => format!("Complement({})", e.show(leaves)),
            Ex::Un(a, b) => format!("Union({}, {})", a.show(leaves), b.show(leaves)),
            Ex::In(a, b) => format!("Intersection({}, {})", a.show(leaves), b.show(leaves)),
        }
    }

    fn to_json(&self) -> Value {
        match self {
            Ex::Leaf(i) => json!({"leaf": i}),
            Ex::Sw(e) => json!({"sw": e.to_json()}),
            Ex::Co(e) => json!({"co": e.to_json()}),
            Ex::Un(a, b) => json!({"un": [a.to_json(), b.to_json()]}),
            Ex::In(a, b) => json!({"in": [a.to_json(), b.to_json()]}),
        }
    }

    fn from_json(v: &Value) -> Ex {
        if let Some(i) = v.get("leaf") {
            Ex::Leaf(i.as_u64().unwrap() as usize)
        } else if let Some(e) = v.get("sw") {
            Ex::Sw(Box::new(Ex::from_json(e)))
        } else if let Some(e) = v.get("co") {
            Ex::Co(Box::new(Ex::from_json(e)))
        } else if let Some(e) = v.get("un") {
            Ex::Un(Box::new(Ex::from_json(&e[0])), Box::new(Ex::from_json(&e[1])))
        } else {
            let e = &v["in"];
            Ex::In(Box::new(Ex::from_json(&e[0])), Box::new(Ex::from_json(&e[1])))
        }
    }
}

/// The expression built from the real combinator types.
pub fn real(e: &Ex, leaves: &[LeafDef]) -> BoxAut {
    match e {
        Ex::Leaf(i) => match &leaves[*i] {
            LeafDef::Always => BoxAut::new(AlwaysMatch),
            LeafDef::Str(s) => BoxAut::new(Str::new(s)),
            LeafDef::Subseq(s) => BoxAut::new(Subsequence::new(s)),
            LeafDef::Table(t) => BoxAut::new(t.clone()),
        },
        Ex::Sw(e) => BoxAut::new(real(e, leaves).starts_with()),
        Ex::Co(e) => BoxAut::new(real(e, leaves).complement()),
        Ex::Un(a, b) => BoxAut::new(real(a, leaves).union(real(b, leaves))),
        Ex::In(a, b) => BoxAut::new(real(a, leaves).intersection(real(b, leaves))),
    }
}

/// The same expression with every operand passed BY REFERENCE (through the
/// `impl Automaton for &T` forwarding impl). Operands live in boxes owned by
/// the returned value and are freed, parents first, when it is dropped.
pub struct RefAut {
    aut: Option<BoxAut>,
    owned: Vec<*mut BoxAut>,
}

impl RefAut {
    pub fn aut(&self) -> &BoxAut {
        self.aut.as_ref().unwrap()
    }
}

impl Drop for RefAut {
    fn drop(&mut self) {
        self.aut.take();
        for p in self.owned.drain(..).rev() {
            unsafe { drop(Box::from_raw(p)) }
        }
    }
}

pub fn real_ref(e: &Ex, leaves: &[LeafDef]) -> RefAut {
    fn go(e: &Ex, leaves: &[LeafDef], owned: &mut Vec<*mut BoxAut>) -> BoxAut {
        let keep = |a: BoxAut, owned: &mut Vec<*mut BoxAut>| -> &'static BoxAut {
            let p = Box::into_raw(Box::new(a));
            owned.push(p);
            unsafe { &*p }
        };
        match e {
            Ex::Leaf(_) => real(e, leaves),
            Ex::Sw(e) => {
                let a = go(e, leaves, owned);
                BoxAut::new(Automaton::starts_with(keep(a, owned)))
            }
            Ex::Co(e) => {
                let a = go(e, leaves, owned);
                BoxAut::new(Automaton::complement(keep(a, owned)))
            }
            Ex::Un(a, b) => {
                let (a, b) = (go(a, leaves, owned), go(b, leaves, owned));
                BoxAut::new(Automaton::union(keep(a, owned), keep(b, owned)))
            }
            Ex::In(a, b) => {
                let (a, b) = (go(a, leaves, owned), go(b, leaves, owned));
                BoxAut::new(Automaton::intersection(keep(a, owned), keep(b, owned)))
            }
        }
    }
    let mut owned = vec![];
    let aut = go(e, leaves, &mut owned);
    RefAut { aut: Some(aut), owned }
}

// ---- specification: explicit DFA over the symbol classes {a, b, other}

#[derive(Clone, Debug)]
pub struct Spec {
    pub delta: Vec<[usize; 3]>,
    pub accept: Vec<bool>,
    pub start: usize,
}

const SYM_BYTES: [u8; 3] = [b'a', b'b', b'c'];

fn spec_leaf(l: &LeafDef) -> Spec {
    match l {
        LeafDef::Always => Spec { delta: vec![[0, 0, 0]], accept: vec![true], start: 0 },
        LeafDef::Str(s) => {
            let s = s.as_bytes();
            let n = s.len();
            let dead = n + 1;
            let mut delta = vec![[dead; 3]; n + 2];
            for i in 0..n {
                for (sym, &b) in SYM_BYTES.iter().enumerate() {
                    if s[i] == b {
                        delta[i][sym] = i + 1;
                    }
                }
            }
            let mut accept = vec![false; n + 2];
            accept[n] = true;
            Spec { delta, accept, start: 0 }
        }
        LeafDef::Subseq(p) => {
            let p = p.as_bytes();
            let n = p.len();
            let mut delta = vec![[0usize; 3]; n + 1];
            for i in 0..=n {
                for (sym, &b) in SYM_BYTES.iter().enumerate() {
                    delta[i][sym] = if i < n && p[i] == b { i + 1 } else { i };
                }
            }
            let mut accept = vec![false; n + 1];
            accept[n] = true;
            Spec { delta, accept, start: 0 }
        }
        LeafDef::Table(t) => Spec {
            delta: t.delta.iter().map(|r| [r[0], r[1], r[1]]).collect(),
            accept: t.accept.clone(),
            start: 0,
        },
    }
}

pub fn spec(e: &Ex, leaves: &[LeafDef]) -> Spec {
    match e {
        Ex::Leaf(i) => spec_leaf(&leaves[*i]),
        Ex::Co(e) => {
            let mut s = spec(e, leaves);
            for a in s.accept.iter_mut() {
                *a = !*a;
            }
            s
        }
        Ex::Sw(e) => {
            let s = spec(e, leaves);
            let done = s.delta.len();
            let mut delta = s.delta.clone();
            for row in delta.iter_mut() {
                for t in row.iter_mut() {
                    if s.accept[*t] {
                        *t = done;
                    }
                }
            }
            delta.push([done; 3]);
            let mut accept = vec![false; done + 1];
            accept[done] = true;
            let start = if s.accept[s.start] { done } else { s.start };
            Spec { delta, accept, start }
        }
        Ex::Un(a, b) | Ex::In(a, b) => {
            let x = spec(a, leaves);
            let y = spec(b, leaves);
            let ny = y.delta.len();
            let is_un = matches!(e, Ex::Un(..));
            let mut delta = vec![[0usize; 3]; x.delta.len() * ny];
            let mut accept = vec![false; x.delta.len() * ny];
            for i in 0..x.delta.len() {
                for j in 0..ny {
                    for s in 0..3 {
                        delta[i * ny + j][s] = x.delta[i][s] * ny + y.delta[j][s];
                    }
                    accept[i * ny + j] = if is_un { x.accept[i] || y.accept[j] } else { x.accept[i] && y.accept[j] };
                }
            }
            Spec { delta, accept, start: x.start * ny + y.start }
        }
    }
}

impl Spec {
    /// Does the specification accept `key`? (bytes other than a, b are class 2)
    pub fn accepts(&self, key: &[u8]) -> bool {
        let mut q = self.start;
        for &b in key {
            let sym = match b {
                b'a' => 0,
                b'b' => 1,
                _ => 2,
            };
            q = self.delta[q][sym];
        }
        self.accept[q]
    }
}

/// All expressions of depth <= 2 over the given leaf indices.
pub fn exprs_depth2(leaf_idx: &[usize]) -> Vec<Ex> {
    let lf = |i: usize| Box::new(Ex::Leaf(i));
    let un: [fn(Box<Ex>) -> Ex; 2] = [Ex::Sw, Ex::Co];
    let bi: [fn(Box<Ex>, Box<Ex>) -> Ex; 2] = [Ex::Un, Ex::In];
    let mut v = vec![];
    for &i in leaf_idx {
        v.push(Ex::Leaf(i));
        for u in un {
            v.push(u(lf(i)));
            for u2 in un {
                v.push(u(Box::new(u2(lf(i)))));
            }
        }
        for &j in leaf_idx {
            for b in bi {
                v.push(b(lf(i), lf(j)));
                for u in un {
                    v.push(u(Box::new(b(lf(i), lf(j)))));
                    v.push(b(Box::new(u(lf(i))), lf(j)));
                    v.push(b(lf(i), Box::new(u(lf(j)))));
                }
            }
        }
    }
    v
}

/// Restricts to reachable states and returns exact reach-accept / all-accept.
fn analyse(s: &Spec) -> (Spec, Vec<bool>, Vec<bool>) {
    let mut map = vec![usize::MAX; s.delta.len()];
    let mut order = vec![s.start];
    map[s.start] = 0;
    let mut i = 0;
    while i < order.len() {
        let q = order[i];
        for sym in 0..3 {
            let t = s.delta[q][sym];
            if map[t] == usize::MAX {
                map[t] = order.len();
                order.push(t);
            }
        }
        i += 1;
    }
    let delta: Vec<[usize; 3]> = order.iter().map(|&q| [map[s.delta[q][0]], map[s.delta[q][1]], map[s.delta[q][2]]]).collect();
    let accept: Vec<bool> = order.iter().map(|&q| s.accept[q]).collect();
    let n = delta.len();
    let fix = |seed: &[bool]| {
        let mut r = seed.to_vec();
        loop {
            let mut ch = false;
            for q in 0..n {
                if !r[q] && (0..3).any(|sym| r[delta[q][sym]]) {
                    r[q] = true;
                    ch = true;
                }
            }
            if !ch {
                return r;
            }
        }
    };
    let reach = fix(&accept);
    let neg: Vec<bool> = accept.iter().map(|a| !a).collect();
    let all: Vec<bool> = fix(&neg).into_iter().map(|x| !x).collect();
    (Spec { delta, accept, start: 0 }, reach, all)
}

pub struct Outcome {
    pub strings: u64,
    pub spec_states: usize,
    pub complete: bool,
}

/// Walks every string up to the bound as a trie, one `accept` per string.
thread_local! {
    static DISTURB: std::cell::Cell<bool> = std::cell::Cell::new(false);
}

pub fn run_expr(e: &Ex, leaves: &[LeafDef], cap: usize, extra_bytes: bool) -> Result<Outcome, String> {
    DISTURB.with(|d| d.set(false));
    guard(|| {
        let aut = real(e, leaves);
        let (sp, reach, all) = analyse(&spec(e, leaves));
        let n = sp.delta.len();
        let bound = (n + 1).min(cap);
        let mut count = 0u64;
        fn walk(
            aut: &BoxAut,
            st: &Box<dyn Any>,
            q: usize,
            depth: usize,
            bound: usize,
            sp: &Spec,
            reach: &[bool],
            all: &[bool],
            extra: bool,
            w: &mut Vec<u8>,
            count: &mut u64,
        ) -> Result<(), String> {
            *count += 1;
            if DISTURB.with(|d| d.get()) {
                // a second walk on the SAME automaton object starts and is questioned
                // while this one is under way (two live searches sharing one automaton)
                // (of varying length, so that whatever the automaton numbers or caches per
                // walk is out of step between the two)
                let mut t = aut.start();
                std::hint::black_box((aut.can_match(&t), aut.will_always_match(&t)));
                for i in 0..(*count % 5) {
                    t = aut.accept(&t, SYM_BYTES[((*count / 5 + i) % 3) as usize]);
                    std::hint::black_box((aut.will_always_match(&t), aut.can_match(&t), aut.is_match(&t)));
                }
            }
            let m = aut.is_match(st);
            if m != sp.accept[q] {
                return Err(format!("is_match after {:?} is {}, specification says {}", String::from_utf8_lossy(w), m, sp.accept[q]));
            }
            if !aut.can_match(st) && reach[q] {
                return Err(format!("can_match is false after {:?} although a continuation matches", String::from_utf8_lossy(w)));
            }
            if aut.will_always_match(st) && !all[q] {
                return Err(format!("will_always_match is true after {:?} although some continuation does not match", String::from_utf8_lossy(w)));
            }
            if depth == bound {
                return Ok(());
            }
            for sym in 0..3 {
                let b = SYM_BYTES[sym];
                let nx = aut.accept(st, b);
                w.push(b);
                walk(aut, &nx, sp.delta[q][sym], depth + 1, bound, sp, reach, all, extra, w, count)?;
                w.pop();
            }
            if extra && depth < 3 {
                for b in [0x00u8, 0x80, 0xff] {
                    let nx = aut.accept(st, b);
                    w.push(b);
                    walk(aut, &nx, sp.delta[q][2], depth + 1, bound.min(depth + 3), sp, reach, all, extra, w, count)?;
                    w.pop();
                }
            }
            Ok(())
        }
        let st = aut.start();
        walk(&aut, &st, 0, 0, bound, &sp, &reach, &all, extra_bytes, &mut vec![], &mut count)?;
        if !matches!(e, Ex::Leaf(_)) {
            // the same expression with every operand borrowed (impl Automaton for &T)
            let r = real_ref(e, leaves);
            let st = r.aut().start();
            walk(r.aut(), &st, 0, 0, bound, &sp, &reach, &all, extra_bytes, &mut vec![], &mut count).map_err(|m| format!("[operands by reference] {}", m))?;
            // and once more while a second walk on the same automaton object keeps starting
            DISTURB.with(|d| d.set(true));
            let st = aut.start();
            let r2 = walk(&aut, &st, 0, 0, bound.min(6), &sp, &reach, &all, false, &mut vec![], &mut count).map_err(|m| format!("[a second walk sharing the automaton object is under way] {}", m));
            DISTURB.with(|d| d.set(false));
            r2?;
        }
        Ok(Outcome { strings: count, spec_states: n, complete: n + 1 <= cap })
    })
    .and_then(|x| x)
}

pub fn leaves_full() -> Vec<LeafDef> {
    let mut v = vec![LeafDef::Always];
    for s in ["", "a", "ab", "ba"] {
        v.push(LeafDef::Str(s));
    }
    for s in ["", "a", "ab", "aa"] {
        v.push(LeafDef::Subseq(s));
    }
    for n in 1..=2 {
        for t in all_dfas(n, ClassFn::IsA, true) {
            v.push(LeafDef::Table(t));
        }
    }
    v
}

/// A small core set of leaves for deeper trees.
pub fn core_indices(leaves: &[LeafDef]) -> Vec<usize> {
    let mut v: Vec<usize> = (0..9).collect();
    let tables: Vec<usize> = (9..leaves.len()).collect();
    // every 11th table DFA
    v.extend(tables.iter().step_by(11));
    v
}

// ---- pattern family: Str / Subsequence over LONG and NON-ASCII patterns,
// ---- checked directly against their definitions

pub fn pattern_family() -> Vec<String> {
    let mut v: Vec<String> = vec![];
    // n distinct ASCII bytes (0x21..), n = 1..=94
    for n in 1..=94usize {
        v.push((0..n).map(|i| (0x21 + i as u8) as char).collect());
    }
    // all 128 ASCII bytes incl. NUL; repeated letters; long patterns
    v.push((0..128u8).map(|b| b as char).collect());
    v.push("abcabcabcabcabcabcabcabcabc".into());
    v.push("ab".repeat(300));
    v.push((0..1000usize).map(|i| (b'a' + (i * 7 % 26) as u8) as char).collect());
    // non-ASCII: 2-, 3-, 4-byte characters at the start, middle, end; sharing lead bytes
    for s in ["caf\u{e9}", "\u{e9}", "\u{e9}\u{e8}", "\u{2603}x", "x\u{2603}", "\u{1D11E}a\u{1D11F}", "na\u{ef}ve \u{2603}\u{2602} \u{1F600}\u{1F601}", "\u{7ff}\u{800}\u{ffff}\u{10000}\u{10ffff}"] {
        v.push(s.into());
    }
    // patterns longer than 65535 bytes (positions that do not fit two bytes)
    v.push((0..65_600usize).map(|i| (b'a' + (i * 7 % 26) as u8) as char).collect());
    v.push("xy".repeat(66_000));
    // every 2-byte character U+0080..U+07FF in one pattern (1920 chars, 3840 bytes)
    v.push((0x80u32..0x800).filter_map(char::from_u32).collect());
    v
}

fn is_subseq(p: &[u8], k: &[u8]) -> bool {
    let mut i = 0;
    for &b in k {
        if i < p.len() && p[i] == b {
            i += 1;
        }
    }
    i == p.len()
}

/// Keys around a pattern: the pattern, every prefix, every single deletion /
/// insertion / substitution (positions thinned for long patterns), doubled.
fn keys_around(p: &[u8]) -> Vec<Vec<u8>> {
    let mut out: std::collections::BTreeSet<Vec<u8>> = std::collections::BTreeSet::new();
    out.insert(vec![]);
    out.insert(p.to_vec());
    let mut pp = p.to_vec();
    pp.extend_from_slice(p);
    out.insert(pp);
    let step = if p.len() > 10_000 { p.len() / 12 } else { (p.len() / 120).max(1) };
    for i in (0..=p.len()).step_by(step) {
        out.insert(p[..i].to_vec());
        for b in [0x00u8, b'a', 0x7f, 0x80, 0xa9, 0xff, if i < p.len() { p[i] } else { b'z' }] {
            let mut m = p.to_vec();
            m.insert(i, b);
            out.insert(m);
            if i < p.len() {
                let mut m = p.to_vec();
                m[i] = b;
                out.insert(m);
            }
        }
        if i < p.len() {
            let mut m = p.to_vec();
            m.remove(i);
            out.insert(m);
            // interleave: every byte followed by a filler
            if i == 0 {
                let m: Vec<u8> = p.iter().flat_map(|&b| [b, b'~']).collect();
                out.insert(m);
            }
        }
    }
    out.into_iter().collect()
}

fn walk_hints<A: Automaton>(a: &A, key: &[u8], accepts: bool, what: &str) -> Result<(), String> {
    let mut st = a.start();
    let mut dead_at: Option<usize> = None;
    let mut always_at: Option<usize> = None;
    for (i, &b) in key.iter().enumerate() {
        if !a.can_match(&st) && dead_at.is_none() {
            dead_at = Some(i);
        }
        if a.will_always_match(&st) && always_at.is_none() {
            always_at = Some(i);
        }
        st = a.accept(&st, b);
    }
    if a.is_match(&st) != accepts {
        return Err(format!("{}: is_match is {} for a key of {} bytes, the definition says {}", what, a.is_match(&st), key.len(), accepts));
    }
    if let (Some(i), true) = (dead_at, accepts) {
        return Err(format!("{}: can_match is false after {} bytes of an accepted key", what, i));
    }
    if let (Some(i), false) = (always_at, accepts) {
        return Err(format!("{}: will_always_match is true after {} bytes of a rejected key", what, i));
    }
    Ok(())
}

pub fn run_pattern(pi: usize) -> Result<u64, String> {
    let fam = pattern_family();
    let pat = &fam[pi];
    guard(|| {
        let p = pat.as_bytes();
        let keys = keys_around(p);
        let what = |name: &str| format!("{}(pattern #{}: {} bytes, {} distinct, starts {:?})", name, pi, p.len(), p.iter().collect::<std::collections::BTreeSet<_>>().len(), pat.chars().take(6).collect::<String>());
        let mut n = 0u64;
        for k in &keys {
            n += 4;
            let eq = &k[..] == p;
            let sub = is_subseq(p, k);
            let pre = k.len() >= p.len() && &k[..p.len()] == p;
            walk_hints(&Str::new(pat), k, eq, &what("Str"))?;
            walk_hints(&Subsequence::new(pat), k, sub, &what("Subsequence"))?;
            walk_hints(&Str::new(pat).starts_with(), k, pre, &what("StartsWith(Str)"))?;
            walk_hints(&Subsequence::new(pat).complement(), k, !sub, &what("Complement(Subsequence)"))?;
            walk_hints(&Str::new(pat).complement(), k, !eq, &what("Complement(Str)"))?;
            walk_hints(&Str::new(pat).union(Subsequence::new(pat)), k, eq || sub, &what("Union(Str,Subsequence)"))?;
        }
        // through a search over the set of these keys
        let set = fst::Set::from_iter(keys.iter()).map_err(|e| format!("{:?}", e))?;
        use fst::{IntoStreamer, Streamer};
        fn collect<A: Automaton>(mut s: fst::set::Stream<'_, A>) -> Vec<Vec<u8>> {
            let mut v = vec![];
            while let Some(k) = s.next() {
                v.push(k.to_vec());
            }
            v
        }
        let got = collect(set.search(Str::new(pat)).into_stream());
        if got != keys.iter().filter(|k| &k[..] == p).cloned().collect::<Vec<_>>() {
            return Err(format!("{}: Set::search returned {} keys", what("Str"), got.len()));
        }
        let got = collect(set.search(Subsequence::new(pat)).into_stream());
        let want: Vec<Vec<u8>> = keys.iter().filter(|k| is_subseq(p, k)).cloned().collect();
        if got != want {
            return Err(format!("{}: Set::search returned {} keys, expected {}", what("Subsequence"), got.len(), want.len()));
        }
        Ok(n + 2)
    })
    .and_then(|x| x)
}

pub fn replay(case: &Value) -> Result<String, String> {
    if let Some(pi) = case["pattern"].as_u64() {
        return run_pattern(pi as usize).map(|n| format!("{} pattern checks agree", n));
    }
    let leaves = leaves_with3(case["with3"].as_bool().unwrap_or(false));
    let e = Ex::from_json(&case["expr"]);
    run_expr(&e, &leaves, case["cap"].as_u64().unwrap() as usize, true).map(|o| format!("{} strings agree ({} spec states)", o.strings, o.spec_states))
}

fn leaves_with3(with3: bool) -> Vec<LeafDef> {
    let mut l = leaves_full();
    if with3 {
        for t in all_dfas(3, ClassFn::IsA, true) {
            l.push(LeafDef::Table(t));
        }
    }
    l
}

pub fn plan(tier: Tier) -> Plan {
    let mut p = Plan::new("C18", "model_checking");
    let thorough = tier.thorough();
    let cap = if thorough { 10 } else { 7 };
    let leaves = Arc::new(leaves_with3(thorough));
    let nl_full = leaves_full().len();
    p.rule = format!("leaves: AlwaysMatch, Str(s) s in {{'',a,ab,ba}}, Subsequence(p) p in {{'',a,ab,aa}}, every table DFA with 1..2 states (thorough: also 3 states at depth <= 1) over classes {{a, not a}} with EVERY sound hint assignment (can_match >= truth, will_always_match <= truth): {} leaves; expressions: every tree of depth <= 1 over all leaves, every unary operator over those (depth 2), every binary operator over unary-wrapped leaves, and every tree with <= 3 leaves and depth <= 3 over a core leaf set; each built from the REAL StartsWith/Complement/Union/Intersection types (type-erased leaves) and compared, for every byte string over {{a,b,c}} of length <= min(n+1,{}) (n = states of the explicit product DFA of the same expression; thorough also bytes 00/80/ff near the root), with the spec: is_match equal; can_match false only if no accepting continuation exists; will_always_match true only if every continuation accepts; finite family of {} long / non-ASCII patterns (1..94 distinct bytes, all 128 ASCII bytes, 600..3840-byte and 65600 / 132000-byte patterns, 2/3/4-byte characters) for Str and Subsequence alone and under StartsWith/Complement/Union against their definitions on the keys one edit around the pattern, hints checked along each key, and through Set::search. non-trivial = expressions containing at least one combinator", nl_full, cap, pattern_family().len());
    p.assumptions = vec![
        "the combinator state types are opaque, so strings (not implementation states) are enumerated, up to the pumping bound of the specification DFA".into(),
        "weak-but-sound hints (e.g. Str::can_match after a mismatch) are accepted".into(),
    ];
    p.extra.insert("length_cap".into(), json!(cap));
    p.extra.insert("leaves".into(), json!(leaves.len()));
    let nl = leaves.len();
    let with3 = thorough;
    // unit = (scope, first leaf index)
    #[derive(Clone, Copy, Debug)]
    enum Scope {
        D1,       // leaf, U(leaf), B(leaf_i, leaf_j)
        UofD1,    // U(U(leaf)), U(B(leaf_i, leaf_j))
        BofU,     // B(U(x), y), B(x, U(y)), B(U(x), U(y))
        Core3,    // <= 3 leaves, depth <= 3 over the core set
    }
    let mut add = |scope: Scope, name: &'static str, firsts: Vec<usize>| {
        for i in firsts {
            let leaves = leaves.clone();
            p.units.push(unit(name, format!("{:?} first leaf {}", scope, i), move |st, rep| {
                let l = &leaves[..];
                let nl = l.len();
                let lf = |i: usize| Box::new(Ex::Leaf(i));
                let un: [fn(Box<Ex>) -> Ex; 2] = [Ex::Sw, Ex::Co];
                let bi: [fn(Box<Ex>, Box<Ex>) -> Ex; 2] = [Ex::Un, Ex::In];
                let mut exprs: Vec<Ex> = vec![];
                // 3-state tables only take part in depth <= 1 trees with small partners
                let partner_ok = |j: usize| j < nl_full;
                match scope {
                    Scope::D1 => {
                        exprs.push(Ex::Leaf(i));
                        for u in un {
                            exprs.push(u(lf(i)));
                        }
                        for j in 0..nl {
                            if i >= nl_full && !partner_ok(j) {
                                continue;
                            }
                            for b in bi {
                                exprs.push(b(lf(i), lf(j)));
                            }
                        }
                    }
                    Scope::UofD1 => {
                        for u in un {
                            for u2 in un {
                                exprs.push(u(Box::new(u2(lf(i)))));
                            }
                            for j in 0..nl_full {
                                for b in bi {
                                    exprs.push(u(Box::new(b(lf(i), lf(j)))));
                                }
                            }
                        }
                    }
                    Scope::BofU => {
                        for j in 0..nl_full {
                            for b in bi {
                                for u in un {
                                    exprs.push(b(Box::new(u(lf(i))), lf(j)));
                                    exprs.push(b(lf(i), Box::new(u(lf(j)))));
                                    for u2 in un {
                                        exprs.push(b(Box::new(u(lf(i))), Box::new(u2(lf(j)))));
                                    }
                                }
                            }
                        }
                    }
                    Scope::Core3 => {
                        let core = core_indices(&l[..nl_full]);
                        for u in un {
                            for u2 in un {
                                for u3 in un {
                                    exprs.push(u(Box::new(u2(Box::new(u3(lf(i)))))));
                                }
                            }
                        }
                        for &j in &core {
                            for &k in &core {
                                for b in bi {
                                    for b2 in bi {
                                        exprs.push(b(Box::new(b2(lf(i), lf(j))), lf(k)));
                                        exprs.push(b(lf(i), Box::new(b2(lf(j), lf(k)))));
                                        for u in un {
                                            exprs.push(u(Box::new(b(Box::new(b2(lf(i), lf(j))), lf(k)))));
                                            exprs.push(b(Box::new(u(Box::new(b2(lf(i), lf(j))))), lf(k)));
                                        }
                                    }
                                }
                            }
                        }
                    }
                }
                for (xi, e) in exprs.iter().enumerate() {
                    if rep.stopped() {
                        return;
                    }
                    st.states += 1;
                    st.nontrivial += !matches!(e, Ex::Leaf(_)) as u64;
                    match run_expr(e, l, cap, thorough) {
                        Ok(o) => {
                            st.evals += o.strings;
                            st.transitions += o.strings;
                            st.count("expressions", 1);
                            st.count("expressions_complete_wrt_pumping_bound", o.complete as u64);
                            st.max("max_spec_states", o.spec_states as u64);
                            if xi == 17 {
                                st.sample(|| json!({"expression": e.show(l), "spec_states": o.spec_states, "strings": o.strings}));
                            }
                        }
                        Err(msg) => rep.violation(e.show(l), msg, json!({"expr": e.to_json(), "cap": cap, "with3": with3, "shown": e.show(l)})),
                    }
                }
            }));
        }
    };
    add(Scope::D1, "depth<=1-all-leaves", (0..nl).collect());
    add(Scope::UofD1, "unary-over-depth<=1", (0..nl_full).collect());
    add(Scope::BofU, "binary-over-unary-wrapped-leaves", (0..nl_full).collect());
    let core = core_indices(&leaves[..nl_full]);
    add(Scope::Core3, "core-leaves-3-leaves-depth<=3", if thorough { core.clone() } else { core.iter().cloned().step_by(2).collect() });
    for pi in 0..pattern_family().len() {
        p.units.push(unit("pattern-family-long-and-non-ascii-patterns-(finite-family)", format!("pattern {}", pi), move |st, rep| {
            st.states += 1;
            match run_pattern(pi) {
                Ok(n) => { st.evals += n; st.transitions += n; st.nontrivial += 1; st.count("pattern_checks", n); }
                Err(msg) => rep.violation(format!("pattern {}", pi), msg, json!({"pattern": pi})),
            }
        }));
    }
    p.must_be_nonzero = vec!["expressions_complete_wrt_pumping_bound".into(), "pattern_checks".into()];
    p
}
