//! C03 - range streams return exactly the keys within the bounds (SEQ engine).

use fst::raw::Fst;
use fst::{Automaton, IntoStreamer, Map, Set, Streamer};
use serde_json::{json, Value};

use super::util::*;
use crate::ev::{guard, unit, Plan, Reporter, Stats, Tier};
use crate::front::{self, Front, Geom};
#[allow(unused_imports)]
use crate::ev::guard as _guard_alias;
use crate::model::*;

pub const LOS: [Lo; 3] = [Lo::None, Lo::Ge, Lo::Gt];
pub const HIS: [Hi; 3] = [Hi::None, Hi::Le, Hi::Lt];

pub fn apply_bounds<'f, A: Automaton>(
    mut b: fst::raw::StreamBuilder<'f, A>,
    lo: Lo,
    lok: &[u8],
    hi: Hi,
    hik: &[u8],
) -> fst::raw::StreamBuilder<'f, A> {
    b = match lo {
        Lo::None => b,
        Lo::Ge => b.ge(lok),
        Lo::Gt => b.gt(lok),
    };
    match hi {
        Hi::None => b,
        Hi::Le => b.le(hik),
        Hi::Lt => b.lt(hik),
    }
}

/// Drains a raw stream; also checks that it stays ended.
pub fn drain<'f, A: Automaton>(mut s: fst::raw::Stream<'f, A>) -> Result<Vec<Kv>, String> {
    let mut out = vec![];
    while let Some((k, v)) = s.next() {
        out.push((k.to_vec(), v.value()));
        if out.len() > 100_000 {
            return Err("stream does not end".into());
        }
    }
    for _ in 0..2 {
        if let Some((k, _)) = s.next() {
            return Err(format!("stream yielded {} after it had ended", key_str(k)));
        }
    }
    Ok(out)
}

pub fn expected(kvs: &[Kv], lo: Lo, lok: &[u8], hi: Hi, hik: &[u8]) -> Vec<Kv> {
    kvs.iter().filter(|(k, _)| in_range(k, lo, lok, hi, hik)).cloned().collect()
}

fn bound_universe(kvs: &[Kv], full: bool) -> Vec<Key> {
    let keys: Vec<Key> = kvs.iter().map(|x| x.0.clone()).collect();
    let mut s: std::collections::BTreeSet<Key> = std::collections::BTreeSet::new();
    // strings over {just below 'a', 'a', 'b', just above 'b'} and the raw bytes
    let alpha: Vec<u8> = if keys.iter().any(|k| k.iter().any(|&b| b == 0 || b >= 0x7f)) {
        vec![0x00, 0x01, 0x7e, 0x7f, 0x80, 0xfe, 0xff]
    } else {
        vec![b'`', b'a', b'b', b'c', b'd']
    };
    for k in strings_over(&alpha, if full { 2 } else { 1 }) {
        s.insert(k);
    }
    for k in bound_keys(&keys, &[alpha[0], alpha[1], *alpha.last().unwrap()], if full { 4 } else { 3 }) {
        if full || keys.contains(&k) {
            s.insert(k);
        }
    }
    s.into_iter().collect()
}

#[derive(Clone, Copy)]
pub struct Scope {
    pub full_bounds: bool,
    pub wrappers: bool,
    pub repeats: bool,
}

/// Runs all bound combinations on one FST. Returns number of streams checked.
pub fn run_case(kvs: &[Kv], geom: Geom, sc: Scope) -> Result<u64, String> {
    let bytes = front::build(Front::RawInsert, geom, kvs)?;
    guard(|| {
        let f = Fst::new(&bytes[..]).map_err(|e| format!("{:?}", e))?;
        let m = Map::new(&bytes[..]).map_err(|e| format!("{:?}", e))?;
        let s = Set::new(&bytes[..]).map_err(|e| format!("{:?}", e))?;
        let bk = bound_universe(kvs, sc.full_bounds);
        let mut n = 0u64;
        let empty: Vec<u8> = vec![];
        for lo in LOS {
            let loks: &[Key] = if lo == Lo::None { std::slice::from_ref(&empty) } else { &bk };
            for lok in loks {
                for hi in HIS {
                    let hiks: &[Key] = if hi == Hi::None { std::slice::from_ref(&empty) } else { &bk };
                    for hik in hiks {
                        let want = expected(kvs, lo, lok, hi, hik);
                        let got = drain(apply_bounds(f.range(), lo, lok, hi, hik).into_stream())?;
                        crate::ev::obs(crate::ev::hash_kvs(&got));
                        n += 1;
                        if got != want {
                            return Err(format!(
                                "Fst::range {:?}({}) {:?}({}) gave {} expected {}",
                                lo, key_str(lok), hi, key_str(hik), kvs_str(&got), kvs_str(&want)
                            ));
                        }
                        // the same bounds through the automaton builders (they carry their own copies of the setters)
                        if kvs.len() <= 3 {
                            let got = drain(apply_bounds(f.search(fst::automaton::AlwaysMatch), lo, lok, hi, hik).into_stream())?;
                            let mut wb = f.search_with_state(fst::automaton::AlwaysMatch);
                            wb = match lo { Lo::None => wb, Lo::Ge => wb.ge(lok), Lo::Gt => wb.gt(lok) };
                            wb = match hi { Hi::None => wb, Hi::Le => wb.le(hik), Hi::Lt => wb.lt(hik) };
                            let mut ws = wb.into_stream();
                            let mut gotw: Vec<Kv> = vec![];
                            while let Some((k, v, _)) = ws.next() {
                                gotw.push((k.to_vec(), v.value()));
                            }
                            n += 2;
                            if got != want || gotw != want {
                                return Err(format!(
                                    "search(AlwaysMatch) / search_with_state(AlwaysMatch) with {:?}({}) {:?}({}) gave {} / {} expected {}",
                                    lo, key_str(lok), hi, key_str(hik), kvs_str(&got), kvs_str(&gotw), kvs_str(&want)
                                ));
                            }
                        }
                        if sc.wrappers {
                            let mut mb = m.range();
                            mb = match lo { Lo::None => mb, Lo::Ge => mb.ge(lok), Lo::Gt => mb.gt(lok) };
                            mb = match hi { Hi::None => mb, Hi::Le => mb.le(hik), Hi::Lt => mb.lt(hik) };
                            let got = mb.into_stream().into_byte_vec();
                            let mut sb = s.range();
                            sb = match lo { Lo::None => sb, Lo::Ge => sb.ge(lok), Lo::Gt => sb.gt(lok) };
                            sb = match hi { Hi::None => sb, Hi::Le => sb.le(hik), Hi::Lt => sb.lt(hik) };
                            let gots = sb.into_stream().into_bytes();
                            n += 2;
                            if got != want || gots != want.iter().map(|x| x.0.clone()).collect::<Vec<_>>() {
                                return Err(format!(
                                    "Map/Set::range {:?}({}) {:?}({}) differs from model",
                                    lo, key_str(lok), hi, key_str(hik)
                                ));
                            }
                        }
                    }
                }
            }
        }
        if sc.repeats {
            // same method twice: last setting wins (optionally with an
            // unrelated bound of the other side in between)
            #[derive(Clone, Copy, Debug, PartialEq)]
            enum M { Ge, Gt, Le, Lt }
            fn ap<'f>(b: fst::raw::StreamBuilder<'f>, m: M, k: &[u8]) -> fst::raw::StreamBuilder<'f> {
                match m { M::Ge => b.ge(k), M::Gt => b.gt(k), M::Le => b.le(k), M::Lt => b.lt(k) }
            }
            let small: Vec<&Key> = bk.iter().filter(|k| k.len() <= 2).collect();
            // (x, x2): first and last setting of the same SIDE; x2 == x is the same
            // method twice, x2 != x is ge then gt (le then lt) or the reverse: the
            // last setting wins with its own inclusivity
            for (x, x2) in [(M::Ge, M::Ge), (M::Gt, M::Gt), (M::Le, M::Le), (M::Lt, M::Lt), (M::Ge, M::Gt), (M::Gt, M::Ge), (M::Le, M::Lt), (M::Lt, M::Le)] {
                let others: Vec<Option<M>> = if matches!(x, M::Ge | M::Gt) {
                    vec![None, Some(M::Le), Some(M::Lt)]
                } else {
                    vec![None, Some(M::Ge), Some(M::Gt)]
                };
                for k1 in &small {
                    for k2 in &small {
                        for y in &others {
                            let yk: &[u8] = b"ab";
                            let mut b = ap(f.range(), x, k1);
                            if let Some(y) = y {
                                b = ap(b, *y, yk);
                            }
                            b = ap(b, x2, k2);
                            let got = drain(b.into_stream())?;
                            let (lo, lok, hi, hik): (Lo, &[u8], Hi, &[u8]) = match (x2, y) {
                                (M::Ge, None) => (Lo::Ge, k2, Hi::None, b""),
                                (M::Gt, None) => (Lo::Gt, k2, Hi::None, b""),
                                (M::Le, None) => (Lo::None, b"", Hi::Le, k2),
                                (M::Lt, None) => (Lo::None, b"", Hi::Lt, k2),
                                (M::Ge, Some(M::Le)) => (Lo::Ge, k2, Hi::Le, yk),
                                (M::Ge, Some(_)) => (Lo::Ge, k2, Hi::Lt, yk),
                                (M::Gt, Some(M::Le)) => (Lo::Gt, k2, Hi::Le, yk),
                                (M::Gt, Some(_)) => (Lo::Gt, k2, Hi::Lt, yk),
                                (M::Le, Some(M::Ge)) => (Lo::Ge, yk, Hi::Le, k2),
                                (M::Le, Some(_)) => (Lo::Gt, yk, Hi::Le, k2),
                                (M::Lt, Some(M::Ge)) => (Lo::Ge, yk, Hi::Lt, k2),
                                (M::Lt, Some(_)) => (Lo::Gt, yk, Hi::Lt, k2),
                            };
                            let want = expected(kvs, lo, lok, hi, hik);
                            n += 1;
                            if got != want {
                                return Err(format!(
                                    "repeated bound {:?}({}) .. {:?} .. {:?}({}) gave {} expected {}",
                                    x, key_str(k1), y, x2, key_str(k2), kvs_str(&got), kvs_str(&want)
                                ));
                            }
                        }
                    }
                }
            }
        }
        Ok(n)
    })
    .and_then(|x| x)
}

/// Long keys: lower bounds = every key, the key without its last byte, with
/// one more byte, with the last byte incremented; upper bounds = none or a key.
pub fn run_ladder_case(kvs: &[Kv]) -> Result<u64, String> {
    let bytes = front::build(Front::RawInsert, (2, 2), kvs)?;
    guard(|| {
        let f = Fst::new(&bytes[..]).map_err(|e| format!("{:?}", e))?;
        let long = kvs.iter().any(|x| x.0.len() > 3000);
        let mut los: Vec<Key> = vec![vec![]];
        for (k, _) in kvs {
            los.push(k.clone());
            los.push(k[..k.len() - 1].to_vec());
            if long {
                continue; // very long keys: fewer bounds (each range copies every key)
            }
            let mut m = k.clone();
            m.push(0);
            los.push(m);
            let mut m = k.clone();
            *m.last_mut().unwrap() += 1;
            los.push(m);
        }
        let short = |k: &[u8]| format!("<{} bytes ending {}>", k.len(), key_str(&k[k.len().saturating_sub(3)..]));
        let mut n = 0u64;
        for lo in [Lo::Ge, Lo::Gt] {
            for lok in &los {
                let mut his: Vec<(Hi, &[u8])> = vec![(Hi::None, b"")];
                for (i, (k, _)) in kvs.iter().enumerate() {
                    if long && i % 3 != 1 {
                        continue;
                    }
                    his.push((Hi::Le, k));
                    his.push((Hi::Lt, k));
                }
                for (hi, hik) in his {
                    let want = expected(kvs, lo, lok, hi, hik);
                    let got = drain(apply_bounds(f.range(), lo, lok, hi, hik).into_stream())?;
                    n += 1;
                    if got != want {
                        return Err(format!("Fst::range {:?}({}) {:?}({}) gave {} keys, expected {}", lo, short(lok), hi, short(hik), got.len(), want.len()));
                    }
                }
            }
        }
        Ok(n)
    })
    .and_then(|x| x)
}

pub fn replay(case: &Value) -> Result<String, String> {
    if let Some(r) = super::seqread::replay(case) {
        return r;
    }
    if case["gapsv"].as_bool() == Some(true) {
        return super::c10::run_gaps_versions(case["n"].as_u64().unwrap() as usize, case["variant"].as_u64().unwrap() as usize, case["depth"].as_u64().unwrap() as usize, 1).map(|n| format!("{} ranges agree", n));
    }
    if let Some(l) = case["ladder_len"].as_u64() {
        let kvs = long_keys_of(&[l as usize]).pop().unwrap().1;
        return run_ladder_case(&kvs).map(|n| format!("{} ranges agree", n));
    }
    let kvs = kvs_from(&case["kvs"]);
    let geom = geom_from(&case["geom"]);
    if case["gaps"].as_bool() == Some(true) {
        // every one- and two-byte bound (first byte p or none) on this FST
        let bytes = front::build(Front::RawInsert, geom, &kvs)?;
        return guard(|| {
            let f = Fst::new(&bytes[..]).map_err(|e| format!("{:?}", e))?;
            let mut n = 0u64;
            for b in 0..=255u8 {
                for bk in [vec![b], vec![b'p', b], vec![b, b'x'], vec![b'p', b, b'x'], vec![b'k', b], vec![b'k', b, b'b']] {
                    for lo in [Lo::Ge, Lo::Gt] {
                        let got = drain(apply_bounds(f.range(), lo, &bk, Hi::None, b"").into_stream())?;
                        n += 1;
                        if got != expected(&kvs, lo, &bk, Hi::None, b"") {
                            return Err(format!("range {:?}({}) gave {} items, expected {}", lo, key_str(&bk), got.len(), expected(&kvs, lo, &bk, Hi::None, b"").len()));
                        }
                    }
                }
            }
            Ok(format!("{} streams agree", n))
        })
        .and_then(|x| x);
    }
    let sc = Scope { full_bounds: true, wrappers: true, repeats: true };
    run_case(&kvs, geom, sc).map(|n| format!("{} streams agree", n))
}

fn do_case(kvs: &[Kv], geom: Geom, sc: Scope, st: &mut Stats, rep: &Reporter) {
    st.states += 1;
    match run_case(kvs, geom, sc) {
        Ok(n) => {
            st.evals += n;
            st.transitions += n * (kvs.len() as u64 + 3);
        }
        Err(msg) => rep.violation(
            format!("{} {:?}", kvs_str(kvs), geom),
            msg,
            json!({"kvs": kvs_json(kvs), "geom": [geom.0, geom.1]}),
        ),
    }
}

pub fn plan(tier: Tier) -> Plan {
    let mut p = Plan::new("C03", "model_checking");
    p.rule = "for every FST of the scope every (lower kind, lower key, upper kind, upper key) - all ordered pairs incl. inverted ranges - is streamed through Fst::range (Map::range and Set::range for sets of <= 3 keys) and compared with the model filter; the stream must stay ended; plus every sequence ge/gt/le/lt(k1) [other-side bound] same-method(k2). Bound keys: all strings of length <= 2 (quick, large sets: <= 1) over {byte below 'a',a,b,c,d} (raw universe: {00,01,7e,7f,80,fe,ff}) plus keys, prefixes, extensions and last-byte +-1 neighbours. non-trivial = FST with >= 2 keys; the gap family also written by the independent reference encoder in versions 1, 2 and 3 (every byte as one- and two-byte ge/gt/le/lt bound)".into();
    p.assumptions = vec!["'same kind of bound' is read as the same side (lower: ge/gt, upper: le/lt): a later call on a side replaces the earlier one, with its own inclusivity".into()];
    let thorough = tier.thorough();
    for u in [u_ab3(), u_abc2(), u_raw2()] {
        let total = 1u64 << u.keys.len();
        for (a, b) in ranges(total, 128) {
            let u = u.clone();
            p.units.push(unit(
                &format!("{}-subsets-all-bounds", u.name),
                format!("{} masks {}..{}", u.name, a, b),
                move |st, rep| {
                    for mask in a..b {
                        if rep.stopped() {
                            return;
                        }
                        let keys = select(&u.keys, mask);
                        if u.name == "U_abc2" && mask != 0 && keys.iter().all(|k| !k.contains(&b'c')) {
                            continue;
                        }
                        let small = keys.len() <= 3;
                        let kvs = Pat::Lin3.apply(&keys);
                        st.nontrivial += (kvs.len() >= 2) as u64;
                        st.sample(|| json!({"kvs": kvs_str(&kvs), "bound_keys": bound_universe(&kvs, thorough || small).len()}));
                        let sc = Scope { full_bounds: thorough || small, wrappers: small, repeats: small || (thorough && keys.len() <= 5) };
                        do_case(&kvs, (3, 3), sc, st, rep);
                        if small || thorough {
                            let kvs = Pat::MaxMinus.apply(&keys);
                            do_case(&kvs, (1, 1), Scope { full_bounds: small, wrappers: false, repeats: false }, st, rep);
                        }
                    }
                },
            ));
        }
    }
    // every assignment from {0,1,2} to every subset of U_abc2 with <= 3 keys
    // (thorough 4): final outputs and non-monotone values under every bound
    {
        let u = u_abc2();
        let mut masks = vec![];
        for_each_mask_upto(u.keys.len(), if thorough { 4 } else { 3 }, &mut |m| masks.push(m));
        let chunk = (masks.len() + 63) / 64;
        for part in masks.chunks(chunk.max(1)) {
            let part = part.to_vec();
            let u = u.clone();
            p.units.push(unit("U_abc2-all-value-assignments-{0,1,2}-all-bounds", format!("abc2 assignments {} masks from {}", part.len(), part[0]), move |st, rep| {
                for &mask in &part {
                    if rep.stopped() { return; }
                    let keys = select(&u.keys, mask);
                    let n = keys.len();
                    for code in 0..3usize.pow(n as u32) {
                        let mut c = code;
                        let kvs: Vec<Kv> = keys.iter().map(|k| { let v = (c % 3) as u64; c /= 3; (k.clone(), v) }).collect();
                        st.nontrivial += (n >= 2) as u64;
                        do_case(&kvs, (1, 1), Scope { full_bounds: n <= 2, wrappers: false, repeats: false }, st, rep);
                    }
                }
            }));
        }
    }
    {
        let total = if thorough { 420 } else { 84 };
        for part in 0..16usize {
            p.units.push(unit("mixed-mid-size-family-(finite-family)", format!("mixed part {}", part), move |st, rep| {
                for (i, (_, kvs)) in mixed_family(total).into_iter().enumerate() {
                    if i % 16 != part || kvs.len() > 160 { continue; }
                    st.nontrivial += 1;
                    st.count("mixed_cases", 1);
                    do_case(&kvs, (3, 3), Scope { full_bounds: false, wrappers: false, repeats: false }, st, rep);
                }
            }));
        }
    }
    // wide nodes whose labels have gaps (spread / last variants, across the
    // index threshold), with EVERY byte as a one- or two-byte lower/upper bound
    for n in [2usize, 3, 31, 32, 33, 34, 40, 64, 100, 200, 255, 256] {
        p.units.push(unit("wide-nodes-with-gaps-every-byte-as-bound", format!("gaps fan-out {}", n), move |st, rep| {
            let label_sets: Vec<Vec<u8>> = vec![
                (0..n).map(|i| ((i * 256) / n) as u8).collect(),
                (0..n).map(|i| (256 - n + i) as u8).collect(),
                (0..n).map(|i| (i as u8).wrapping_mul(1)).collect(),
                (0..n).map(|i| (((i * 251) / n) as u8).saturating_add(if i + 1 == n { 4 } else { 0 })).collect(),
            ];
            for labels in label_sets {
                let mut labels = labels;
                labels.sort();
                labels.dedup();
                for depth in 0..2usize {
                    let mut kvs: Vec<Kv> = vec![];
                    for (i, &b) in labels.iter().enumerate() {
                        let mut k = if depth == 1 { vec![b'p'] } else { vec![] };
                        k.push(b);
                        kvs.push((k.clone(), 3 * i as u64 + 1));
                        if i % 3 == 0 {
                            k.push(b'x');
                            kvs.push((k, 1000 + i as u64));
                        }
                    }
                    kvs.sort();
                    st.states += 1;
                    st.nontrivial += 1;
                    st.count("gap_cases", 1);
                    let r = guard(|| {
                        let bytes = front::build(Front::RawInsert, (3, 3), &kvs)?;
                        let f = Fst::new(&bytes[..]).map_err(|e| format!("{:?}", e))?;
                        let mut cnt = 0u64;
                        for b in 0..=255u8 {
                            let bound: Vec<u8> = if depth == 1 { vec![b'p', b] } else { vec![b] };
                            let bound2: Vec<u8> = bound.iter().cloned().chain([b'x']).collect();
                            for bk in [&bound, &bound2] {
                                for lo in [Lo::Ge, Lo::Gt] {
                                    for (hi, hik) in [(Hi::None, vec![]), (Hi::Le, vec![0xf0u8]), (Hi::Lt, bound2.clone())] {
                                        let got = drain(apply_bounds(f.range(), lo, bk, hi, &hik).into_stream())?;
                                        cnt += 1;
                                        if got != expected(&kvs, lo, bk, hi, &hik) {
                                            return Err(format!("range {:?}({}) {:?}({}) over a node with {} spread labels gave {} items, expected {}", lo, key_str(bk), hi, key_str(&hik), labels.len(), got.len(), expected(&kvs, lo, bk, hi, &hik).len()));
                                        }
                                    }
                                }
                                for hi in [Hi::Le, Hi::Lt] {
                                    let got = drain(apply_bounds(f.range(), Lo::None, b"", hi, bk).into_stream())?;
                                    cnt += 1;
                                    if got != expected(&kvs, Lo::None, b"", hi, bk) {
                                        return Err(format!("range {:?}({}) over a node with {} spread labels differs from the model", hi, key_str(bk), labels.len()));
                                    }
                                }
                            }
                        }
                        Ok(cnt)
                    })
                    .and_then(|x| x);
                    match r {
                        Ok(c) => { st.evals += c; st.transitions += c * 8; }
                        Err(msg) => rep.violation(format!("gaps fan-out {} depth {} first labels {:?}", n, depth, &labels[..labels.len().min(4)]), msg, json!({"kvs": kvs_json(&kvs), "geom": [3, 3], "gaps": true})),
                    }
                }
            }
        }));
    }
    // fan-out x output-width grid: lower bounds at every byte under the wide node
    for part in 0..32usize {
        p.units.push(unit("fanout-x-output-width-grid", format!("grid part {}", part), move |st, rep| {
            for (gi, (_, kvs)) in fan_width_grid(part, 32).into_iter().enumerate() {
                if gi % 4 != 0 && !thorough {
                    continue;
                }
                st.states += 1;
                st.nontrivial += 1;
                let r = guard(|| {
                    let bytes = front::build(Front::RawInsert, (3, 3), &kvs)?;
                    let f = Fst::new(&bytes[..]).map_err(|e| format!("{:?}", e))?;
                    let mut cnt = 0u64;
                    for b in (0..=255u8).step_by(3) {
                        for bk in [vec![b'k', b], vec![b'k', b, b'b']] {
                            for (lo, hi) in [(Lo::Ge, Hi::None), (Lo::Gt, Hi::Le)] {
                                let hik: Vec<u8> = vec![b'k', 0xf0];
                                let got = drain(apply_bounds(f.range(), lo, &bk, hi, &hik).into_stream())?;
                                cnt += 1;
                                if got != expected(&kvs, lo, &bk, hi, &hik) {
                                    return Err(format!("range {:?}({}) {:?}({}) gave {} items, expected {}", lo, key_str(&bk), hi, key_str(&hik), got.len(), expected(&kvs, lo, &bk, hi, &hik).len()));
                                }
                            }
                        }
                    }
                    Ok(cnt)
                })
                .and_then(|x| x);
                match r {
                    Ok(c) => { st.evals += c; st.transitions += c * 4; }
                    Err(msg) => rep.violation(format!("grid {} keys from {}", kvs.len(), key_str(&kvs[0].0)), msg, json!({"kvs": kvs_json(&kvs), "geom": [3, 3], "gaps": true})),
                }
            }
        }));
    }
    // long keys: bounds that are long prefixes / extensions / neighbours
    p.units.push(unit("long-key-family", "long keys".into(), move |st, rep| {
        for (_, kvs) in long_key_family() {
            if kvs[0].0.len() > 2000 {
                continue;
            }
            st.nontrivial += 1;
            // the non-full bound universe contains every key itself
            do_case(&kvs, (2, 2), Scope { full_bounds: false, wrappers: true, repeats: false }, st, rep);
        }
    }));
    for part in 0..16usize {
        p.units.push(unit("key-length-ladder-(finite-family)", format!("length ladder part {}", part), move |st, rep| {
            for (name, kvs) in key_length_ladder(part, 16) {
                if name.ends_with("set") {
                    continue;
                }
                let l = kvs.iter().map(|x| x.0.len()).max().unwrap() - 1;
                let near_pow2 = (3..=17u32).any(|k| (l as i64 - (1i64 << k)).abs() <= 3);
                if !thorough && l % 4 != 0 && !near_pow2 {
                    continue; // quick tier: every fourth length and the neighbourhoods of powers of two
                }
                st.nontrivial += 1;
                st.states += 1;
                match run_ladder_case(&kvs) {
                    Ok(n) => { st.evals += n; st.transitions += n * 4; st.count("length_ladder_ranges", n); }
                    Err(msg) => rep.violation(format!("length ladder {}", name), msg, json!({"ladder_len": kvs.iter().map(|x| x.0.len()).max().unwrap() - 1})),
                }
            }
        }));
    }
    // the gap family written by the reference encoder in versions 1, 2 and 3
    for n in [2usize, 31, 32, 33, 34, 40, 64, 100, 255, 256] {
        p.units.push(unit("wide-nodes-with-gaps-in-versions-1-2-3", format!("gaps versions fan-out {}", n), move |st, rep| {
            for variant in 0..5usize {
                for depth in 0..2usize {
                    st.states += 3;
                    st.nontrivial += 3;
                    match super::c10::run_gaps_versions(n, variant, depth, 1) {
                        Ok(c) => { st.evals += c; st.transitions += c; st.count("gap_version_queries", c); }
                        Err(msg) => rep.violation(format!("gaps versions fan-out {} variant {} depth {}", n, variant, depth), msg, json!({"gapsv": true, "n": n, "variant": variant, "depth": depth, "kvs": [], "geom": [3, 3]})),
                    }
                }
            }
        }));
    }
    let fanouts: Vec<usize> = if thorough { (0..=256).step_by(3).collect() } else { vec![2, 32, 33, 64, 256] };
    for n in fanouts {
        p.units.push(unit("fanout-families", format!("fanout {}", n), move |st, rep| {
            for (name, keys) in fanout_family(n) {
                if !name.contains("first") && !thorough {
                    continue;
                }
                if keys.len() > 40 && !name.ends_with("x0") {
                    continue;
                }
                let kvs = Pat::Lin3.apply(&keys);
                // bounds: restricted to the keys themselves +-1 via the non-full universe
                let sc = Scope { full_bounds: false, wrappers: false, repeats: false };
                if keys.len() <= 70 || thorough {
                    do_case(&kvs, (2, 2), sc, st, rep);
                    st.count("fanout_cases", 1);
                }
            }
        }));
    }
    p.rule.push_str(super::seqread::RULE);
    p.rule.push_str(super::seqread::RULE_CONCURRENT);
    super::seqread::add_concurrent_unit(&mut p, super::seqread::Class::Stream);
    super::seqread::add_units(&mut p, super::seqread::Class::Stream, if tier.thorough() { 5 } else { 4 });
    p
}
