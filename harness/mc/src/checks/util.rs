//! Helpers shared by the checks: JSON <-> cases, unit partitioning.

use serde_json::{json, Value};

use crate::ev::{hex, unhex};
use crate::front::{Front, Geom, ALL_FRONTS};
use crate::model::{Key, Kv, Pat};

pub fn kvs_json(kvs: &[Kv]) -> Value {
    Value::Array(kvs.iter().map(|(k, v)| json!([hex(k), v])).collect())
}

pub fn kvs_from(v: &Value) -> Vec<Kv> {
    v.as_array()
        .expect("kvs array")
        .iter()
        .map(|e| (unhex(e[0].as_str().expect("hex key")), e[1].as_u64().expect("u64 value")))
        .collect()
}

pub fn keys_json(keys: &[Key]) -> Value {
    Value::Array(keys.iter().map(|k| json!(hex(k))).collect())
}

pub fn keys_from(v: &Value) -> Vec<Key> {
    v.as_array().expect("keys array").iter().map(|e| unhex(e.as_str().expect("hex"))).collect()
}

pub fn key_str(k: &[u8]) -> String {
    if k.iter().all(|b| b.is_ascii_graphic()) {
        String::from_utf8_lossy(k).to_string()
    } else {
        format!("0x{}", hex(k))
    }
}

pub fn kvs_str(kvs: &[Kv]) -> String {
    let v: Vec<String> = kvs.iter().map(|(k, v)| format!("{}={}", key_str(k), v)).collect();
    format!("{{{}}}", v.join(","))
}

/// Bytes of a small unrelated FST ({zz, zzz, zzzz} with values 9, 2, 3): the
/// reader that map_data re-points at the bytes under test.
pub fn other_fst_bytes() -> &'static [u8] {
    static B: std::sync::OnceLock<Vec<u8>> = std::sync::OnceLock::new();
    B.get_or_init(|| {
        let mut b = fst::raw::Builder::memory();
        b.insert("zz", 9).unwrap();
        b.insert("zzz", 2).unwrap();
        b.insert("zzzz", 3).unwrap();
        b.into_inner().unwrap()
    })
}

pub fn front_from(s: &str) -> Front {
    *ALL_FRONTS.iter().find(|f| format!("{:?}", f) == s).expect("front name")
}

pub fn geom_from(v: &Value) -> Geom {
    (v[0].as_u64().unwrap() as usize, v[1].as_u64().unwrap() as usize)
}

/// Splits `0..total` into about `parts` contiguous ranges.
pub fn ranges(total: u64, parts: u64) -> Vec<(u64, u64)> {
    let parts = parts.max(1).min(total.max(1));
    let step = (total + parts - 1) / parts;
    let mut v = vec![];
    let mut a = 0;
    while a < total {
        v.push((a, (a + step).min(total)));
        a += step;
    }
    v
}

/// Patterns applicable to a key sequence of length n (distinct value vectors
/// for n >= 2).
pub fn patterns_for(n: usize, all: bool) -> Vec<Pat> {
    let mut v = vec![Pat::Zero, Pat::Lin3, Pat::Boundary(0)];
    if all {
        v.extend([Pat::Idx, Pat::Const7, Pat::Dec, Pat::MaxMinus, Pat::Boundary(5), Pat::Boundary(11)]);
        for p in 0..n {
            v.push(Pat::MaxAt(p));
        }
    } else {
        v.push(Pat::MaxMinus);
        if n > 0 {
            v.push(Pat::MaxAt(n - 1));
        }
    }
    v
}
