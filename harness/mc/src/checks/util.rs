//! Helpers shared by the checks: JSON <-> cases, unit partitioning.

use serde_json::{json, Value};

use crate::ev::{hex, unhex};
use crate::front::{Front, Geom, ALL_FRONTS};
use crate::model::{Key, Kv, Pat};

pub fn kvs_json(kvs: &[Kv]) -> Value {
    Value::Array(kvs.iter().map(|(k, v)| json!([hex(k), v])).collect())
}

pub fn kvs_from(v: &Value) -> Vec<Kv> {
    v.as_array()
        .expect("kvs array")
        .iter()
        .map(|e| (unhex(e[0].as_str().expect("hex key")), e[1].as_u64().expect("u64 value")))
        .collect()
}

pub fn keys_json(keys: &[Key]) -> Value {
    Value::Array(keys.iter().map(|k| json!(hex(k))).collect())
}

pub fn keys_from(v: &Value) -> Vec<Key> {
    v.as_array().expect("keys array").iter().map(|e| unhex(e.as_str().expect("hex"))).collect()
}

pub fn key_str(k: &[u8]) -> String {
    if k.iter().all(|b| b.is_ascii_graphic()) {
        String::from_utf8_lossy(k).to_string()
    } else {
        format!("0x{}", hex(k))
    }
}

pub fn kvs_str(kvs: &[Kv]) -> String {
    let v: Vec<String> = kvs.iter().map(|(k, v)| format!("{}={}", key_str(k), v)).collect();
    format!("{{{}}}", v.join(","))
}

/// Bytes of a small unrelated FST ({zz, zzz, zzzz} with values 9, 2, 3): the
/// reader that map_data re-points at the bytes under test.
pub fn other_fst_bytes() -> &'static [u8] {
    static B: std::sync::OnceLock<Vec<u8>> = std::sync::OnceLock::new();
    B.get_or_init(|| {
        let mut b = fst::raw::Builder::memory();
        b.insert("zz", 9).unwrap();
        b.insert("zzz", 2).unwrap();
        b.insert("zzzz", 3).unwrap();
        b.into_inner().unwrap()
    })
}

/// Enumerates an FST by hand through the public node API (`root`, `node`,
/// `transitions`, `transition`, `transition_addr`, `find_input`, `is_final`,
/// `final_output`), as `fst dot` / `fst csv` do. Iterative (long keys).
pub fn walk_nodes<D: AsRef<[u8]>>(f: &fst::raw::Fst<D>, limit: usize) -> Result<Vec<Kv>, String> {
    let mut out: Vec<Kv> = vec![];
    // stack of (node address, next transition index, output so far)
    let mut stack: Vec<(usize, usize, u64)> = vec![];
    let mut key: Vec<u8> = vec![];
    let root = f.root();
    if root.is_final() {
        out.push((vec![], root.final_output().value()));
    }
    stack.push((root.addr(), 0, 0));
    while let Some(top) = stack.last_mut() {
        let node = f.node(top.0);
        if top.1 >= node.len() {
            stack.pop();
            key.pop();
            continue;
        }
        let i = top.1;
        top.1 += 1;
        let acc = top.2;
        let t = node.transition(i);
        if node.transition_addr(i) != t.addr || node.find_input(t.inp) != Some(i) || node.transitions().nth(i).map(|x| (x.inp, x.addr)) != Some((t.inp, t.addr)) {
            return Err(format!("node {}: transition({}) / transition_addr / find_input / transitions() disagree", top.0, i));
        }
        let v = acc + t.out.value();
        key.push(t.inp);
        let child = f.node(t.addr);
        if child.is_final() {
            out.push((key.clone(), v + child.final_output().value()));
            if out.len() > limit {
                return Err("node walk does not end".into());
            }
        }
        stack.push((t.addr, 0, v));
    }
    Ok(out)
}

pub fn front_from(s: &str) -> Front {
    *ALL_FRONTS.iter().find(|f| format!("{:?}", f) == s).expect("front name")
}

pub fn geom_from(v: &Value) -> Geom {
    (v[0].as_u64().unwrap() as usize, v[1].as_u64().unwrap() as usize)
}

/// Splits `0..total` into about `parts` contiguous ranges.
pub fn ranges(total: u64, parts: u64) -> Vec<(u64, u64)> {
    let parts = parts.max(1).min(total.max(1));
    let step = (total + parts - 1) / parts;
    let mut v = vec![];
    let mut a = 0;
    while a < total {
        v.push((a, (a + step).min(total)));
        a += step;
    }
    v
}

/// Patterns applicable to a key sequence of length n (distinct value vectors
/// for n >= 2).
pub fn patterns_for(n: usize, all: bool) -> Vec<Pat> {
    let mut v = vec![Pat::Zero, Pat::Lin3, Pat::Boundary(0)];
    if all {
        v.extend([Pat::Idx, Pat::Const7, Pat::Dec, Pat::MaxMinus, Pat::Boundary(5), Pat::Boundary(11)]);
        for p in 0..n {
            v.push(Pat::MaxAt(p));
        }
    } else {
        v.push(Pat::MaxMinus);
        if n > 0 {
            v.push(Pat::MaxAt(n - 1));
        }
    }
    v
}
