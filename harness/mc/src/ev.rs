//! Driver shared by all checks: unit scheduling over the cores, statistics,
//! violation collection, replay files, known findings, evidence files.

use std::collections::{BTreeMap, BTreeSet};
use std::panic::{catch_unwind, AssertUnwindSafe};
use std::sync::atomic::{AtomicBool, AtomicUsize, Ordering};
use std::sync::Mutex;
use std::time::Instant;

use serde_json::{json, Value};

/// Root of the verification tree (set by the `check` wrapper; a snapshot run
/// by `vp run` writes its evidence and replays into the snapshot).
pub fn verif_dir() -> String {
    std::env::var("VERIF_DIR").unwrap_or_else(|_| "/verif".to_string())
}

#[derive(Clone, Copy, Debug, PartialEq, Eq)]
pub enum Tier {
    Quick,
    Thorough,
}

impl Tier {
    pub fn name(self) -> &'static str {
        match self {
            Tier::Quick => "quick",
            Tier::Thorough => "thorough",
        }
    }
    pub fn thorough(self) -> bool {
        self == Tier::Thorough
    }
}

/// Per-worker statistics, merged at the end.
#[derive(Default, Debug)]
pub struct Stats {
    /// States in which the oracle was evaluated.
    pub states: u64,
    /// Real API calls replayed / communications fired.
    pub transitions: u64,
    /// Complete executions of the implementation that were compared.
    pub evals: u64,
    /// Distinct cases that exercise the mechanism of the property.
    pub nontrivial: u64,
    pub counters: BTreeMap<String, u64>,
    pub samples: Vec<Value>,
    /// Hashes of distinct observed outcomes (capped).
    pub outcomes: BTreeSet<u64>,
}

impl Stats {
    pub fn count(&mut self, name: &str, n: u64) {
        *self.counters.entry(name.to_string()).or_insert(0) += n;
    }
    pub fn max(&mut self, name: &str, n: u64) {
        let e = self.counters.entry(name.to_string()).or_insert(0);
        if n > *e {
            *e = n;
        }
    }
    pub fn sample(&mut self, v: impl FnOnce() -> Value) {
        if self.samples.len() < 3 {
            self.samples.push(v());
        }
    }
    pub fn outcome(&mut self, h: u64) {
        if self.outcomes.len() < 2_000_000 {
            self.outcomes.insert(h);
        }
    }
    fn merge(&mut self, o: Stats) {
        self.states += o.states;
        self.transitions += o.transitions;
        self.evals += o.evals;
        self.nontrivial += o.nontrivial;
        for (k, v) in o.counters {
            if k.starts_with("max_") {
                let e = self.counters.entry(k).or_insert(0);
                if v > *e {
                    *e = v;
                }
            } else {
                *self.counters.entry(k).or_insert(0) += v;
            }
        }
        for s in o.samples {
            if self.samples.len() < 12 {
                self.samples.push(s);
            }
        }
        for h in o.outcomes {
            if self.outcomes.len() < 4_000_000 {
                self.outcomes.insert(h);
            }
        }
    }
}

#[derive(Clone, Debug)]
pub struct Violation {
    /// Stable identification of the failing case (used for known findings).
    pub key: String,
    pub msg: String,
    /// Literal replayable case.
    pub case: Value,
}

pub struct Reporter {
    pub id: &'static str,
    violations: Mutex<Vec<Violation>>,
    stop: AtomicBool,
    cap: usize,
}

impl Reporter {
    pub fn new(id: &'static str) -> Reporter {
        Reporter {
            id,
            violations: Mutex::new(vec![]),
            stop: AtomicBool::new(false),
            cap: 40,
        }
    }
    pub fn violation(&self, key: String, msg: String, case: Value) {
        let mut g = self.violations.lock().unwrap();
        if g.len() < self.cap {
            g.push(Violation { key, msg, case });
        }
        if g.len() >= self.cap {
            self.stop.store(true, Ordering::SeqCst);
        }
    }
    pub fn stopped(&self) -> bool {
        self.stop.load(Ordering::Relaxed)
    }
    pub fn count(&self) -> usize {
        self.violations.lock().unwrap().len()
    }
}

pub type UnitFn = Box<dyn Fn(&mut Stats, &Reporter) + Send + Sync>;

pub struct Unit {
    pub name: String,
    pub scope: String,
    pub run: UnitFn,
}

pub fn unit(
    scope: &str,
    name: String,
    f: impl Fn(&mut Stats, &Reporter) + Send + Sync + 'static,
) -> Unit {
    Unit { name, scope: scope.to_string(), run: Box::new(f) }
}

pub struct Plan {
    pub id: &'static str,
    pub level: &'static str,
    pub rule: String,
    pub assumptions: Vec<String>,
    pub units: Vec<Unit>,
    /// Is the union of the named scopes a finite space that is enumerated
    /// completely (when no cap is hit)?
    pub exhaustive: bool,
    /// Extra key/values for the coverage object (scopes, bounds ...).
    pub extra: BTreeMap<String, Value>,
    /// Name of a counter that must be non-zero (vacuity guard that cannot be
    /// caused by a change in /repo), if any.
    pub must_be_nonzero: Vec<String>,
    /// Checks executed after all units (e.g. cross-unit comparisons).
    pub finish: Option<Box<dyn FnOnce(&mut Stats, &Reporter)>>,
    pub finish_extra: Vec<Box<dyn FnOnce(&mut Stats, &Reporter)>>,
}

impl Plan {
    pub fn new(id: &'static str, level: &'static str) -> Plan {
        Plan {
            id,
            level,
            rule: String::new(),
            assumptions: vec![],
            units: vec![],
            exhaustive: true,
            extra: BTreeMap::new(),
            must_be_nonzero: vec![],
            finish: None,
            finish_extra: vec![],
        }
    }
}

thread_local! {
    static OBS: std::cell::RefCell<BTreeSet<u64>> = std::cell::RefCell::new(BTreeSet::new());
}

/// Records one observed outcome (hash) from anywhere inside a unit.
pub fn obs(h: u64) {
    OBS.with(|o| {
        let mut o = o.borrow_mut();
        if o.len() < 200_000 {
            o.insert(h);
        }
    });
}

/// Hash of a result list, for `obs`.
pub fn hash_kvs(kvs: &[(Vec<u8>, u64)]) -> u64 {
    let mut h: u64 = 0xcbf29ce484222325;
    for (k, v) in kvs {
        for &b in k {
            h = (h ^ b as u64).wrapping_mul(0x100000001b3);
        }
        h = (h ^ 0xff).wrapping_mul(0x100000001b3);
        h = (h ^ *v).wrapping_mul(0x100000001b3);
    }
    h
}

thread_local! {
    static LAST_PANIC: std::cell::RefCell<String> = std::cell::RefCell::new(String::new());
}

pub fn install_quiet_panic_hook() {
    std::panic::set_hook(Box::new(|info| {
        let msg = format!("{}", info);
        LAST_PANIC.with(|p| *p.borrow_mut() = msg);
    }));
}

pub fn last_panic() -> String {
    LAST_PANIC.with(|p| p.borrow().clone())
}

/// Runs `f`, turning a panic into `Err(message)`.
pub fn guard<T>(f: impl FnOnce() -> T) -> Result<T, String> {
    match catch_unwind(AssertUnwindSafe(f)) {
        Ok(v) => Ok(v),
        Err(_) => Err(format!("panic: {}", last_panic())),
    }
}

pub fn hex(b: &[u8]) -> String {
    let mut s = String::with_capacity(b.len() * 2);
    for x in b {
        s.push_str(&format!("{:02x}", x));
    }
    s
}

pub fn unhex(s: &str) -> Vec<u8> {
    (0..s.len() / 2)
        .map(|i| u8::from_str_radix(&s[2 * i..2 * i + 2], 16).expect("hex"))
        .collect()
}

pub fn fnv(data: &[u8]) -> u64 {
    let mut h: u64 = 0xcbf29ce484222325;
    for &b in data {
        h ^= b as u64;
        h = h.wrapping_mul(0x100000001b3);
    }
    h
}

pub fn seed() -> u64 {
    std::env::var("VERIF_SEED").ok().and_then(|s| s.parse().ok()).unwrap_or(0)
}

fn known_findings() -> Vec<Value> {
    let p = format!("{}/known_findings.json", verif_dir());
    match std::fs::read_to_string(&p) {
        Ok(s) => match serde_json::from_str::<Value>(&s) {
            Ok(v) => v["findings"].as_array().cloned().unwrap_or_default(),
            Err(e) => {
                eprintln!("machinery: cannot parse {}: {}", p, e);
                std::process::exit(2);
            }
        },
        Err(_) => vec![],
    }
}

pub fn wall_cap_s(tier: Tier) -> u64 {
    let d = if tier.thorough() { 3 * 3600 } else { 900 };
    std::env::var("VERIF_WALL_CAP_S").ok().and_then(|s| s.parse().ok()).unwrap_or(d)
}

/// Runs a plan and exits the process with the interface's exit code.
pub fn drive(plan: Plan, tier: Tier) -> ! {
    let t0 = Instant::now();
    let rep = Reporter::new(plan.id);
    let nunits = plan.units.len();
    let next = AtomicUsize::new(0);
    let total = Mutex::new(Stats::default());
    let done_scopes: Mutex<BTreeMap<String, (u64, u64)>> = Mutex::new(BTreeMap::new());
    let capped = AtomicBool::new(false);
    let cap = wall_cap_s(tier);
    let nthreads = std::env::var("VERIF_THREADS")
        .ok()
        .and_then(|s| s.parse().ok())
        .unwrap_or_else(|| std::thread::available_parallelism().map(|n| n.get()).unwrap_or(4))
        .min(nunits.max(1));
    for u in &plan.units {
        done_scopes.lock().unwrap().entry(u.scope.clone()).or_insert((0, 0)).1 += 1;
    }
    std::thread::scope(|s| {
        for _ in 0..nthreads {
            s.spawn(|| {
                install_quiet_panic_hook();
                let mut st = Stats::default();
                loop {
                    let i = next.fetch_add(1, Ordering::SeqCst);
                    if i >= nunits || rep.stopped() {
                        break;
                    }
                    if t0.elapsed().as_secs() > cap {
                        capped.store(true, Ordering::SeqCst);
                        break;
                    }
                    let u = &plan.units[i];
                    let tu = Instant::now();
                    let r = catch_unwind(AssertUnwindSafe(|| (u.run)(&mut st, &rep)));
                    if std::env::var_os("VERIF_UNIT_TIMES").is_some() {
                        eprintln!("UNIT {:8.3}s {} :: {}", tu.elapsed().as_secs_f64(), u.scope, u.name);
                    }
                    OBS.with(|o| {
                        for h in std::mem::take(&mut *o.borrow_mut()) {
                            st.outcome(h);
                        }
                    });
                    if r.is_err() {
                        rep.violation(
                            format!("unit-panic {}", u.name),
                            format!("panic while exploring unit {}: {}", u.name, last_panic()),
                            json!({"unit": u.name}),
                        );
                    } else if !rep.stopped() {
                        done_scopes.lock().unwrap().get_mut(&u.scope).unwrap().0 += 1;
                    }
                }
                total.lock().unwrap().merge(st);
            });
        }
    });
    install_quiet_panic_hook();
    let mut st = total.into_inner().unwrap();
    if let Some(f) = plan.finish {
        f(&mut st, &rep);
    }
    for f in plan.finish_extra {
        f(&mut st, &rep);
    }
    let pz = crate::poison::TOTAL.load(Ordering::Relaxed);
    if pz > 0 {
        st.counters.insert("unhappy_history_prologues_run_before_builds".into(), pz);
    }
    finish_run(
        plan.id,
        plan.level,
        tier,
        st,
        &rep,
        plan.rule,
        plan.assumptions,
        plan.exhaustive,
        plan.extra,
        plan.must_be_nonzero,
        done_scopes.into_inner().unwrap(),
        capped.load(Ordering::SeqCst),
        t0,
    )
}

#[allow(clippy::too_many_arguments)]
pub fn finish_run(
    id: &'static str,
    level: &'static str,
    tier: Tier,
    st: Stats,
    rep: &Reporter,
    rule: String,
    assumptions: Vec<String>,
    exhaustive: bool,
    extra: BTreeMap<String, Value>,
    must_be_nonzero: Vec<String>,
    scopes: BTreeMap<String, (u64, u64)>,
    capped: bool,
    t0: Instant,
) -> ! {
    // Violations: dedup by key, sort, split into known and new.
    let mut vs = rep.violations.lock().unwrap().clone();
    vs.sort_by(|a, b| (a.key.len(), &a.key).cmp(&(b.key.len(), &b.key)));
    vs.dedup_by(|a, b| a.key == b.key);
    let known = known_findings();
    let mut new_violations = vec![];
    let mut known_hits = vec![];
    for v in vs {
        let hit = known.iter().find(|k| {
            k["status"] == "known" && k["property"] == id && k["key"].as_str() == Some(&v.key)
        });
        match hit {
            Some(k) => known_hits.push((v, k.clone())),
            None => new_violations.push(v),
        }
    }
    let _ = std::fs::create_dir_all(format!("{}/replays", verif_dir()));
    let mut lines = vec![];
    for (i, v) in new_violations.iter().enumerate() {
        let path = format!("{}/replays/{}-{}-{}.json", verif_dir(), id, tier.name(), i);
        let body = json!({"property": id, "key": v.key, "message": v.msg, "case": v.case});
        std::fs::write(&path, serde_json::to_string_pretty(&body).unwrap()).ok();
        if i < 10 {
            lines.push(format!("VIOLATION property={} replay={}", id, path));
            eprintln!("  [{}] {} :: {}", id, v.key, v.msg);
        }
    }
    for (v, k) in &known_hits {
        println!(
            "KNOWN-FINDING: property={} {} ({})",
            id,
            v.key,
            k["what"].as_str().unwrap_or("")
        );
    }
    // Vacuity guards.
    let mut machinery_error = None;
    if new_violations.is_empty() && !capped {
        for c in &must_be_nonzero {
            if st.counters.get(c).copied().unwrap_or(0) == 0 {
                machinery_error = Some(format!("vacuity guard: counter {} is zero", c));
            }
        }
        if st.evals == 0 {
            machinery_error = Some("no evaluations".to_string());
        }
    }
    let complete: Vec<String> =
        scopes.iter().filter(|(_, (d, n))| d == n).map(|(s, _)| s.clone()).collect();
    let incomplete: Vec<String> =
        scopes.iter().filter(|(_, (d, n))| d != n).map(|(s, _)| s.clone()).collect();
    let mut cov = serde_json::Map::new();
    cov.insert("states".into(), json!(st.states.max(1)));
    cov.insert("transitions".into(), json!(st.transitions.max(1)));
    cov.insert("traces_validated_against_impl".into(), json!(st.evals));
    cov.insert("evaluations".into(), json!(st.evals.max(1)));
    cov.insert("distinct_nontrivial".into(), json!(st.nontrivial));
    cov.insert("distinct_outcomes".into(), json!(st.outcomes.len()));
    cov.insert("rule".into(), json!(rule));
    let mut samples = st.samples.clone();
    if samples.is_empty() {
        samples.push(json!("no sample recorded"));
    }
    // VERIF_SEED only rotates which samples are listed first.
    let r = (seed() as usize) % samples.len();
    samples.rotate_left(r);
    cov.insert("samples".into(), json!(samples));
    cov.insert(
        "exhaustive".into(),
        json!(exhaustive && !capped && incomplete.is_empty() && new_violations.is_empty()),
    );
    cov.insert("scopes_completed".into(), json!(complete));
    cov.insert("scopes_incomplete".into(), json!(incomplete));
    cov.insert("caps_hit".into(), json!(capped));
    cov.insert("counters".into(), json!(st.counters));
    for (k, v) in extra {
        cov.insert(k, v);
    }
    let ev = json!({
        "property_id": id,
        "tier": tier.name(),
        "seed": seed(),
        "level": level,
        "coverage": Value::Object(cov),
        "assumptions": assumptions,
        "wall_s": t0.elapsed().as_secs_f64(),
        "violations": new_violations.len(),
        "known_findings_hit": known_hits.len(),
    });
    let _ = std::fs::create_dir_all(format!("{}/evidence", verif_dir()));
    let evp = format!("{}/evidence/{}.json", verif_dir(), id);
    if let Err(e) = std::fs::write(&evp, serde_json::to_string_pretty(&ev).unwrap() + "\n") {
        eprintln!("machinery: cannot write {}: {}", evp, e);
        std::process::exit(2);
    }
    println!(
        "{} {}: states={} transitions={} executions={} nontrivial={} outcomes={} wall={:.1}s capped={}",
        id,
        tier.name(),
        st.states,
        st.transitions,
        st.evals,
        st.nontrivial,
        st.outcomes.len(),
        t0.elapsed().as_secs_f64(),
        capped
    );
    for (k, v) in &st.counters {
        println!("  {} = {}", k, v);
    }
    for l in &lines {
        println!("{}", l);
    }
    if !lines.is_empty() {
        std::process::exit(1);
    }
    if let Some(e) = machinery_error {
        eprintln!("machinery: {}", e);
        std::process::exit(2);
    }
    if capped && tier == Tier::Quick {
        eprintln!("machinery: wall-clock cap hit in the quick tier");
        std::process::exit(2);
    }
    std::process::exit(0)
}

/// Replays one case twice and compares the observations.
pub fn drive_replay(
    id: &'static str,
    path: &str,
    f: impl Fn(&Value) -> Result<String, String>,
) -> ! {
    install_quiet_panic_hook();
    let s = std::fs::read_to_string(path).unwrap_or_else(|e| {
        eprintln!("machinery: cannot read {}: {}", path, e);
        std::process::exit(2)
    });
    let v: Value = serde_json::from_str(&s).unwrap_or_else(|e| {
        eprintln!("machinery: cannot parse {}: {}", path, e);
        std::process::exit(2)
    });
    let case = &v["case"];
    let a = guard(|| f(case)).unwrap_or_else(Err);
    let b = guard(|| f(case)).unwrap_or_else(Err);
    if a != b {
        eprintln!("machinery: replay is not deterministic:\n  first : {:?}\n  second: {:?}", a, b);
        std::process::exit(2);
    }
    match a {
        Ok(obs) => {
            println!("replay {}: property holds on this case ({})", id, obs);
            std::process::exit(0)
        }
        Err(msg) => {
            println!("replay {}: {}", id, msg);
            println!("VIOLATION property={} replay={}", id, path);
            std::process::exit(1)
        }
    }
}
