//! Independent decoder and encoder of the on-disk format, written from the
//! format description in DESIGN.md (section C09). Shares no code or table
//! with the `fst` crate; the common-input table below is a frozen literal.

use std::collections::{BTreeMap, HashMap};

use crate::crc::masked_crc32c;
use crate::model::Kv;

/// Common-input index 1..=63 -> input byte (index 0 = explicit input byte).
pub const COMMON: &[u8; 63] =
    b"te/oasripcnw.hlm-du012g=:bf3y5&_4v9678k%?xCDASFIBEjPTzRNM+LOqHG";

fn common_index(b: u8) -> u8 {
    match COMMON.iter().position(|&c| c == b) {
        Some(i) => (i + 1) as u8,
        None => 0,
    }
}

#[derive(Clone, Copy, Debug, PartialEq, Eq)]
pub enum Form {
    OneTransNext,
    OneTrans,
    AnyTrans,
}

#[derive(Clone, Debug, PartialEq, Eq)]
pub struct DNode {
    /// Address = offset of the state byte (last byte of the node).
    pub addr: usize,
    /// Offset of the first byte.
    pub start: usize,
    pub form: Form,
    pub is_final: bool,
    pub final_output: u64,
    /// (input, output, target address)
    pub trans: Vec<(u8, u64, usize)>,
    pub has_index: bool,
    pub tsize: usize,
    pub osize: usize,
}

#[derive(Clone, Debug)]
pub struct Decoded {
    pub version: u64,
    pub ty: u64,
    pub nkeys: u64,
    pub root: usize,
    pub checksum: Option<u32>,
    /// All tiled nodes by address.
    pub nodes: BTreeMap<usize, DNode>,
}

fn rd_u64(b: &[u8], at: usize) -> u64 {
    let mut v = 0u64;
    for i in 0..8 {
        v |= (b[at + i] as u64) << (8 * i);
    }
    v
}

fn rd_uint(b: &[u8], at: usize, n: usize) -> u64 {
    let mut v = 0u64;
    for i in 0..n {
        v |= (b[at + i] as u64) << (8 * i);
    }
    v
}

/// Parses the node whose state byte is at `addr`; `lo` is the first offset
/// that belongs to the body.
fn parse_node(b: &[u8], version: u64, addr: usize, lo: usize) -> Result<DNode, String> {
    let need = |start: isize| -> Result<usize, String> {
        if start < lo as isize {
            Err(format!("node at {} extends below the body start {}", addr, lo))
        } else {
            Ok(start as usize)
        }
    };
    let s = b[addr];
    let a = addr as isize;
    match s >> 6 {
        0b11 => {
            let c = s & 0x3f;
            let (input, start) = if c == 0 {
                let st = need(a - 1)?;
                (b[st], st)
            } else {
                (COMMON[(c - 1) as usize], addr)
            };
            if start < lo + 1 {
                return Err(format!("one-trans-next node at {} has no previous node", addr));
            }
            Ok(DNode {
                addr,
                start,
                form: Form::OneTransNext,
                is_final: false,
                final_output: 0,
                trans: vec![(input, 0, start - 1)],
                has_index: false,
                tsize: 0,
                osize: 0,
            })
        }
        0b10 => {
            let c = s & 0x3f;
            let ilen = if c == 0 { 1 } else { 0 };
            let szat = need(a - ilen - 1)?;
            let t = (b[szat] >> 4) as usize;
            let o = (b[szat] & 0x0f) as usize;
            if t < 1 || t > 8 || o > 8 {
                return Err(format!("one-trans node at {}: bad sizes byte {:#x}", addr, b[szat]));
            }
            let start = need(a - ilen - 1 - t as isize - o as isize)?;
            let input = if c == 0 { b[addr - 1] } else { COMMON[(c - 1) as usize] };
            let out = rd_uint(b, start, o);
            let delta = rd_uint(b, start + o, t) as usize;
            let target = if delta == 0 {
                0
            } else {
                start.checked_sub(delta).ok_or_else(|| format!("node {}: delta below 0", addr))?
            };
            Ok(DNode {
                addr,
                start,
                form: Form::OneTrans,
                is_final: false,
                final_output: 0,
                trans: vec![(input, out, target)],
                has_index: false,
                tsize: t,
                osize: o,
            })
        }
        _ => {
            let is_final = s & 0x40 != 0;
            let mut n = (s & 0x3f) as usize;
            let nlen = if n == 0 { 1isize } else { 0 };
            if n == 0 {
                let at = need(a - 1)?;
                n = b[at] as usize;
                if n == 1 {
                    n = 256;
                }
            }
            let szat = need(a - nlen - 1)?;
            let t = (b[szat] >> 4) as usize;
            let o = (b[szat] & 0x0f) as usize;
            if t > 8 || o > 8 || (n > 0 && t == 0) {
                return Err(format!("any-trans node at {}: bad sizes byte {:#x}", addr, b[szat]));
            }
            let has_index = version >= 2 && n > 32;
            let index = if has_index { 256isize } else { 0 };
            let idx_start = a - nlen - 1 - index;
            let inp_start = idx_start - n as isize;
            let delta_start = inp_start - (n * t) as isize;
            let out_start = delta_start - (n * o) as isize;
            let start = need(out_start - if is_final { o as isize } else { 0 })?;
            let mut trans = Vec::with_capacity(n);
            for i in 0..n {
                let r = n - 1 - i;
                let input = b[inp_start as usize + r];
                let delta = rd_uint(b, delta_start as usize + r * t, t) as usize;
                let out = rd_uint(b, out_start as usize + r * o, o);
                let target = if delta == 0 {
                    0
                } else {
                    start
                        .checked_sub(delta)
                        .ok_or_else(|| format!("node {}: delta below 0", addr))?
                };
                trans.push((input, out, target));
            }
            for w in trans.windows(2) {
                if w[0].0 >= w[1].0 {
                    return Err(format!("node {}: inputs not strictly increasing", addr));
                }
            }
            if has_index {
                let idx = &b[idx_start as usize..idx_start as usize + 256];
                for byte in 0..256usize {
                    let want = trans.iter().position(|t| t.0 as usize == byte);
                    let got = idx[byte] as usize;
                    match want {
                        Some(i) => {
                            if got != i {
                                return Err(format!(
                                    "node {}: index[{}] = {} but the transition is {}",
                                    addr, byte, got, i
                                ));
                            }
                        }
                        None => {
                            if got < n {
                                return Err(format!(
                                    "node {}: index[{}] = {} for an absent input",
                                    addr, byte, got
                                ));
                            }
                        }
                    }
                }
            }
            let final_output = if is_final { rd_uint(b, start, o) } else { 0 };
            Ok(DNode {
                addr,
                start,
                form: Form::AnyTrans,
                is_final,
                final_output,
                trans,
                has_index,
                tsize: t,
                osize: o,
            })
        }
    }
}

/// Decodes and checks well-formedness: header, footer, tiling, targets.
pub fn decode(b: &[u8]) -> Result<Decoded, String> {
    if b.len() < 32 {
        return Err(format!("too short: {}", b.len()));
    }
    let version = rd_u64(b, 0);
    if version == 0 || version > 3 {
        return Err(format!("unsupported version {}", version));
    }
    let ty = rd_u64(b, 8);
    let (end, checksum) = if version >= 3 {
        if b.len() < 36 {
            return Err(format!("too short for version 3: {}", b.len()));
        }
        let c = rd_uint(b, b.len() - 4, 4) as u32;
        (b.len() - 4, Some(c))
    } else {
        (b.len(), None)
    };
    let root = rd_u64(b, end - 8) as usize;
    let nkeys = rd_u64(b, end - 16);
    let lo = 16usize;
    let hi = end - 16; // body = [lo, hi)
    if let Some(c) = checksum {
        let want = masked_crc32c(&b[..b.len() - 4]);
        if want != c {
            return Err(format!("checksum {:#x} != reference {:#x}", c, want));
        }
    }
    let mut nodes = BTreeMap::new();
    if hi == lo {
        if root != 0 {
            return Err(format!("empty body but root address {}", root));
        }
    } else {
        if root != hi - 1 {
            return Err(format!("root address {} is not the last body byte {}", root, hi - 1));
        }
        let mut addr = hi - 1;
        loop {
            let n = parse_node(b, version, addr, lo)?;
            let start = n.start;
            nodes.insert(addr, n);
            if start == lo {
                break;
            }
            addr = start - 1;
        }
        for n in nodes.values() {
            for &(_, _, tgt) in &n.trans {
                if tgt != 0 {
                    if !nodes.contains_key(&tgt) {
                        return Err(format!(
                            "node {}: target {} is not the address of a node",
                            n.addr, tgt
                        ));
                    }
                    if tgt >= n.start {
                        return Err(format!("node {}: target {} is not earlier", n.addr, tgt));
                    }
                }
            }
        }
    }
    Ok(Decoded { version, ty, nkeys, root, checksum, nodes })
}

impl Decoded {
    /// Depth-first reading from the root: the map the file denotes.
    pub fn enumerate(&self) -> Result<Vec<Kv>, String> {
        let mut out = vec![];
        let mut key = vec![];
        self.walk(self.root, 0, &mut key, &mut out)?;
        Ok(out)
    }

    fn walk(&self, addr: usize, acc: u64, key: &mut Vec<u8>, out: &mut Vec<Kv>) -> Result<(), String> {
        if addr == 0 {
            out.push((key.clone(), acc));
            return Ok(());
        }
        let n = self.nodes.get(&addr).ok_or_else(|| format!("no node at {}", addr))?;
        if n.is_final {
            let v = acc.checked_add(n.final_output).ok_or("output overflow")?;
            out.push((key.clone(), v));
        }
        if key.len() > 100_000 {
            return Err("key too long (cycle?)".into());
        }
        for &(inp, o, tgt) in &n.trans {
            key.push(inp);
            let v = acc.checked_add(o).ok_or("output overflow")?;
            self.walk(tgt, v, key, out)?;
            key.pop();
        }
        Ok(())
    }

    /// Canonical content of a node for equivalence comparison.
    pub fn signature(n: &DNode) -> (bool, u64, Vec<(u8, u64, usize)>) {
        (n.is_final, n.final_output, n.trans.clone())
    }
}

// ---------------------------------------------------------------------------
// Independent encoder
// ---------------------------------------------------------------------------

#[derive(Clone, Copy, Debug, PartialEq, Eq)]
pub enum Layout {
    /// No sharing at all: one node per trie node.
    Trie,
    /// Full suffix sharing (bottom-up signature hashing).
    Shared,
}

#[derive(Clone, Debug)]
struct TNode {
    is_final: bool,
    value: u64, // value of the key ending here (if final)
    min: u64,   // minimum value in the subtree
    children: Vec<(u8, usize)>,
}

fn pack_size(n: u64) -> usize {
    let mut s = 1;
    while s < 8 && n >> (8 * s) != 0 {
        s += 1;
    }
    s
}

fn put_uint(out: &mut Vec<u8>, v: u64, n: usize) {
    for i in 0..n {
        out.push((v >> (8 * i)) as u8);
    }
}

pub struct EncodeOpts {
    pub version: u64,
    pub ty: u64,
    pub layout: Layout,
    /// Never use the two single-transition forms.
    pub any_trans_only: bool,
}

/// Encodes `kvs` (strictly increasing keys) in the given format version.
pub fn encode(kvs: &[Kv], opts: &EncodeOpts) -> Vec<u8> {
    // 1. trie
    let mut t: Vec<TNode> =
        vec![TNode { is_final: false, value: 0, min: u64::MAX, children: vec![] }];
    for (k, v) in kvs {
        let mut cur = 0usize;
        t[0].min = t[0].min.min(*v);
        for &b in k {
            let next = match t[cur].children.iter().find(|c| c.0 == b) {
                Some(c) => c.1,
                None => {
                    t.push(TNode { is_final: false, value: 0, min: u64::MAX, children: vec![] });
                    let id = t.len() - 1;
                    t[cur].children.push((b, id));
                    id
                }
            };
            cur = next;
            t[cur].min = t[cur].min.min(*v);
        }
        t[cur].is_final = true;
        t[cur].value = *v;
    }
    // 2. emit bottom-up
    let mut out: Vec<u8> = vec![];
    put_uint(&mut out, opts.version, 8);
    put_uint(&mut out, opts.ty, 8);
    let mut memo: HashMap<(bool, u64, Vec<(u8, u64, usize)>), usize> = HashMap::new();
    let mut last_addr: usize = usize::MAX;
    // iterative post-order
    fn emit(
        t: &[TNode],
        id: usize,
        is_root: bool,
        opts: &EncodeOpts,
        out: &mut Vec<u8>,
        memo: &mut HashMap<(bool, u64, Vec<(u8, u64, usize)>), usize>,
        last_addr: &mut usize,
    ) -> usize {
        let base = if is_root { 0 } else { t[id].min };
        let mut trans: Vec<(u8, u64, usize)> = vec![];
        for &(b, c) in &t[id].children {
            let a = emit(t, c, false, opts, out, memo, last_addr);
            trans.push((b, t[c].min - base, a));
        }
        let is_final = t[id].is_final;
        let fout = if is_final { t[id].value - base } else { 0 };
        if is_final && trans.is_empty() && fout == 0 {
            return 0;
        }
        let sig = (is_final, fout, trans.clone());
        if opts.layout == Layout::Shared {
            if let Some(&a) = memo.get(&sig) {
                return a;
            }
        }
        let start = out.len();
        let delta = |tgt: usize| if tgt == 0 { 0u64 } else { (start - tgt) as u64 };
        if trans.len() == 1 && !is_final && !opts.any_trans_only {
            let (inp, o, tgt) = trans[0];
            let c = common_index(inp);
            if o == 0 && tgt == *last_addr && tgt != 0 {
                if c == 0 {
                    out.push(inp);
                }
                out.push(0b1100_0000 | c);
            } else {
                let osz = if o == 0 { 0 } else { pack_size(o) };
                let tsz = pack_size(delta(tgt));
                put_uint(out, o, osz);
                put_uint(out, delta(tgt), tsz);
                out.push(((tsz as u8) << 4) | osz as u8);
                if c == 0 {
                    out.push(inp);
                }
                out.push(0b1000_0000 | c);
            }
        } else {
            let n = trans.len();
            let any_out = fout != 0 || trans.iter().any(|x| x.1 != 0);
            let osz = if any_out {
                trans.iter().map(|x| pack_size(x.1)).chain(Some(pack_size(fout))).max().unwrap()
            } else {
                0
            };
            let tsz = trans.iter().map(|x| pack_size(delta(x.2))).max().unwrap_or(0);
            if any_out {
                if is_final {
                    put_uint(out, fout, osz);
                }
                for x in trans.iter().rev() {
                    put_uint(out, x.1, osz);
                }
            }
            for x in trans.iter().rev() {
                put_uint(out, delta(x.2), tsz);
            }
            for x in trans.iter().rev() {
                out.push(x.0);
            }
            if opts.version >= 2 && n > 32 {
                let mut index = [255u8; 256];
                for (i, x) in trans.iter().enumerate() {
                    index[x.0 as usize] = i as u8;
                }
                out.extend_from_slice(&index);
            }
            out.push(((tsz as u8) << 4) | osz as u8);
            let mut state = if is_final { 0b0100_0000u8 } else { 0 };
            if n >= 1 && n <= 63 {
                state |= n as u8;
            } else {
                out.push(if n == 256 { 1 } else { n as u8 });
            }
            out.push(state);
        }
        let addr = out.len() - 1;
        *last_addr = addr;
        memo.insert(sig, addr);
        addr
    }
    let root = emit(&t, 0, true, opts, &mut out, &mut memo, &mut last_addr);
    put_uint(&mut out, kvs.len() as u64, 8);
    put_uint(&mut out, root as u64, 8);
    if opts.version >= 3 {
        let c = masked_crc32c(&out);
        put_uint(&mut out, c as u64, 4);
    }
    out
}

/// Number of nodes of the prefix trie of the keys (root included) and of the
/// minimal acyclic DFA of the key *set* (states, including the one for the
/// shared empty-final state if it exists).
pub fn trie_and_minimal_sizes(keys: &[Vec<u8>]) -> (usize, usize, bool) {
    #[derive(Default)]
    struct N {
        fin: bool,
        ch: Vec<(u8, usize)>,
    }
    let mut t: Vec<N> = vec![N::default()];
    for k in keys {
        let mut cur = 0;
        for &b in k {
            let nx = match t[cur].ch.iter().find(|c| c.0 == b) {
                Some(c) => c.1,
                None => {
                    t.push(N::default());
                    let id = t.len() - 1;
                    t[cur].ch.push((b, id));
                    id
                }
            };
            cur = nx;
        }
        t[cur].fin = true;
    }
    let mut classes: HashMap<(bool, Vec<(u8, usize)>), usize> = HashMap::new();
    fn sig(t: &[N], id: usize, classes: &mut HashMap<(bool, Vec<(u8, usize)>), usize>) -> usize {
        let mut v = vec![];
        for &(b, c) in &t[id].ch {
            v.push((b, sig(t, c, classes)));
        }
        let key = (t[id].fin, v);
        let n = classes.len();
        *classes.entry(key).or_insert(n)
    }
    sig(&t, 0, &mut classes);
    let has_empty_final = classes.contains_key(&(true, vec![]));
    (t.len(), classes.len(), has_empty_final)
}
