//! Explicit table DFAs over two byte classes with arbitrary (sound) pruning
//! hints, plus their exact reachability facts. Used as generated
//! contract-abiding automata (C04) and as component automata (C18).

use fst::Automaton;

#[derive(Clone, Copy, Debug, PartialEq, Eq)]
pub enum ClassFn {
    /// class 0 = byte 'a', class 1 = every other byte
    IsA,
    /// class 0 = byte < 0x80, class 1 = byte >= 0x80
    Lt80,
}

impl ClassFn {
    #[inline]
    pub fn class(self, b: u8) -> usize {
        match self {
            ClassFn::IsA => (b != b'a') as usize,
            ClassFn::Lt80 => (b >= 0x80) as usize,
        }
    }
}

#[derive(Clone, Debug, PartialEq, Eq)]
pub struct TableDfa {
    pub classes: ClassFn,
    /// delta[state][class]
    pub delta: Vec<[usize; 2]>,
    pub accept: Vec<bool>,
    /// what `can_match` answers in each state
    pub can: Vec<bool>,
    /// what `will_always_match` answers in each state
    pub always: Vec<bool>,
}

impl TableDfa {
    pub fn n(&self) -> usize {
        self.delta.len()
    }

    /// Independent run of the table over `key` from state 0.
    pub fn run(&self, key: &[u8]) -> usize {
        let mut s = 0;
        for &b in key {
            s = self.delta[s][self.classes.class(b)];
        }
        s
    }

    pub fn accepts(&self, key: &[u8]) -> bool {
        self.accept[self.run(key)]
    }

    /// reach[s] = some accepting state is reachable from s (in >= 0 steps).
    pub fn reach_accept(delta: &[[usize; 2]], accept: &[bool]) -> Vec<bool> {
        let n = delta.len();
        let mut r = accept.to_vec();
        loop {
            let mut ch = false;
            for s in 0..n {
                if !r[s] && (r[delta[s][0]] || r[delta[s][1]]) {
                    r[s] = true;
                    ch = true;
                }
            }
            if !ch {
                return r;
            }
        }
    }

    /// all[s] = every state reachable from s (in >= 0 steps) is accepting.
    pub fn all_accept(delta: &[[usize; 2]], accept: &[bool]) -> Vec<bool> {
        let neg: Vec<bool> = accept.iter().map(|a| !a).collect();
        Self::reach_accept(delta, &neg).into_iter().map(|x| !x).collect()
    }

    pub fn describe(&self) -> String {
        format!(
            "{:?} delta={:?} accept={:?} can={:?} always={:?}",
            self.classes, self.delta, self.accept, self.can, self.always
        )
    }
}

impl Automaton for TableDfa {
    type State = usize;
    fn start(&self) -> usize {
        0
    }
    fn is_match(&self, s: &usize) -> bool {
        self.accept[*s]
    }
    fn can_match(&self, s: &usize) -> bool {
        self.can[*s]
    }
    fn will_always_match(&self, s: &usize) -> bool {
        self.always[*s]
    }
    fn accept(&self, s: &usize, b: u8) -> usize {
        self.delta[*s][self.classes.class(b)]
    }
}

/// Every DFA with exactly `n` states (start = state 0) over two classes, with
/// every sound `can_match` assignment (true wherever an accepting state is
/// reachable, free elsewhere). If `vary_always`, additionally every sound
/// `will_always_match` assignment (false wherever a rejecting state is
/// reachable, free elsewhere); otherwise `will_always_match` is the default
/// (always false).
pub fn all_dfas(n: usize, classes: ClassFn, vary_always: bool) -> Vec<TableDfa> {
    let mut out = vec![];
    let ndelta = n.pow(2 * n as u32);
    for dcode in 0..ndelta {
        let mut c = dcode;
        let mut delta = vec![[0usize; 2]; n];
        for s in 0..n {
            for k in 0..2 {
                delta[s][k] = c % n;
                c /= n;
            }
        }
        for acode in 0..(1usize << n) {
            let accept: Vec<bool> = (0..n).map(|s| acode >> s & 1 == 1).collect();
            let reach = TableDfa::reach_accept(&delta, &accept);
            let alla = TableDfa::all_accept(&delta, &accept);
            let free_can: Vec<usize> = (0..n).filter(|&s| !reach[s]).collect();
            let free_al: Vec<usize> =
                if vary_always { (0..n).filter(|&s| alla[s]).collect() } else { vec![] };
            for cc in 0..(1usize << free_can.len()) {
                let mut can = reach.clone();
                for (i, &s) in free_can.iter().enumerate() {
                    can[s] = cc >> i & 1 == 1;
                }
                for ac in 0..(1usize << free_al.len()) {
                    let mut always = vec![false; n];
                    for (i, &s) in free_al.iter().enumerate() {
                        always[s] = ac >> i & 1 == 1;
                    }
                    out.push(TableDfa {
                        classes,
                        delta: delta.clone(),
                        accept: accept.clone(),
                        can: can.clone(),
                        always,
                    });
                }
            }
        }
    }
    out
}

/// A FINITE family of larger DFAs (3..8 states): member i is a fixed function
/// of i (transition table, accepting set and a randomly WEAKENED but sound
/// hint assignment: can_match true in some states that cannot reach acceptance,
/// will_always_match false in some states that always accept).
pub fn family_dfas(count: usize, classes: ClassFn) -> Vec<TableDfa> {
    let mix = crate::model::mix64;
    (0..count as u64)
        .map(|i| {
            let n = 3 + (i % 6) as usize;
            let mut delta = vec![[0usize; 2]; n];
            for s in 0..n {
                for k in 0..2 {
                    delta[s][k] = (mix(i * 64 + (s * 2 + k) as u64) % n as u64) as usize;
                }
            }
            let abits = mix(i ^ 0xabcdef) | if i % 5 == 0 { 0 } else { 1 << (i % n as u64) };
            let accept: Vec<bool> = (0..n).map(|s| abits >> s & 1 == 1 && (i % 7 != 0 || s != 0)).collect();
            let reach = TableDfa::reach_accept(&delta, &accept);
            let alla = TableDfa::all_accept(&delta, &accept);
            let w = mix(i ^ 0x5555);
            let can: Vec<bool> = (0..n).map(|s| reach[s] || w >> s & 1 == 1).collect();
            let always: Vec<bool> = (0..n).map(|s| alla[s] && w >> (8 + s) & 1 == 1).collect();
            TableDfa { classes, delta, accept, can, always }
        })
        .collect()
}
