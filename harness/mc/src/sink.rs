//! ENV engine: a scripted `io::Write` sink whose answer to every call is
//! decided by the explorer, and the deviation-bounded exploration of all
//! answer sequences.

use std::io;

#[derive(Clone, Copy, Debug, PartialEq, Eq)]
pub enum Ans {
    /// Accept the whole buffer (the default answer).
    All,
    /// Accept only the first n bytes (1 <= n < len).
    Short(usize),
    /// Return Err(Interrupted) without accepting anything.
    Interrupted,
    /// Return a hard error of the given kind.
    Fail(io::ErrorKind),
    /// Return Ok(0) from write.
    Zero,
}

#[derive(Clone, Copy, Debug, PartialEq, Eq)]
pub struct Call {
    pub is_flush: bool,
    pub len: usize,
    pub ans: Ans,
}

#[derive(Clone, Copy, Debug, PartialEq, Eq)]
pub enum Policy {
    Default,
    /// Accept at most c bytes per call.
    Cap(usize),
    /// Return Interrupted before every accepted call.
    InterruptEach,
    /// Both: cap c and Interrupted before every accepted call.
    CapInterrupt(usize),
    /// Never lets one write cross a multiple of p bytes of the output
    /// (page / frame / block oriented writers).
    Paged(usize),
    /// k consecutive Interrupted results before every accepted call.
    InterruptBurst(usize),
}

#[derive(Debug)]
pub struct ScriptSink {
    pub data: Vec<u8>,
    /// Deviations: (call index, answer). Must be sorted by call index.
    pub script: Vec<(usize, Ans)>,
    pub policy: Policy,
    pub calls: Vec<Call>,
    /// From this call index on every call fails with this answer.
    pub fail_from: Option<(usize, Ans)>,
    pub flushed_upto: usize,
    /// Number of `write_vectored` calls received (0 on the pinned tree: the
    /// builder only calls `write`).
    pub vectored_calls: usize,
    interrupt_toggle: bool,
    burst: usize,
}

impl ScriptSink {
    pub fn new(script: Vec<(usize, Ans)>, policy: Policy) -> ScriptSink {
        ScriptSink {
            data: vec![],
            script,
            policy,
            calls: vec![],
            fail_from: None,
            flushed_upto: 0,
            vectored_calls: 0,
            interrupt_toggle: false,
            burst: 0,
        }
    }

    fn scripted(&self, idx: usize) -> Option<Ans> {
        if let Some((from, a)) = self.fail_from {
            if idx >= from {
                return Some(a);
            }
        }
        self.script.iter().find(|(i, _)| *i == idx).map(|(_, a)| *a)
    }
}

impl ScriptSink {
    /// One write call over the logical buffer `buf` (for `write_vectored`
    /// the concatenation of the slices: this sink really gathers, like a
    /// file, pipe or socket does, and may stop anywhere inside any slice).
    fn write_logical(&mut self, buf: &[u8]) -> io::Result<usize> {
        let idx = self.calls.len();
        let mut ans = self.scripted(idx).unwrap_or(Ans::All);
        if ans == Ans::All {
            match self.policy {
                Policy::Default => {}
                Policy::Cap(c) => {
                    if buf.len() > c {
                        ans = Ans::Short(c);
                    }
                }
                Policy::Paged(p) => {
                    let room = p - (self.data.len() % p);
                    if buf.len() > room {
                        ans = Ans::Short(room);
                    }
                }
                Policy::InterruptBurst(k) => {
                    if self.burst < k {
                        self.burst += 1;
                        ans = Ans::Interrupted;
                    } else {
                        self.burst = 0;
                    }
                }
                Policy::InterruptEach | Policy::CapInterrupt(_) => {
                    self.interrupt_toggle = !self.interrupt_toggle;
                    if self.interrupt_toggle {
                        ans = Ans::Interrupted;
                    } else if let Policy::CapInterrupt(c) = self.policy {
                        if buf.len() > c {
                            ans = Ans::Short(c);
                        }
                    }
                }
            }
        }
        if let Ans::Short(n) = ans {
            // a script written for another run may not fit: that is a
            // divergence of the replayed prefix and a hard error
            assert!(n >= 1 && n < buf.len(), "ENV replay divergence: short write {} of {}", n, buf.len());
        }
        self.calls.push(Call { is_flush: false, len: buf.len(), ans });
        match ans {
            Ans::All => {
                self.data.extend_from_slice(buf);
                Ok(buf.len())
            }
            Ans::Short(n) => {
                let n = n.min(buf.len());
                self.data.extend_from_slice(&buf[..n]);
                Ok(n)
            }
            Ans::Interrupted => Err(io::Error::new(io::ErrorKind::Interrupted, "scripted interrupt")),
            Ans::Fail(k) => Err(io::Error::new(k, "scripted failure")),
            Ans::Zero => Ok(0),
        }
    }
}

impl io::Write for ScriptSink {
    fn write(&mut self, buf: &[u8]) -> io::Result<usize> {
        self.write_logical(buf)
    }

    fn write_vectored(&mut self, bufs: &[io::IoSlice<'_>]) -> io::Result<usize> {
        self.vectored_calls += 1;
        let all: Vec<u8> = bufs.iter().flat_map(|b| b.iter().cloned()).collect();
        self.write_logical(&all)
    }

    fn flush(&mut self) -> io::Result<()> {
        let idx = self.calls.len();
        let ans = self.scripted(idx).unwrap_or(Ans::All);
        self.calls.push(Call { is_flush: true, len: 0, ans });
        match ans {
            Ans::Fail(k) => Err(io::Error::new(k, "scripted flush failure")),
            Ans::Interrupted => Err(io::Error::new(io::ErrorKind::Interrupted, "scripted interrupt")),
            _ => {
                self.flushed_upto = self.data.len();
                Ok(())
            }
        }
    }
}

/// Deviation-bounded exploration. `run` executes the subject with the given
/// deviation script and returns the call log of that execution; it is called
/// for every answer sequence with at most `bound` deviations. A deviation at a
/// write call with buffer length n is any of the n-1 shorter acceptances or
/// Interrupted. `first_filter` restricts the call index of the first deviation
/// (for sharding). Returns the number of executions.
pub fn explore_deviations(
    bound: usize,
    first_filter: &dyn Fn(usize) -> bool,
    run: &mut dyn FnMut(&[(usize, Ans)]) -> Option<Vec<Call>>,
) -> u64 {
    fn rec(
        devs: &mut Vec<(usize, Ans)>,
        left: usize,
        first_filter: &dyn Fn(usize) -> bool,
        run: &mut dyn FnMut(&[(usize, Ans)]) -> Option<Vec<Call>>,
        count: &mut u64,
    ) {
        *count += 1;
        let calls = match run(devs) {
            Some(c) => c,
            None => return,
        };
        if left == 0 {
            return;
        }
        let from = devs.last().map(|d| d.0 + 1).unwrap_or(0);
        for i in from..calls.len() {
            if calls[i].is_flush {
                continue;
            }
            if devs.is_empty() && !first_filter(i) {
                continue;
            }
            let len = calls[i].len;
            for n in 1..len {
                devs.push((i, Ans::Short(n)));
                rec(devs, left - 1, first_filter, run, count);
                devs.pop();
            }
            devs.push((i, Ans::Interrupted));
            rec(devs, left - 1, first_filter, run, count);
            devs.pop();
        }
    }
    let mut count = 0;
    rec(&mut vec![], bound, first_filter, run, &mut count);
    count
}
