//! Bounded exhaustive exploration of the real `fst` code against reference
//! models. See /verif/DESIGN.md.

pub mod alloc;
pub mod codec;
pub mod crc;
pub mod dfa;
pub mod ev;
pub mod front;
pub mod model;
pub mod poison;
pub mod sink;
#[path = "../../../plain/src/scope.rs"]
pub mod plain_scope;

pub mod checks;
