//! Every way of constructing an FST that the properties mention, behind one
//! function, plus the read-back helpers.

use fst::raw::{self, Output};
use fst::{IntoStreamer, Map, MapBuilder, Set, SetBuilder, Streamer};

use crate::ev::guard;
use crate::model::{Key, Kv};

pub type Geom = (usize, usize);

pub const GEOMS: [Geom; 8] =
    [(0, 0), (1, 1), (1, 2), (2, 1), (2, 2), (1, 3), (3, 3), (10_000, 2)];
pub const DEFAULT_GEOM: Geom = (10_000, 2);

#[derive(Clone, Copy, Debug, PartialEq, Eq)]
pub enum Front {
    RawInsert,
    RawAdd,
    RawExtendIter,
    RawExtendStreamVec,
    RawExtendStreamFst,
    SetInsert,
    SetExtendIter,
    SetExtendStreamSet,
    SetExtendStreamUnion,
    SetFromIter,
    FstFromIterSet,
    MapInsert,
    MapExtendIter,
    MapExtendStreamMap,
    MapExtendStreamUnion,
    MapFromIter,
    FstFromIterMap,
    // ---- usage variants: the same accepted sequence, reached through a
    // ---- builder that is kept in use after rejected calls / fed by several
    // ---- bulk calls on an already populated builder
    RawInsertNoisy,
    MapInsertNoisy,
    SetInsertNoisy,
    RawMixedBulk,
    MapMixedBulk,
    SetMixedBulk,
    // ---- the memory() constructors and into_fst / into_map / into_set
    RawMemoryIntoFst,
    MapMemoryIntoMap,
    SetMemoryIntoSet,
}

pub const ALL_FRONTS: [Front; 26] = [
    Front::RawInsert,
    Front::RawAdd,
    Front::RawExtendIter,
    Front::RawExtendStreamVec,
    Front::RawExtendStreamFst,
    Front::SetInsert,
    Front::SetExtendIter,
    Front::SetExtendStreamSet,
    Front::SetExtendStreamUnion,
    Front::SetFromIter,
    Front::FstFromIterSet,
    Front::MapInsert,
    Front::MapExtendIter,
    Front::MapExtendStreamMap,
    Front::MapExtendStreamUnion,
    Front::MapFromIter,
    Front::FstFromIterMap,
    Front::RawInsertNoisy,
    Front::MapInsertNoisy,
    Front::SetInsertNoisy,
    Front::RawMixedBulk,
    Front::MapMixedBulk,
    Front::SetMixedBulk,
    Front::RawMemoryIntoFst,
    Front::MapMemoryIntoMap,
    Front::SetMemoryIntoSet,
];

impl Front {
    /// Front ends that can only build sets (all values zero).
    pub fn set_only(self) -> bool {
        matches!(
            self,
            Front::RawAdd
                | Front::SetInsert
                | Front::SetExtendIter
                | Front::SetExtendStreamSet
                | Front::SetExtendStreamUnion
                | Front::SetFromIter
                | Front::FstFromIterSet
                | Front::SetInsertNoisy
                | Front::SetMixedBulk
                | Front::SetMemoryIntoSet
        )
    }
    /// Front ends on which the cache geometry can be chosen (hook H1).
    pub fn takes_geom(self) -> bool {
        matches!(
            self,
            Front::RawInsert
                | Front::RawAdd
                | Front::RawExtendIter
                | Front::RawExtendStreamVec
                | Front::RawExtendStreamFst
                | Front::RawInsertNoisy
                | Front::RawMixedBulk
        )
    }
}

/// A plain user-written streamer over a vector (not backed by an FST).
pub struct VecStream<'v> {
    items: &'v [Kv],
    pos: usize,
}
impl<'v> VecStream<'v> {
    pub fn new(items: &'v [Kv]) -> VecStream<'v> {
        VecStream { items, pos: 0 }
    }
}
impl<'a, 'v> Streamer<'a> for VecStream<'v> {
    type Item = (&'a [u8], Output);
    fn next(&'a mut self) -> Option<(&'a [u8], Output)> {
        let i = self.pos;
        if i >= self.items.len() {
            return None;
        }
        self.pos += 1;
        Some((&self.items[i].0, Output::new(self.items[i].1)))
    }
}

/// User streamer yielding `(&[u8], u64)` (what MapBuilder::extend_stream takes).
pub struct VecStreamU64<'v> {
    items: &'v [Kv],
    pos: usize,
}
impl<'v> VecStreamU64<'v> {
    pub fn new(items: &'v [Kv]) -> VecStreamU64<'v> {
        VecStreamU64 { items, pos: 0 }
    }
}
impl<'a, 'v> Streamer<'a> for VecStreamU64<'v> {
    type Item = (&'a [u8], u64);
    fn next(&'a mut self) -> Option<(&'a [u8], u64)> {
        let i = self.pos;
        if i >= self.items.len() {
            return None;
        }
        self.pos += 1;
        Some((&self.items[i].0, self.items[i].1))
    }
}

/// User streamer yielding `&[u8]` (what SetBuilder::extend_stream takes).
pub struct VecStreamKeys<'v> {
    items: &'v [Kv],
    pos: usize,
}
impl<'v> VecStreamKeys<'v> {
    pub fn new(items: &'v [Kv]) -> VecStreamKeys<'v> {
        VecStreamKeys { items, pos: 0 }
    }
}
impl<'a, 'v> Streamer<'a> for VecStreamKeys<'v> {
    type Item = &'a [u8];
    fn next(&'a mut self) -> Option<&'a [u8]> {
        let i = self.pos;
        if i >= self.items.len() {
            return None;
        }
        self.pos += 1;
        Some(&self.items[i].0)
    }
}

/// Adapter: a map union whose keys are disjoint between the inputs, as a
/// `(&[u8], u64)` stream.
pub struct UnionFirst<'m>(pub fst::map::Union<'m>);
impl<'a, 'm> Streamer<'a> for UnionFirst<'m> {
    type Item = (&'a [u8], u64);
    fn next(&'a mut self) -> Option<(&'a [u8], u64)> {
        self.0.next().map(|(k, ivs)| (k, ivs[0].value))
    }
}

pub fn raw_builder<W: std::io::Write>(
    w: W,
    ty: u64,
    geom: Geom,
) -> fst::Result<raw::Builder<W>> {
    if geom == DEFAULT_GEOM {
        raw::Builder::new_type(w, ty)
    } else {
        raw::Builder::verif_new_with_registry(w, ty, geom.0, geom.1)
    }
}

fn e2s<T>(r: fst::Result<T>) -> Result<T, String> {
    r.map_err(|e| format!("error: {:?}", e))
}

/// Raw insert build that also reports the cache counters (evictions, rejections).
pub fn build_raw_counted(geom: Geom, ty: u64, kvs: &[Kv]) -> Result<(Vec<u8>, (u64, u64)), String> {
    crate::poison::maybe();
    guard(|| {
        // hook constructor always, so that the counters exist
        let mut b = e2s(raw::Builder::verif_new_with_registry(
            Vec::with_capacity(256),
            ty,
            geom.0,
            geom.1,
        ))?;
        for (k, v) in kvs {
            e2s(b.insert(k, *v))?;
        }
        let c = b.verif_registry_counters();
        let bytes = e2s(b.into_inner())?;
        // read after finishing: the last nodes are compiled by into_inner
        let ld = |i: usize| c[i].load(std::sync::atomic::Ordering::Relaxed);
        Ok((bytes, (ld(0), ld(1))))
    })
    .and_then(|x| x)
}

/// Builds the FST of `kvs` (strictly increasing keys) through `front`.
/// `geom` is honoured by the raw front ends only. `Err` = error or panic.
pub fn build(front: Front, geom: Geom, kvs: &[Kv]) -> Result<Vec<u8>, String> {
    crate::poison::maybe();
    STRAY.with(|s| s.set(false));
    let r = guard(|| build_inner(front, geom, kvs)).and_then(|x| x);
    let usage = matches!(front, Front::RawInsertNoisy | Front::MapInsertNoisy | Front::SetInsertNoisy | Front::RawMixedBulk | Front::MapMixedBulk | Front::SetMixedBulk);
    match r {
        // whatever happens (error, panic) AFTER the builder accepted a call it
        // must reject is a consequence of that (C06), not of the property at hand
        Err(e) if STRAY.with(|s| s.get()) && !is_usage_skip(&e) => Err(format!("{} then: {}", USAGE_SKIP, e)),
        // a usage front end only makes calls the ordering contract accepts (apart
        // from the noise): an error or panic from one of them is the builder
        // rejecting / mishandling a call it must accept - C06's business as well
        Err(e) if usage && !is_usage_skip(&e) => Err(format!("{} a call of a usage front end that the ordering contract accepts failed: {}", USAGE_SKIP, e)),
        r => r,
    }
}

thread_local! {
    /// Set as soon as a noisy build sees a must-be-rejected call accepted.
    static STRAY: std::cell::Cell<bool> = std::cell::Cell::new(false);
}

fn build_inner(front: Front, geom: Geom, kvs: &[Kv]) -> Result<Vec<u8>, String> {
    let w = || Vec::with_capacity(64);
    match front {
        Front::RawInsert => {
            let mut b = e2s(raw_builder(w(), 0, geom))?;
            for (k, v) in kvs {
                e2s(b.insert(k, *v))?;
            }
            e2s(b.into_inner())
        }
        Front::RawAdd => {
            let mut b = e2s(raw_builder(w(), 0, geom))?;
            for (k, _) in kvs {
                e2s(b.add(k))?;
            }
            e2s(b.into_inner())
        }
        Front::RawExtendIter => {
            let mut b = e2s(raw_builder(w(), 0, geom))?;
            e2s(b.extend_iter(kvs.iter().map(|(k, v)| (k, Output::new(*v)))))?;
            e2s(b.into_inner())
        }
        Front::RawExtendStreamVec => {
            let mut b = e2s(raw_builder(w(), 0, geom))?;
            e2s(b.extend_stream(VecStream::new(kvs)))?;
            e2s(b.into_inner())
        }
        Front::RawExtendStreamFst => {
            let src = build_inner(Front::RawInsert, DEFAULT_GEOM, kvs)?;
            let src = e2s(raw::Fst::new(src))?;
            let mut b = e2s(raw_builder(w(), 0, geom))?;
            e2s(b.extend_stream(src.stream()))?;
            e2s(b.into_inner())
        }
        Front::SetInsert => {
            let mut b = e2s(SetBuilder::new(w()))?;
            for (k, _) in kvs {
                e2s(b.insert(k))?;
            }
            e2s(b.into_inner())
        }
        Front::SetExtendIter => {
            let mut b = e2s(SetBuilder::new(w()))?;
            e2s(b.extend_iter(kvs.iter().map(|(k, _)| k)))?;
            e2s(b.into_inner())
        }
        Front::SetExtendStreamSet => {
            let src = build_inner(Front::RawInsert, DEFAULT_GEOM, kvs)?;
            let src = e2s(Set::new(src))?;
            let mut b = e2s(SetBuilder::new(w()))?;
            e2s(b.extend_stream(src.stream()))?;
            e2s(b.into_inner())
        }
        Front::SetExtendStreamUnion => {
            let (a, c) = partition(kvs);
            let sa = e2s(Set::new(build_inner(Front::RawInsert, DEFAULT_GEOM, &a)?))?;
            let sc = e2s(Set::new(build_inner(Front::RawInsert, DEFAULT_GEOM, &c)?))?;
            let mut b = e2s(SetBuilder::new(w()))?;
            e2s(b.extend_stream(sa.op().add(&sc).union()))?;
            e2s(b.into_inner())
        }
        Front::SetFromIter => {
            let s = e2s(Set::from_iter(kvs.iter().map(|(k, _)| k)))?;
            Ok(s.into_fst().into_inner())
        }
        Front::FstFromIterSet => {
            let s = e2s(raw::Fst::from_iter_set(kvs.iter().map(|(k, _)| k)))?;
            Ok(s.into_inner())
        }
        Front::MapInsert => {
            let mut b = e2s(MapBuilder::new(w()))?;
            for (k, v) in kvs {
                e2s(b.insert(k, *v))?;
            }
            e2s(b.into_inner())
        }
        Front::MapExtendIter => {
            let mut b = e2s(MapBuilder::new(w()))?;
            e2s(b.extend_iter(kvs.iter().map(|(k, v)| (k, *v))))?;
            e2s(b.into_inner())
        }
        Front::MapExtendStreamMap => {
            let src = build_inner(Front::RawInsert, DEFAULT_GEOM, kvs)?;
            let src = e2s(Map::new(src))?;
            let mut b = e2s(MapBuilder::new(w()))?;
            e2s(b.extend_stream(src.stream()))?;
            e2s(b.into_inner())
        }
        Front::MapExtendStreamUnion => {
            let (a, c) = partition(kvs);
            let ma = e2s(Map::new(build_inner(Front::RawInsert, DEFAULT_GEOM, &a)?))?;
            let mc = e2s(Map::new(build_inner(Front::RawInsert, DEFAULT_GEOM, &c)?))?;
            let mut b = e2s(MapBuilder::new(w()))?;
            e2s(b.extend_stream(UnionFirst(ma.op().add(&mc).union())))?;
            e2s(b.into_inner())
        }
        Front::MapFromIter => {
            let m = e2s(Map::from_iter(kvs.iter().map(|(k, v)| (k, *v))))?;
            Ok(m.into_fst().into_inner())
        }
        Front::FstFromIterMap => {
            let m = e2s(raw::Fst::from_iter_map(kvs.iter().map(|(k, v)| (k, *v))))?;
            Ok(m.into_inner())
        }
        Front::RawInsertNoisy | Front::MapInsertNoisy | Front::SetInsertNoisy => {
            let kind = match front { Front::RawInsertNoisy => 0, Front::MapInsertNoisy => 1, _ => 2 };
            let (bytes, _, stray) = noisy_build_inner(kind, geom, kvs, 31)?;
            if let Some(what) = stray {
                // a call that must be rejected was accepted: that violates the
                // ordering contract (C06), and the accepted sequence is no longer
                // `kvs`, so this build says nothing about the property at hand
                return Err(format!("{} {}", USAGE_SKIP, what));
            }
            Ok(bytes)
        }
        Front::RawMemoryIntoFst => {
            let mut b = raw::Builder::memory();
            for (k, v) in kvs {
                e2s(b.insert(k, *v))?;
                if b.bytes_written() != b.get_ref().len() as u64 {
                    return Err(format!("bytes_written() = {} but the Vec holds {} bytes", b.bytes_written(), b.get_ref().len()));
                }
            }
            Ok(b.into_fst().into_inner())
        }
        Front::MapMemoryIntoMap => {
            let mut b = MapBuilder::memory();
            for (k, v) in kvs {
                e2s(b.insert(k, *v))?;
                if b.bytes_written() != b.get_ref().len() as u64 {
                    return Err(format!("MapBuilder::bytes_written() = {} but the Vec holds {} bytes", b.bytes_written(), b.get_ref().len()));
                }
            }
            Ok(b.into_map().into_fst().into_inner())
        }
        Front::SetMemoryIntoSet => {
            let mut b = SetBuilder::memory();
            for (k, _) in kvs {
                e2s(b.insert(k))?;
                if b.bytes_written() != b.get_ref().len() as u64 {
                    return Err(format!("SetBuilder::bytes_written() = {} but the Vec holds {} bytes", b.bytes_written(), b.get_ref().len()));
                }
            }
            Ok(b.into_set().into_fst().into_inner())
        }
        Front::RawMixedBulk => {
            let (n1, n2) = (kvs.len() / 3, 2 * kvs.len() / 3);
            let mut b = e2s(raw_builder(w(), 0, geom))?;
            for (k, v) in &kvs[..n1] {
                e2s(b.insert(k, *v))?;
            }
            e2s(b.extend_iter(kvs[n1..n2].iter().map(|(k, v)| (k, Output::new(*v)))))?;
            e2s(b.extend_stream(VecStream::new(&kvs[n2..])))?;
            e2s(b.extend_stream(VecStream::new(&[])))?;
            e2s(b.into_inner())
        }
        Front::MapMixedBulk => {
            let (n1, n2) = (kvs.len() / 3, 2 * kvs.len() / 3);
            let mut b = e2s(MapBuilder::new(w()))?;
            e2s(b.extend_iter(kvs[..n1].iter().map(|(k, v)| (k, *v))))?;
            e2s(b.extend_stream(VecStreamU64::new(&kvs[n1..n2])))?;
            for (k, v) in &kvs[n2..] {
                e2s(b.insert(k, *v))?;
            }
            e2s(b.extend_iter(std::iter::empty::<(&[u8], u64)>()))?;
            e2s(b.into_inner())
        }
        Front::SetMixedBulk => {
            // every bulk call starts with a repeat of the last accepted key
            let (n1, n2) = (kvs.len() / 3, 2 * kvs.len() / 3);
            let mut b = e2s(SetBuilder::new(w()))?;
            for (k, _) in &kvs[..n1] {
                e2s(b.insert(k))?;
            }
            let from = n1.saturating_sub(1);
            e2s(b.extend_stream(VecStreamKeys::new(&kvs[from..n2])))?;
            let from = n2.saturating_sub(1);
            e2s(b.extend_iter(kvs[from..].iter().map(|(k, _)| k)))?;
            if let Some(last) = kvs.last() {
                let src = e2s(Set::from_iter(std::iter::once(&last.0)))?;
                e2s(b.extend_stream(src.stream()))?;
            }
            e2s(b.into_inner())
        }
    }
}

/// Prefix of the error returned by the noisy front ends when the builder
/// accepted a call it must reject: callers skip such a build (it is C06's
/// business) instead of reporting a violation of their own property.
pub const USAGE_SKIP: &str = "usage-precondition:";

pub fn is_usage_skip(e: &str) -> bool {
    e.starts_with(USAGE_SKIP)
}

/// A builder kept in use after rejected calls. kind 0 = raw::Builder,
/// 1 = MapBuilder, 2 = SetBuilder. Returns the bytes, the sequence of calls
/// the builder ACCEPTED (by its own answers) and, if a call that must be
/// rejected was accepted, a description of the first such call.
pub fn noisy_build(kind: u8, geom: Geom, kvs: &[Kv], mask: u8) -> Result<(Vec<u8>, Vec<Kv>, Option<String>), String> {
    crate::poison::maybe();
    guard(|| noisy_build_inner(kind, geom, kvs, mask)).and_then(|x| x)
}

fn noisy_build_inner(kind: u8, geom: Geom, kvs: &[Kv], mask: u8) -> Result<(Vec<u8>, Vec<Kv>, Option<String>), String> {
    let w = || Vec::with_capacity(64);
    let mut accepted: Vec<Kv> = vec![];
    let mut stray: Option<String> = None;
    // a call that must be rejected, under catch_unwind: a panic inside it is
    // the builder misbehaving on a rejected call (C06), not a build failure
    fn noise<F: FnOnce() -> bool>(f: F) -> Result<bool, String> {
        match std::panic::catch_unwind(std::panic::AssertUnwindSafe(f)) {
            Ok(b) => Ok(b),
            Err(_) => {
                STRAY.with(|s| s.set(true));
                Err(format!("{} a call that must be rejected panicked", USAGE_SKIP))
            }
        }
    }
    let mut note = |accepted: &mut Vec<Kv>, stray: &mut Option<String>, what: &str, k: &[u8], v: u64, after: &[u8]| {
        accepted.push((k.to_vec(), v));
        STRAY.with(|s| s.set(true));
        if stray.is_none() {
            *stray = Some(format!("{}({}, {}) after {} was accepted", what, hexs(k), v, hexs(after)));
        }
    };
    match kind {
        0 => {
            let mut b = e2s(raw_builder(w(), 0, geom))?;
            for (i, (k, v)) in kvs.iter().enumerate() {
                e2s(b.insert(k, *v))?;
                accepted.push((k.clone(), *v));
                // harmless questions, asked 0..3 times depending on the position
                for _ in 0..(i % 4) {
                    std::hint::black_box((b.bytes_written(), b.get_ref().len()));
                }
                for (rk, rv) in rejected_after(kvs, i, mask) {
                    if noise(|| b.insert(&rk, rv).is_ok())? {
                        note(&mut accepted, &mut stray, "raw insert", &rk, rv, k);
                    }
                }
                if mask & 1 != 0 && noise(|| b.extend_iter(std::iter::once((k, Output::new(1)))).is_ok())? {
                    note(&mut accepted, &mut stray, "raw extend_iter", k, 1, k);
                }
                // `add` of the non-empty key just inserted: the set path tolerates a repeat of
                // the last key, so this is a no-op (what `add` does with OTHER keys after
                // `insert`, and with the empty key - whose value it resets -, is outside the
                // properties, see DESIGN.md 12.10)
                if mask & 1 != 0 && !k.is_empty() && !noise(|| b.add(k).is_ok())? {
                    return Err(format!("{} add() of the key just inserted was rejected", USAGE_SKIP));
                }
            }
            Ok((e2s(b.into_inner())?, accepted, stray))
        }
        1 => {
            let mut b = e2s(MapBuilder::new(w()))?;
            for (i, (k, v)) in kvs.iter().enumerate() {
                e2s(b.insert(k, *v))?;
                accepted.push((k.clone(), *v));
                for _ in 0..((i + 1) % 4) {
                    std::hint::black_box((b.bytes_written(), b.get_ref().len()));
                }
                for (rk, rv) in rejected_after(kvs, i, mask) {
                    if noise(|| b.insert(&rk, rv).is_ok())? {
                        note(&mut accepted, &mut stray, "MapBuilder::insert", &rk, rv, k);
                    }
                }
                if mask & 1 != 0 && noise(|| b.extend_iter(std::iter::once((k, 1u64))).is_ok())? {
                    note(&mut accepted, &mut stray, "MapBuilder::extend_iter", k, 1, k);
                }
                let one = [(k.clone(), 0u64)];
                if mask & 1 != 0 && noise(|| b.extend_stream(VecStreamU64::new(&one)).is_ok())? {
                    note(&mut accepted, &mut stray, "MapBuilder::extend_stream", k, 0, k);
                }
            }
            Ok((e2s(b.into_inner())?, accepted, stray))
        }
        _ => {
            let mut b = e2s(SetBuilder::new(w()))?;
            for (i, (k, _)) in kvs.iter().enumerate() {
                e2s(b.insert(k))?;
                accepted.push((k.clone(), 0));
                for _ in 0..((i + 2) % 4) {
                    std::hint::black_box((b.bytes_written(), b.get_ref().len()));
                }
                // repeats of the last key are no-ops for sets, in every entry point
                e2s(b.insert(k))?;
                e2s(b.extend_iter(std::iter::once(k)))?;
                let one = [(k.clone(), 0u64)];
                e2s(b.extend_stream(VecStreamKeys::new(&one)))?;
                for (rk, _) in rejected_after(kvs, i, mask) {
                    if &rk != k && noise(|| b.insert(&rk).is_ok())? {
                        note(&mut accepted, &mut stray, "SetBuilder::insert", &rk, 0, k);
                    }
                }
            }
            Ok((e2s(b.into_inner())?, accepted, stray))
        }
    }
}

/// Raw builder kept in use after rejected calls, with the cache counters
/// (hook H2). `use_add`: keys go through `add` (set path), noise = smaller
/// keys; otherwise `insert`, noise as `rejected_after(.., 31)`. Returns the
/// bytes, whether a must-be-rejected call was accepted, and (evictions,
/// rejections).
pub fn noisy_build_raw_counted(geom: Geom, kvs: &[Kv], use_add: bool) -> Result<(Vec<u8>, bool, (u64, u64)), String> {
    crate::poison::maybe();
    guard(|| {
        let mut b = e2s(raw::Builder::verif_new_with_registry(Vec::with_capacity(256), 0, geom.0, geom.1))?;
        let mut stray = false;
        for (i, (k, v)) in kvs.iter().enumerate() {
            if use_add {
                e2s(b.add(k))?;
            } else {
                e2s(b.insert(k, *v))?;
            }
            for (rk, rv) in rejected_after(kvs, i, 31) {
                let r = std::panic::catch_unwind(std::panic::AssertUnwindSafe(|| if use_add { if &rk == k { Err(()) } else { b.add(&rk).map_err(|_| ()) } } else { b.insert(&rk, rv).map_err(|_| ()) }));
                match r {
                    Ok(Err(())) => {}
                    _ => {
                        stray = true;
                    }
                }
                if stray {
                    break;
                }
            }
            if stray {
                return Ok((vec![], true, (0, 0)));
            }
        }
        let c = b.verif_registry_counters();
        let bytes = e2s(b.into_inner())?;
        let ld = |i: usize| c[i].load(std::sync::atomic::Ordering::Relaxed);
        Ok((bytes, false, (ld(0), ld(1))))
    })
    .and_then(|x| x)
}

fn hexs(k: &[u8]) -> String {
    k.iter().map(|b| format!("{:02x}", b)).collect()
}

/// Calls that must be rejected right after `kvs[i]` was accepted, selected by
/// `mask`: 1 = the same key with zero / smaller / larger values; 2 = the
/// previous key; 4 = the empty key; 8 = the key without its last byte;
/// 16 = two keys with a smaller FIRST byte, in ascending order.
fn rejected_after(kvs: &[Kv], i: usize, mask: u8) -> Vec<Kv> {
    let (k, v) = &kvs[i];
    let mut out: Vec<Kv> = vec![];
    if mask & 1 != 0 {
        out.extend([(k.clone(), 0), (k.clone(), v / 2), (k.clone(), v.wrapping_add(1)), (k.clone(), u64::MAX)]);
    }
    if mask & 2 != 0 && i > 0 {
        out.push((kvs[i - 1].0.clone(), 7));
    }
    if !k.is_empty() {
        if mask & 4 != 0 {
            out.push((vec![], 1));
        }
        if mask & 8 != 0 {
            out.push((k[..k.len() - 1].to_vec(), *v));
        }
        if mask & 16 != 0 && k[0] > 0 {
            out.push((vec![k[0] - 1], 2));
            out.push((vec![k[0] - 1, 0xff, 0xff], 3));
        }
    }
    out
}

/// Splits a key sequence into the items at even and odd positions.
pub fn partition(kvs: &[Kv]) -> (Vec<Kv>, Vec<Kv>) {
    let mut a = vec![];
    let mut b = vec![];
    for (i, kv) in kvs.iter().enumerate() {
        if i % 2 == 0 {
            a.push(kv.clone());
        } else {
            b.push(kv.clone());
        }
    }
    (a, b)
}

/// Reads everything back through `raw::Fst::stream`.
pub fn read_raw(bytes: &[u8]) -> Result<Vec<Kv>, String> {
    guard(|| {
        let f = e2s(raw::Fst::new(bytes))?;
        Ok(f.stream().into_byte_vec())
    })
    .and_then(|x| x)
}

pub fn collect_stream<'f, S>(mut s: S) -> Vec<Kv>
where
    S: for<'a> Streamer<'a, Item = (&'a [u8], Output)>,
{
    let mut out = vec![];
    while let Some((k, v)) = s.next() {
        out.push((k.to_vec(), v.value()));
    }
    out
}

pub fn collect_keys<S>(mut s: S) -> Vec<Key>
where
    S: for<'a> Streamer<'a, Item = &'a [u8]>,
{
    let mut out = vec![];
    while let Some(k) = s.next() {
        out.push(k.to_vec());
    }
    out
}

pub fn collect_map_stream<S>(mut s: S) -> Vec<Kv>
where
    S: for<'a> Streamer<'a, Item = (&'a [u8], u64)>,
{
    let mut out = vec![];
    while let Some((k, v)) = s.next() {
        out.push((k.to_vec(), v));
    }
    out
}

pub fn into_stream_vec<'f, I, S>(i: I) -> Vec<Kv>
where
    I: for<'a> IntoStreamer<'a, Into = S, Item = (&'a [u8], Output)>,
    S: 'f + for<'a> Streamer<'a, Item = (&'a [u8], Output)>,
{
    collect_stream(i.into_stream())
}
