//! Independent bitwise CRC-32C (Castagnoli, reflected 0x82F63B78) and the
//! Snappy-style mask. Shares nothing with the crate's table-driven code.

pub fn crc32c(data: &[u8]) -> u32 {
    let mut crc: u32 = 0xffff_ffff;
    for &b in data {
        crc ^= b as u32;
        for _ in 0..8 {
            let lsb = crc & 1;
            crc >>= 1;
            if lsb != 0 {
                crc ^= 0x82F6_3B78;
            }
        }
    }
    crc ^ 0xffff_ffff
}

pub fn mask(crc: u32) -> u32 {
    crc.rotate_right(15).wrapping_add(0xA282_EAD8)
}

pub fn masked_crc32c(data: &[u8]) -> u32 {
    mask(crc32c(data))
}

#[cfg(test)]
mod tests {
    #[test]
    fn known_vector() {
        // RFC 3720 test vector: CRC-32C("123456789") = 0xE3069283
        assert_eq!(super::crc32c(b"123456789"), 0xE306_9283);
    }
}
