//! C19 - unsorted CLI builds are independent of batching, threads and
//! scheduling. Drives the REAL `fst map` / `fst set` code (included by path
//! from /repo/fst-bin/src) in-process under the SCHED engine of verif_rt.rs.

use std::collections::{BTreeMap, BTreeSet, HashSet};
use std::sync::{Arc, Mutex};
use std::time::Instant;

use anyhow::Error;
use serde_json::{json, Value};

#[allow(dead_code)]
#[path = "/repo/fst-bin/src/app.rs"]
mod app;
mod cmd {
    #[path = "/repo/fst-bin/src/cmd/map.rs"]
    pub mod map;
    #[path = "/repo/fst-bin/src/cmd/set.rs"]
    pub mod set;
}
#[path = "/repo/fst-bin/src/merge.rs"]
mod merge;
#[allow(dead_code)]
#[path = "/repo/fst-bin/src/util.rs"]
mod util;
mod verif_rt;

use mc::ev::{self, Reporter, Stats, Tier};

fn real_bin() -> String {
    format!("{}/harness/target/fstbin/release/fst", ev::verif_dir())
}

#[derive(Clone, Debug, PartialEq, Eq)]
struct Job {
    set: bool,
    /// "sum" | "max" | "min"
    mode: String,
    /// input files, each a list of rows "key,value" (maps) or lines (sets)
    files: Vec<Vec<String>>,
    batch: u32,
    fd: u32,
    threads: u32,
    /// explore every schedule (true) or only the default one (false)
    explore: bool,
    cap_s: u64,
    /// None: stateful exploration of ALL schedules with the happens-before
    /// state cache. Some(k): stateless exploration of every schedule with at
    /// most k deviations from the default schedule (delay bounding; no cache,
    /// hence no assumption about what the threads share).
    bound: Option<usize>,
    /// write every input file WITHOUT a newline after its last row
    nonl: bool,
}

impl Job {
    fn to_json(&self) -> Value {
        json!({"set": self.set, "mode": self.mode, "files": self.files, "batch": self.batch, "fd": self.fd, "threads": self.threads, "explore": self.explore, "cap_s": self.cap_s, "bound": self.bound, "nonl": self.nonl})
    }
    fn from_json(v: &Value) -> Job {
        Job {
            set: v["set"].as_bool().unwrap(),
            mode: v["mode"].as_str().unwrap().to_string(),
            files: v["files"].as_array().unwrap().iter().map(|f| f.as_array().unwrap().iter().map(|r| r.as_str().unwrap().to_string()).collect()).collect(),
            batch: v["batch"].as_u64().unwrap() as u32,
            fd: v["fd"].as_u64().unwrap() as u32,
            threads: v["threads"].as_u64().unwrap() as u32,
            explore: v["explore"].as_bool().unwrap(),
            cap_s: v["cap_s"].as_u64().unwrap_or(600),
            bound: v["bound"].as_u64().map(|b| b as usize),
            nonl: v["nonl"].as_bool().unwrap_or(false),
        }
    }
    fn describe(&self) -> String {
        format!(
            "{} {} files={:?} batch={} fd={} threads={}{}",
            if self.set { "set" } else { "map" },
            self.mode,
            self.files.iter().map(|f| if f.len() <= 12 { format!("{:?}", f) } else { format!("[{:?}, {:?}, ... {} rows]", f[0], f[1], f.len()) }).collect::<Vec<_>>(),
            self.batch, self.fd, self.threads,
            match self.bound { Some(k) => format!(" [stateless, <= {} deviations from the default schedule]", k), None => String::new() }
        ) + if self.nonl { " [no final newline in the input files]" } else { "" }
    }
    /// The reference model of the merge.
    fn model(&self) -> Vec<(Vec<u8>, u64)> {
        let mut m: BTreeMap<Vec<u8>, u64> = BTreeMap::new();
        for f in &self.files {
            for row in f {
                if self.set {
                    m.insert(row.as_bytes().to_vec(), 0);
                } else {
                    // a row is `key,value`; a key may be a quoted CSV field ("x,y" / "q""r")
                    let (k, v): (String, &str) = if let Some(rest) = row.strip_prefix('"') {
                        let end = rest.rfind("\",").unwrap();
                        (rest[..end].replace("\"\"", "\""), &rest[end + 2..])
                    } else {
                        let (k, v) = row.split_once(',').unwrap();
                        (k.to_string(), v)
                    };
                    let v: u64 = v.parse().unwrap();
                    m.entry(k.as_bytes().to_vec())
                        .and_modify(|x| {
                            *x = match self.mode.as_str() {
                                "max" => (*x).max(v),
                                "min" => (*x).min(v),
                                _ => *x + v,
                            }
                        })
                        .or_insert(v);
                }
            }
        }
        m.into_iter().collect()
    }
    fn has_repeats(&self) -> bool {
        let mut seen = BTreeSet::new();
        for f in &self.files {
            for row in f {
                let k = if self.set { row.as_str() } else { row.split_once(',').unwrap().0 };
                if !seen.insert(k.to_string()) {
                    return true;
                }
            }
        }
        false
    }
}

fn workdir() -> String {
    format!("/dev/shm/fstverif-c19-{}", std::process::id())
}

fn write_inputs(job: &Job, tag: &str) -> Vec<String> {
    let dir = workdir();
    std::fs::create_dir_all(&dir).unwrap();
    let mut paths = vec![];
    for (i, f) in job.files.iter().enumerate() {
        let p = format!("{}/in-{}-{}.txt", dir, tag, i);
        let mut s = String::new();
        for (ri, r) in f.iter().enumerate() {
            s.push_str(r);
            if !(job.nonl && ri + 1 == f.len()) {
                s.push('\n');
            }
        }
        std::fs::write(&p, s).unwrap();
        paths.push(p);
    }
    paths
}

fn cli_args(job: &Job, inputs: &[String], out: &str, sorted: bool) -> Vec<String> {
    let mut a: Vec<String> = vec!["fst".into(), if job.set { "set".into() } else { "map".into() }];
    a.extend(inputs.iter().cloned());
    a.push(out.to_string());
    a.push("--force".into());
    if sorted {
        a.push("--sorted".into());
    } else {
        a.extend(["--batch-size".into(), job.batch.to_string(), "--fd-limit".into(), job.fd.to_string(), "--threads".into(), job.threads.to_string()]);
        if !job.set {
            match job.mode.as_str() {
                "max" => a.push("--max".into()),
                "min" => a.push("--min".into()),
                _ => {}
            }
        }
    }
    a
}

/// The real CLI entry point, in-process.
fn run_cli(args: Vec<String>) -> Result<(), String> {
    let m = app::app().get_matches_from_safe(args).map_err(|e| format!("machinery: clap: {}", e))?;
    let r: Result<(), Error> = match m.subcommand() {
        ("map", Some(m)) => cmd::map::run(m),
        ("set", Some(m)) => cmd::set::run(m),
        _ => return Err("machinery: bad subcommand".into()),
    };
    r.map_err(|e| format!("command failed: {:#}", e))
}

/// Reads the output back: must open, verify, conform to the format and hold
/// exactly the model.
fn check_output(job: &Job, out: &str) -> Result<Vec<u8>, String> {
    let bytes = std::fs::read(out).map_err(|e| format!("no output file: {}", e))?;
    let want = job.model();
    let r = ev::guard(|| {
        let f = fst::raw::Fst::new(&bytes[..]).map_err(|e| format!("output does not open: {:?}", e))?;
        f.verify().map_err(|e| format!("output does not verify: {:?}", e))?;
        let got = f.stream().into_byte_vec();
        if got != want {
            let show = |v: &[(Vec<u8>, u64)]| v.iter().map(|(k, x)| format!("{}={}", String::from_utf8_lossy(k), x)).collect::<Vec<_>>().join(",");
            return Err(format!("output holds {{{}}} but the {} of the input is {{{}}}", show(&got), if job.set { "set".to_string() } else { format!("{}-merge", job.mode) }, show(&want)));
        }
        // C09 clause: fst-bin output files conform to the format
        let d = mc::codec::decode(&bytes).map_err(|e| format!("output is not a well-formed version-3 file: {}", e))?;
        if d.enumerate()? != want {
            return Err("independent decoder reads a different map from the output file".into());
        }
        Ok(())
    })
    .and_then(|x| x);
    r.map(|_| bytes)
}

#[derive(Default)]
struct JobResult {
    states: u64,
    execs: u64,
    complete: u64,
    pruned: u64,
    steps: u64,
    max_choice_points: usize,
    max_threads: usize,
    groupings: BTreeSet<String>,
    outputs: BTreeSet<u64>,
    capped: bool,
    wall_s: f64,
    violation: Option<(String, String, Value)>,
}

fn case_json(job: &Job, prefix: &[usize]) -> Value {
    json!({"job": job.to_json(), "schedule": prefix})
}

/// One execution under the scheduler; Ok(observation) or Err(violation text).
fn execute(job: &Job, inputs: &[String], prefix: Vec<usize>, visited: Option<Arc<Mutex<HashSet<u64>>>>, first_bytes: &mut Option<Vec<u8>>) -> (verif_rt::Outcome, Result<String, String>) {
    let out = format!("{}/out.fst", workdir());
    let _ = std::fs::remove_file(&out);
    let args = cli_args(job, &inputs, &out, false);
    let o = verif_rt::run_one(prefix, visited, move || run_cli(args));
    if o.pruned {
        return (o, Ok("pruned".into()));
    }
    if o.diverged {
        eprintln!("machinery: {}", o.aborted.clone().unwrap_or_default());
        std::process::exit(2);
    }
    let verdict = (|| {
        if let Some(a) = &o.aborted {
            return Err(format!("execution aborted: {}", a));
        }
        match &o.main_result {
            Some(Ok(())) => {}
            Some(Err(e)) => return Err(e.clone()),
            None => return Err("main thread did not return".into()),
        }
        // (a temp file name created twice is not a violation of the property by
        // itself - the content and byte-identity checks below decide - so it is
        // not judged here)
        let bytes = check_output(job, &out)?;
        match first_bytes {
            None => *first_bytes = Some(bytes.clone()),
            Some(b) => {
                if *b != bytes {
                    return Err("output bytes differ from another schedule of the same configuration".into());
                }
            }
        }
        Ok(format!("ok {:016x}", ev::fnv(&bytes)))
    })();
    (o, verdict)
}

/// Explores all schedules of one job (stateful DFS with HB state caching),
/// or just the default schedule.
fn run_job(job: &Job) -> JobResult {
    let mut r = JobResult::default();
    let t0 = Instant::now();
    let visited = Arc::new(Mutex::new(HashSet::new()));
    let mut stack: Vec<Vec<usize>> = vec![vec![]];
    let mut first_bytes: Option<Vec<u8>> = None;
    let inputs = write_inputs(job, "u");
    while let Some(prefix) = stack.pop() {
        if t0.elapsed().as_secs() > job.cap_s {
            r.capped = true;
            break;
        }
        let plen = prefix.len();
        let (o, verdict) = execute(job, &inputs, prefix.clone(), if job.explore && job.bound.is_none() { Some(visited.clone()) } else { None }, &mut first_bytes);
        r.execs += 1;
        r.steps += o.steps;
        r.max_choice_points = r.max_choice_points.max(o.choices.len());
        r.max_threads = r.max_threads.max(o.threads);
        let sched: Vec<usize> = o.choices.iter().map(|c| c.chosen).collect();
        if o.pruned {
            r.pruned += 1;
        } else {
            r.complete += 1;
            match verdict {
                Ok(obs) => {
                    r.outputs.insert(ev::fnv(obs.as_bytes()));
                    let g: Vec<&String> = o.trace.iter().filter(|t| t.starts_with("union ")).collect();
                    r.groupings.insert(g.iter().map(|s| s.as_str()).collect::<Vec<_>>().join(" "));
                }
                Err(msg) => {
                    r.violation = Some((format!("{} schedule {:?}", job.describe(), sched), msg, case_json(job, &sched)));
                    break;
                }
            }
        }
        if job.explore {
            // deviations from the default schedule (first enabled thread in
            // canonical order) used before choice i
            let mut used = vec![0usize; o.choices.len() + 1];
            for (i, c) in o.choices.iter().enumerate() {
                used[i + 1] = used[i] + (c.chosen != 0) as usize;
            }
            for i in plen..o.choices.len() {
                for alt in 1..o.choices[i].n {
                    if let Some(k) = job.bound {
                        let cost = used[i] + 1;
                        if cost > k {
                            continue;
                        }
                    }
                    let mut p: Vec<usize> = sched[..i].to_vec();
                    p.push(alt);
                    stack.push(p);
                }
            }
        }
    }
    r.states = visited.lock().unwrap().len() as u64;
    r.wall_s = t0.elapsed().as_secs_f64();
    // sorted build comparison for inputs without repeated keys
    if r.violation.is_none() && !job.has_repeats() && !r.capped {
        if let Some(b) = &first_bytes {
            let mut rows: Vec<String> = job.files.iter().flatten().cloned().collect();
            rows.sort_by(|a, b| {
                let ka = if job.set { a.as_str() } else { a.split_once(',').unwrap().0 };
                let kb = if job.set { b.as_str() } else { b.split_once(',').unwrap().0 };
                ka.as_bytes().cmp(kb.as_bytes())
            });
            if !rows.is_empty() {
                let sj = Job { files: vec![rows], ..job.clone() };
                let inputs = write_inputs(&sj, "s");
                let out = format!("{}/sorted.fst", workdir());
                let res = ev::guard(|| run_cli(cli_args(&sj, &inputs, &out, true))).and_then(|x| x);
                match res {
                    Err(e) => r.violation = Some((format!("{} sorted build", job.describe()), format!("--sorted build of the sorted input failed: {}", e), case_json(job, &[]))),
                    Ok(()) => {
                        let sb = std::fs::read(&out).unwrap_or_default();
                        if &sb != b {
                            r.violation = Some((format!("{} vs sorted", job.describe()), "unsorted build is not byte-identical to the --sorted build of the same data".into(), case_json(job, &[])));
                        }
                        let model = job.model();
                        let mut lb = fst::raw::Builder::memory();
                        for (k, v) in &model {
                            lb.insert(k, *v).unwrap();
                        }
                        if lb.into_inner().unwrap() != *b {
                            r.violation = Some((format!("{} vs library", job.describe()), "unsorted build is not byte-identical to a library build of the same data".into(), case_json(job, &[])));
                        }
                    }
                }
            }
        }
    }
    r
}

/// The real binary, free-running (no scheduler).
fn run_real(job: &Job) -> Result<(), String> {
    run_real_variant(job, 0)?;
    // the output path already holds a longer file; the first input arrives through a pipe
    run_real_variant(job, 1)?;
    run_real_variant(job, 2)?;
    if job.files.len() == 1 && !job.files[0].is_empty() {
        // the same input path named twice: its rows count twice
        run_real_variant(job, 3)?;
    }
    Ok(())
}

/// variant 0: fresh output path, inputs are regular files; 1: the output path
/// exists and holds 8 KiB of other data (--force); 2: the first input is
/// /dev/stdin fed by a pipe (size 0 when stat'ed, not seekable).
fn run_real_variant(job: &Job, variant: u8) -> Result<(), String> {
    use std::io::Write;
    let tid = format!("{:?}", std::thread::current().id()).replace(['(', ')'], "");
    let mut inputs = write_inputs(job, &format!("r{}", tid));
    let out = format!("{}/real-{}-{}.fst", workdir(), tid, variant);
    let _ = std::fs::remove_file(&out);
    if variant == 1 {
        std::fs::write(&out, vec![0xa5u8; 8192]).map_err(|e| format!("machinery: {}", e))?;
    }
    let mut piped: Option<Vec<u8>> = None;
    if variant == 2 {
        piped = Some(std::fs::read(&inputs[0]).map_err(|e| format!("machinery: {}", e))?);
        inputs[0] = "/dev/stdin".into();
    }
    let twice;
    let job = if variant == 3 {
        inputs.push(inputs[0].clone());
        twice = Job { files: vec![job.files[0].clone(), job.files[0].clone()], ..job.clone() };
        &twice
    } else {
        job
    };
    let args = cli_args(job, &inputs, &out, false);
    let mut child = std::process::Command::new(real_bin())
        .args(&args[1..])
        .env("TMPDIR", workdir())
        .stdin(if piped.is_some() { std::process::Stdio::piped() } else { std::process::Stdio::null() })
        .stdout(std::process::Stdio::piped())
        .stderr(std::process::Stdio::piped())
        .spawn()
        .map_err(|e| format!("machinery: cannot run {}: {}", real_bin(), e))?;
    if let Some(data) = piped {
        let mut si = child.stdin.take().unwrap();
        let _ = si.write_all(&data);
        drop(si);
    }
    let o = child.wait_with_output().map_err(|e| format!("machinery: {}", e))?;
    let what = ["", " (existing longer output file, --force)", " (first input through /dev/stdin from a pipe)", " (the same input path named twice)"][variant as usize];
    if !o.status.success() {
        return Err(format!("real binary exited with {:?}{}: {}", o.status.code(), what, String::from_utf8_lossy(&o.stderr)));
    }
    let r = check_output(job, &out).map(|_| ()).map_err(|e| format!("{}{}", e, what));
    let _ = std::fs::remove_file(&out);
    r
}

// ---------------------------------------------------------------------------
// Protocol model (TLA+, /verif/model/MergeRound.tla) and its binding to the code
// ---------------------------------------------------------------------------

/// From one execution's union trace: for every round r the order in which
/// main received the result files of that round (as 1-based item numbers).
fn rounds_of(grouping: &str) -> Vec<Vec<usize>> {
    // "union g0b1:batch2+batch0" ...
    let mut per_gen: BTreeMap<usize, BTreeMap<usize, Vec<usize>>> = BTreeMap::new();
    for part in grouping.split("union ").filter(|p| !p.trim().is_empty()) {
        let part = part.trim();
        let (head, inputs) = match part.split_once(':') {
            Some(x) => x,
            None => continue,
        };
        let (g, b) = match head[1..].split_once('b') {
            Some(x) => x,
            None => continue,
        };
        let (g, b): (usize, usize) = (g.parse().unwrap_or(0), b.parse().unwrap_or(0));
        let items: Vec<usize> = inputs
            .split('+')
            .map(|name| name.rsplit("batch").next().unwrap_or("0").parse::<usize>().unwrap_or(0) + 1)
            .collect();
        per_gen.entry(g).or_default().insert(b, items);
    }
    per_gen.values().map(|m| m.values().flatten().cloned().collect()).collect()
}

/// Reachable final result orders of the model for (n items, w workers, cap).
fn model_perms(n: usize, w: usize, cap: usize) -> Result<(BTreeSet<Vec<usize>>, u64), String> {
    let dir = format!("{}/tlc-{}-{}-{}-{}", workdir(), n, w, cap, std::process::id());
    std::fs::create_dir_all(&dir).map_err(|e| e.to_string())?;
    let model_dir = format!("{}/model", ev::verif_dir());
    std::fs::copy(format!("{}/MergeRound.tla", model_dir), format!("{}/MergeRound.tla", dir)).map_err(|e| format!("machinery: model file: {}", e))?;
    std::fs::write(
        format!("{}/MergeRound.cfg", dir),
        format!("SPECIFICATION Spec\nCONSTANTS N = {}\n W = {}\n Cap = {}\nINVARIANTS TypeOK Complete NoDup\nCHECK_DEADLOCK TRUE\n", n, w, cap),
    )
    .map_err(|e| e.to_string())?;
    let o = std::process::Command::new("tlc")
        .current_dir(&dir)
        .env("JAVA_TOOL_OPTIONS", format!("-Djava.io.tmpdir={}", dir))
        .args(["-workers", "2", "-dump", "states", "MergeRound.tla"])
        .output()
        .map_err(|e| format!("machinery: cannot run tlc: {}", e))?;
    let out = String::from_utf8_lossy(&o.stdout).to_string();
    if !out.contains("No error has been found") {
        let _ = std::fs::remove_dir_all(&dir);
        return Err(format!("TLC reports a problem for N={} W={} Cap={}: {}", n, w, cap, out.lines().filter(|l| l.contains("Error") || l.contains("violated") || l.contains("Deadlock")).collect::<Vec<_>>().join(" | ")));
    }
    let distinct: u64 = out
        .lines()
        .find(|l| l.contains("distinct states found"))
        .and_then(|l| l.split(" states generated, ").nth(1))
        .and_then(|r| r.split(' ').next())
        .and_then(|x| x.replace(',', "").parse().ok())
        .unwrap_or(0);
    let dump = std::fs::read_to_string(format!("{}/states.dump", dir)).map_err(|e| format!("machinery: tlc dump: {}", e))?;
    let mut perms = BTreeSet::new();
    for st in dump.split("\nState ") {
        if st.contains("mpc = \"done\"") {
            if let Some(i) = st.find("results = <<") {
                let rest = &st[i + 12..];
                if let Some(j) = rest.find(">>") {
                    let v: Vec<usize> = rest[..j].split(',').filter_map(|x| x.trim().parse().ok()).collect();
                    perms.insert(v);
                }
            }
        }
    }
    let _ = std::fs::remove_dir_all(&dir);
    Ok((perms, distinct))
}

fn result_json(r: &JobResult) -> Value {
    json!({
        "states": r.states, "execs": r.execs, "complete": r.complete, "pruned": r.pruned, "steps": r.steps,
        "max_choice_points": r.max_choice_points, "max_threads": r.max_threads,
        "groupings": r.groupings.iter().collect::<Vec<_>>(), "outputs": r.outputs.iter().collect::<Vec<_>>(),
        "capped": r.capped, "wall_s": r.wall_s,
        "violation": r.violation.as_ref().map(|(k, m, c)| json!({"key": k, "msg": m, "case": c})),
    })
}

fn rows_universe(set: bool) -> Vec<String> {
    if set {
        vec!["a".into(), "b".into(), "ab".into()]
    } else {
        vec!["a,1".into(), "a,2".into(), "b,1".into(), "b,2".into()]
    }
}

/// All sequences of rows of length 1..=maxlen over the row universe.
fn all_inputs(set: bool, maxlen: usize) -> Vec<Vec<String>> {
    let u = rows_universe(set);
    let mut out: Vec<Vec<String>> = vec![];
    let mut last: Vec<Vec<String>> = vec![vec![]];
    for _ in 0..maxlen {
        let mut next = vec![];
        for s in &last {
            for r in &u {
                let mut t = s.clone();
                t.push(r.clone());
                next.push(t);
            }
        }
        out.extend(next.iter().cloned());
        last = next;
    }
    out
}

fn explore_jobs(tier: Tier) -> Vec<Job> {
    let thorough = tier == Tier::Thorough;
    let mut v = vec![];
    let map_inputs: Vec<Vec<String>> = vec![
        vec!["a,1", "b,5", "a,2", "c,7", "b,1"].into_iter().map(String::from).collect(),
        vec!["a,1", "b,5", "c,7", "d,2", "e,9"].into_iter().map(String::from).collect(),
    ];
    let set_input: Vec<String> = vec!["b", "a", "b", "c", "ab"].into_iter().map(String::from).collect();
    let cfgs: Vec<(u32, u32, u32)> = if thorough { vec![(2, 2, 2), (3, 2, 1), (2, 3, 2), (5, 2, 2), (2, 2, 3), (1, 3, 2), (1, 2, 2), (1, 4, 3), (2, 3, 3)] } else { vec![(2, 2, 2), (3, 2, 1), (2, 3, 2), (5, 2, 2)] };
    let cap = if thorough { 1500 } else { 200 };
    for (batch, fd, threads) in cfgs {
        // configurations whose state space is not exhausted within the cap
        // (measured: > 260 000 states after 1500 s) get two variants only
        let huge = matches!((batch, fd, threads), (2, 2, 3) | (1, 2, 2) | (1, 4, 3));
        let modes: Vec<&str> = if thorough && huge { vec!["sum"] } else if thorough { vec!["sum", "max", "min"] } else if (batch, fd, threads) == (2, 2, 2) { vec!["sum", "min"] } else { vec!["min", "max"] };
        for mode in modes {
            for (ii, inp) in map_inputs.iter().enumerate() {
                // quick: the repeated-key input with sum, the distinct-key input with min
                if !thorough && (batch, fd, threads) == (2, 2, 2) && ((ii == 0) != (mode == "sum")) {
                    continue;
                }
                if thorough && huge && ii == 1 {
                    continue;
                }
                v.push(Job { set: false, mode: mode.into(), files: vec![inp.clone()], batch, fd, threads, explore: true, cap_s: cap, bound: None, nonl: false });
            }
        }
        v.push(Job { set: true, mode: "sum".into(), files: vec![set_input.clone()], batch, fd, threads, explore: true, cap_s: cap, bound: None, nonl: false });
    }
    // stateless, deviation-bounded exploration (no state cache, so no
    // assumption that the threads interact through the channels only)
    {
        let inp = map_inputs[0].clone();
        let bounded: Vec<(u32, u32, u32, usize)> = if thorough { vec![(2, 2, 2, 3), (2, 3, 2, 3), (2, 2, 3, 2), (1, 2, 2, 2), (4, 2, 3, 3), (1, 4, 3, 2), (5, 2, 2, 4)] } else { vec![(2, 2, 2, 2), (2, 3, 2, 2), (2, 2, 3, 2), (5, 2, 2, 3)] };
        for (batch, fd, threads, k) in bounded {
            v.push(Job { set: false, mode: "sum".into(), files: vec![inp.clone()], batch, fd, threads, explore: true, cap_s: cap, bound: Some(k), nonl: false });
        }
    }
    // two input files
    v.push(Job { set: false, mode: "sum".into(), files: vec![vec!["a,1".into(), "b,5".into()], vec!["a,2".into(), "c,7".into(), "b,1".into()]], batch: 2, fd: 2, threads: 2, explore: true, cap_s: cap, bound: None, nonl: false });
    // (thorough) four batches, fd-limit 3: which three batch FSTs meet in the first union
    // depends on the order in which the workers report (12 groupings); the key
    // k is in three of the four batches
    if thorough {
        v.push(Job { set: false, mode: "sum".into(), files: vec![vec!["w,8".into(), "k,1".into(), "k,2".into(), "k,4".into()]], batch: 1, fd: 3, threads: 2, explore: true, cap_s: cap, bound: None, nonl: false });
        v.push(Job { set: false, mode: "max".into(), files: vec![vec!["w,8".into(), "k,1".into(), "k,2".into(), "k,4".into()]], batch: 1, fd: 3, threads: 2, explore: true, cap_s: cap, bound: None, nonl: false });
        v.push(Job { set: false, mode: "min".into(), files: vec![vec!["k,1".into(), "k,2".into(), "w,8".into(), "k,4".into()]], batch: 1, fd: 3, threads: 2, explore: true, cap_s: cap, bound: None, nonl: false });
    }
    v
}

fn grid_jobs(tier: Tier) -> Vec<Job> {
    let thorough = tier == Tier::Thorough;
    let maxlen = if thorough { 4 } else { 3 };
    let mut v = vec![];
    for set in [false, true] {
        for inp in all_inputs(set, maxlen) {
            let r = inp.len() as u32;
            for batch in 1..=r {
                for fd in 2..=4u32 {
                    for threads in 1..=4u32 {
                        if !thorough && threads == 3 {
                            continue;
                        }
                        let modes: Vec<&str> = if set { vec!["sum"] } else { vec!["sum", "max", "min"] };
                        for mode in modes {
                            v.push(Job { set, mode: mode.into(), files: vec![inp.clone()], batch, fd, threads, explore: false, cap_s: 60, bound: None, nonl: false });
                            if inp.len() >= 2 && fd == 2 && threads <= 2 {
                                let (a, b) = inp.split_at(inp.len() / 2);
                                v.push(Job { set, mode: mode.into(), files: vec![a.to_vec(), b.to_vec()], batch, fd, threads, explore: false, cap_s: 60, bound: None, nonl: false });
                                // an empty input file in first, middle and last position
                                if threads == 1 && batch <= 2 {
                                    v.push(Job { set, mode: mode.into(), files: vec![vec![], inp.clone()], batch, fd, threads, explore: false, cap_s: 60, bound: None, nonl: false });
                                    v.push(Job { set, mode: mode.into(), files: vec![a.to_vec(), vec![], b.to_vec()], batch, fd, threads, explore: false, cap_s: 60, bound: None, nonl: false });
                                    v.push(Job { set, mode: mode.into(), files: vec![inp.clone(), vec![]], batch, fd, threads, explore: false, cap_s: 60, bound: None, nonl: false });
                                }
                            }
                        }
                    }
                }
            }
        }
    }
    // input files whose last row has no trailing newline (one, two and three files)
    for set in [false, true] {
        for inp in all_inputs(set, 3) {
            if inp.len() < 2 {
                continue;
            }
            let (a, b) = inp.split_at(inp.len() / 2);
            let modes: Vec<&str> = if set { vec!["sum"] } else { vec!["sum", "min"] };
            for mode in modes {
                for files in [vec![inp.clone()], vec![a.to_vec(), b.to_vec()], vec![a.to_vec(), vec![], b.to_vec()]] {
                    v.push(Job { set, mode: mode.into(), files, batch: 2, fd: 2, threads: 2, explore: false, cap_s: 60, bound: None, nonl: true });
                }
            }
        }
    }
    // keys that a lenient reader could normalise away: leading / trailing blanks and
    // tabs, inner blanks, upper case, non-ASCII, quoted CSV fields with commas and quotes
    {
        let rows: Vec<String> = [" a,1", "a,2", "a\t,4", "a ,8", "\u{e9},16", "A,32", "a b,64", "\"x,y\",3", "\"q\"\"r\",5", "  ,7", "a,128"].iter().map(|s| s.to_string()).collect();
        let lines: Vec<String> = [" a", "a", "a\t", "a ", "\u{e9}", "A", "a b", "x,y", "q\"r", "  ", "a"].iter().map(|s| s.to_string()).collect();
        for (batch, fd, threads) in [(1u32, 2u32, 1u32), (2, 2, 2), (3, 3, 2), (11, 2, 1)] {
            for mode in ["sum", "max", "min"] {
                v.push(Job { set: false, mode: mode.into(), files: vec![rows.clone()], batch, fd, threads, explore: false, cap_s: 60, bound: None, nonl: false });
                v.push(Job { set: false, mode: mode.into(), files: vec![rows[..5].to_vec(), rows[5..].to_vec()], batch, fd, threads, explore: false, cap_s: 60, bound: None, nonl: false });
            }
            v.push(Job { set: true, mode: "sum".into(), files: vec![lines.clone()], batch, fd, threads, explore: false, cap_s: 60, bound: None, nonl: false });
            v.push(Job { set: true, mode: "sum".into(), files: vec![lines[..4].to_vec(), lines[4..].to_vec()], batch, fd, threads, explore: false, cap_s: 60, bound: None, nonl: true });
        }
    }
    // input files larger than any reader buffer (about 100 KB and 300 KB): many rows, few batches
    for (n, batch) in [(9_000usize, 2_000u32), (25_000, 6_000)] {
        let rows: Vec<String> = (0..n).map(|i| format!("key-{:05}-{},{}", (i * 7919) % n, "x".repeat(i % 5), i % 97 + 1)).collect();
        let lines: Vec<String> = (0..n).map(|i| format!("line-{:05}-{}", (i * 7919) % (n - 17), "y".repeat(i % 7))).collect();
        for threads in [1u32, 3] {
            v.push(Job { set: false, mode: "sum".into(), files: vec![rows.clone()], batch, fd: 3, threads, explore: false, cap_s: 120, bound: None, nonl: false });
            v.push(Job { set: true, mode: "sum".into(), files: vec![lines.clone()], batch, fd: 2, threads, explore: false, cap_s: 120, bound: None, nonl: threads == 3 });
            let (a, b) = rows.split_at(n / 3);
            v.push(Job { set: false, mode: "max".into(), files: vec![a.to_vec(), b.to_vec()], batch, fd: 2, threads, explore: false, cap_s: 120, bound: None, nonl: false });
        }
    }
    // large numbers of batches (default schedule): rounds with 60..260 items
    for n in [60usize, 64, 65, 66, 67, 68, 69, 70, 100, 129, 200, 260] {
        for (fd, threads) in [(2u32, 1u32), (2, 2), (3, 3), (4, 4), (15, 2)] {
            if !thorough && n > 70 && (fd, threads) != (2, 2) && (fd, threads) != (15, 2) {
                continue;
            }
            let distinct: Vec<String> = (0..n).map(|i| format!("k{:03},{}", (i * 263) % n, i + 1)).collect();
            v.push(Job { set: false, mode: "sum".into(), files: vec![distinct], batch: 1, fd, threads, explore: false, cap_s: 120, bound: None, nonl: false });
            let lines: Vec<String> = (0..n).map(|i| format!("k{:03}", (i * 7) % (n - 3))).collect();
            v.push(Job { set: true, mode: "sum".into(), files: vec![lines], batch: 1, fd, threads, explore: false, cap_s: 120, bound: None, nonl: false });
        }
    }
    // many batches (default schedule): N rows, batch size 1, every N up to 24
    // (thorough 40): covers batch counts at which several generations end
    // with a lone FST (e.g. F*F+F+1) and every shape of the generation tree
    let maxn = if thorough { 40 } else { 24 };
    for n in 5..=maxn {
        for fd in 2..=4u32 {
            for threads in [1u32, 2, 4, 8, 16] {
                if !thorough && threads == 4 && n % 2 == 0 {
                    continue;
                }
                if threads >= 8 && (n % 6 != 1 || fd != 2) && !thorough {
                    continue;
                }
                // distinct keys (bytes must equal the sorted build) ...
                let distinct: Vec<String> = (0..n).map(|i| format!("k{:02},{}", (i * 41) % n, i + 1)).collect();
                v.push(Job { set: false, mode: "sum".into(), files: vec![distinct], batch: 1, fd, threads, explore: false, cap_s: 60, bound: None, nonl: false });
                // ... and every key occurring in about three batches
                if fd == 3 || thorough {
                    let rep: Vec<String> = (0..n).map(|i| format!("k{:02},{}", i % ((n + 2) / 3), i + 1)).collect();
                    for mode in ["sum", "max", "min"] {
                        v.push(Job { set: false, mode: mode.into(), files: vec![rep.clone()], batch: 1, fd, threads, explore: false, cap_s: 60, bound: None, nonl: false });
                    }
                }
                let lines: Vec<String> = (0..n).map(|i| format!("k{:02}", (i * 5) % (n - 2))).collect();
                v.push(Job { set: true, mode: "sum".into(), files: vec![lines], batch: 1, fd, threads, explore: false, cap_s: 60, bound: None, nonl: false });
            }
        }
    }
    v
}

/// Pins this process to one core: the baton hand-offs between the OS
/// threads of an execution are 3-4x cheaper when they share a core.
fn pin_to_core(core: usize) {
    unsafe {
        let mut set: libc::cpu_set_t = std::mem::zeroed();
        libc::CPU_SET(core, &mut set);
        libc::sched_setaffinity(0, std::mem::size_of::<libc::cpu_set_t>(), &set);
    }
}

fn child_main(core: usize, spec: &str) {
    pin_to_core(core);
    if std::env::var("VERIF_NICE").is_ok() {
        // long thorough explorations must not starve the rest of the machine
        unsafe {
            libc::nice(10);
        }
    }
    ev::install_quiet_panic_hook();
    std::env::set_var("TMPDIR", workdir());
    std::fs::create_dir_all(workdir()).unwrap();
    let v: Value = serde_json::from_str(spec).expect("job list");
    let mut out = vec![];
    for j in v.as_array().unwrap() {
        let job = Job::from_json(j);
        let r = run_job(&job);
        out.push(result_json(&r));
    }
    let _ = std::fs::remove_dir_all(workdir());
    println!("{}", serde_json::to_string(&out).unwrap());
}

fn spawn_child(jobs: &[Job], core: usize) -> Result<Vec<Value>, String> {
    let exe = std::env::current_exe().unwrap();
    let spec = serde_json::to_string(&jobs.iter().map(|j| j.to_json()).collect::<Vec<_>>()).unwrap();
    // the job list goes through the child's stdin (it can be far longer than an argument may be)
    use std::io::Write;
    let mut child = std::process::Command::new(exe)
        .arg("JOBS")
        .arg(core.to_string())
        .arg("-")
        .stdin(std::process::Stdio::piped())
        .stdout(std::process::Stdio::piped())
        .stderr(std::process::Stdio::piped())
        .spawn()
        .map_err(|e| format!("{}", e))?;
    let mut si = child.stdin.take().unwrap();
    let writer = std::thread::spawn(move || {
        let _ = si.write_all(spec.as_bytes());
    });
    let o = child.wait_with_output().map_err(|e| format!("{}", e))?;
    let _ = writer.join();
    if !o.status.success() {
        return Err(format!("child exited with {:?}: {}", o.status.code(), String::from_utf8_lossy(&o.stderr)));
    }
    let s = String::from_utf8_lossy(&o.stdout);
    let line = s.lines().last().unwrap_or("");
    serde_json::from_str::<Value>(line).map(|v| v.as_array().cloned().unwrap_or_default()).map_err(|e| format!("bad child output: {} ({})", e, line))
}

fn replay(path: &str) -> ! {
    ev::install_quiet_panic_hook();
    std::env::set_var("TMPDIR", workdir());
    std::fs::create_dir_all(workdir()).unwrap();
    let v: Value = serde_json::from_str(&std::fs::read_to_string(path).unwrap_or_else(|e| {
        eprintln!("machinery: {}", e);
        std::process::exit(2)
    }))
    .unwrap();
    let case = &v["case"];
    let job = Job::from_json(&case["job"]);
    let sched: Vec<usize> = case["schedule"].as_array().unwrap().iter().map(|x| x.as_u64().unwrap() as usize).collect();
    let mut obs = vec![];
    let inputs = write_inputs(&job, "u");
    for _ in 0..2 {
        let mut fb = None;
        let (o, verdict) = execute(&Job { explore: false, bound: None, ..job.clone() }, &inputs, sched.clone(), None, &mut fb);
        obs.push((o.choices.clone(), verdict));
    }
    let _ = std::fs::remove_dir_all(workdir());
    if obs[0] != obs[1] {
        eprintln!("machinery: replay is not deterministic: {:?} vs {:?}", obs[0].1, obs[1].1);
        std::process::exit(2);
    }
    match &obs[0].1 {
        Ok(o) => {
            // a violation of the sorted/byte clauses is configuration level: re-run the job
            let r = run_job(&Job { explore: false, bound: None, ..job.clone() });
            if let Some((_, m, _)) = r.violation {
                println!("replay C19: {}", m);
                println!("VIOLATION property=C19 replay={}", path);
                std::process::exit(1);
            }
            println!("replay C19: property holds on this schedule ({})", o);
            std::process::exit(0)
        }
        Err(m) => {
            println!("replay C19: {}", m);
            println!("VIOLATION property=C19 replay={}", path);
            std::process::exit(1)
        }
    }
}

fn main() {
    let args: Vec<String> = std::env::args().skip(1).collect();
    if args.first().map(|s| s.as_str()) == Some("JOBS") {
        let spec = if args[2] == "-" {
            let mut s = String::new();
            std::io::Read::read_to_string(&mut std::io::stdin(), &mut s).unwrap();
            s
        } else {
            args[2].clone()
        };
        child_main(args[1].parse().unwrap_or(0), &spec);
        return;
    }
    if args.first().map(|s| s.as_str()) != Some("C19") {
        eprintln!("usage: binharness C19 [quick|thorough] [--replay <file>]");
        std::process::exit(2);
    }
    let mut tier = match std::env::var("VERIF_TIER").ok().as_deref() {
        Some("thorough") => Tier::Thorough,
        _ => Tier::Quick,
    };
    let mut i = 1;
    while i < args.len() {
        match args[i].as_str() {
            "quick" => tier = Tier::Quick,
            "thorough" => tier = Tier::Thorough,
            "--replay" => replay(&args[i + 1]),
            _ => {}
        }
        i += 1;
    }
    ev::install_quiet_panic_hook();
    let t0 = Instant::now();
    let rep = Reporter::new("C19");
    let mut st = Stats::default();
    let mut scopes: BTreeMap<String, (u64, u64)> = BTreeMap::new();
    let mut capped_any = false;

    // ---- (1) schedule exploration: one child process per job, 16 at a time
    let ejobs = explore_jobs(tier);
    let gjobs = grid_jobs(tier);
    let chunks: Vec<Vec<Job>> = {
        let mut c: Vec<Vec<Job>> = ejobs.iter().map(|j| vec![j.clone()]).collect();
        for ch in gjobs.chunks(60) {
            c.push(ch.to_vec());
        }
        c
    };
    let next = std::sync::atomic::AtomicUsize::new(0);
    let results: Mutex<Vec<(usize, Result<Vec<Value>, String>)>> = Mutex::new(vec![]);
    let ncores = std::thread::available_parallelism().map(|n| n.get()).unwrap_or(4);
    // thorough: leave a quarter of the cores to the rest of the machine
    let nthreads = if tier == Tier::Thorough { (ncores * 3 / 4).max(1) } else { ncores };
    if tier == Tier::Thorough {
        std::env::set_var("VERIF_NICE", "1");
    }
    std::thread::scope(|s| {
        for core in 0..nthreads {
            let (next, chunks, results) = (&next, &chunks, &results);
            s.spawn(move || loop {
                let i = next.fetch_add(1, std::sync::atomic::Ordering::SeqCst);
                if i >= chunks.len() {
                    break;
                }
                let r = spawn_child(&chunks[i], core);
                results.lock().unwrap().push((i, r));
            });
        }
    });
    let mut results = results.into_inner().unwrap();
    results.sort_by_key(|x| x.0);
    let mut table = vec![];
    let mut explored: Vec<(Job, Vec<String>, bool)> = vec![];
    let mut grid_wall = 0.0f64;
    let mut all_groupings: BTreeSet<String> = BTreeSet::new();
    for (i, r) in results {
        let jobs = &chunks[i];
        let vals = match r {
            Ok(v) => v,
            Err(e) => {
                eprintln!("machinery: exploration child failed: {}", e);
                std::process::exit(2);
            }
        };
        for (job, v) in jobs.iter().zip(vals.iter()) {
            let scope = if job.explore && job.bound.is_some() { format!("bounded-schedules {}", job.describe()) } else if job.explore { format!("all-schedules {}", job.describe()) } else { "configuration-grid-default-schedule".to_string() };
            let e = scopes.entry(scope).or_insert((0, 0));
            e.1 += 1;
            let capped = v["capped"].as_bool().unwrap_or(false);
            capped_any |= capped && job.explore;
            if !capped && v["violation"].is_null() {
                e.0 += 1;
            }
            st.states += v["states"].as_u64().unwrap_or(0).max(1);
            st.transitions += v["steps"].as_u64().unwrap_or(0);
            st.evals += v["complete"].as_u64().unwrap_or(0);
            st.count("executions_started", v["execs"].as_u64().unwrap_or(0));
            st.count("executions_pruned_by_state_cache", v["pruned"].as_u64().unwrap_or(0));
            if job.explore {
                if job.bound.is_none() { explored.push((job.clone(), v["groupings"].as_array().unwrap_or(&vec![]).iter().map(|x| x.as_str().unwrap_or("").to_string()).collect(), !capped && v["violation"].is_null())); }
                st.nontrivial += v["states"].as_u64().unwrap_or(0);
                st.max("max_choice_points_in_one_execution", v["max_choice_points"].as_u64().unwrap_or(0));
                st.max("max_threads_in_one_execution", v["max_threads"].as_u64().unwrap_or(0));
                let g = v["groupings"].as_array().map(|a| a.len()).unwrap_or(0);
                for x in v["groupings"].as_array().unwrap_or(&vec![]) {
                    all_groupings.insert(x.as_str().unwrap_or("").to_string());
                }
                table.push(json!({"job": job.describe(), "distinct_states": v["states"], "executions": v["execs"], "complete": v["complete"], "distinct_union_groupings": g, "distinct_outputs": v["outputs"].as_array().map(|a| a.len()), "exhausted": !capped, "wall_s": v["wall_s"]}));
            } else {
                st.count("grid_configurations", 1);
                grid_wall += v["wall_s"].as_f64().unwrap_or(0.0);
            }
            for o in v["outputs"].as_array().unwrap_or(&vec![]) {
                st.outcome(o.as_u64().unwrap_or(0));
            }
            if let Some(viol) = v["violation"].as_object() {
                rep.violation(viol["key"].as_str().unwrap().to_string(), viol["msg"].as_str().unwrap().to_string(), viol["case"].clone());
            }
        }
    }
    // ---- (1b) protocol model: conformance with the explored configurations
    // and model checking of larger ones
    let mut conformance = vec![];
    let mut model_ok = true;
    {
        std::fs::create_dir_all(workdir()).unwrap();
        // observed result orders per (N, W, Cap), only from exhausted explorations
        let mut observed: BTreeMap<(usize, usize, usize), BTreeSet<Vec<usize>>> = BTreeMap::new();
        for (job, groupings, exhausted) in &explored {
            if !*exhausted {
                continue;
            }
            let w = job.threads as usize;
            let cap = std::cmp::min(1, w / 3);
            for g in groupings {
                for round in rounds_of(g) {
                    if round.len() >= 2 {
                        observed.entry((round.len(), w, cap)).or_default().insert(round);
                    }
                }
            }
        }
        for ((n, w, cap), imp) in &observed {
            match model_perms(*n, *w, *cap) {
                Ok((model, states)) => {
                    let equal = &model == imp;
                    st.count("model_outcomes_matched_against_impl", model.intersection(imp).count() as u64);
                    st.states += states;
                    conformance.push(json!({"N": n, "W": w, "Cap": cap, "model_states": states, "model_final_orders": model.len(), "impl_final_orders": imp.len(), "equal": equal}));
                    if !equal {
                        model_ok = false;
                        eprintln!("note: protocol model and code disagree on the reachable result orders for N={} W={} Cap={}: model {:?} code {:?}", n, w, cap, model, imp);
                    }
                }
                Err(e) => {
                    if e.starts_with("machinery") {
                        eprintln!("{}", e);
                        std::process::exit(2);
                    }
                    model_ok = false;
                    eprintln!("note: {}", e);
                }
            }
        }
        // larger configurations: model only (deadlock freedom, nothing lost or duplicated)
        let larger: Vec<(usize, usize, usize)> = if tier == Tier::Thorough { vec![(6, 3, 1), (5, 4, 1), (7, 2, 0), (8, 3, 1), (6, 5, 1)] } else { vec![(5, 3, 1), (6, 2, 0)] };
        if model_ok {
            for (n, w, cap) in larger {
                match model_perms(n, w, cap) {
                    Ok((model, states)) => {
                        st.states += states;
                        st.count("model_only_configurations", 1);
                        conformance.push(json!({"N": n, "W": w, "Cap": cap, "model_states": states, "model_final_orders": model.len(), "model_only": true}));
                    }
                    Err(e) => {
                        if e.starts_with("machinery") {
                            eprintln!("{}", e);
                            std::process::exit(2);
                        }
                        rep.violation(format!("protocol model N={} W={} Cap={}", n, w, cap), e, json!({"job": null, "schedule": [], "model": [n, w, cap]}));
                    }
                }
            }
        }
        let e = scopes.entry("protocol-model-MergeRound.tla (TLC): conformance on explored rounds + larger rounds".into()).or_insert((0, 0));
        e.1 += 1;
        if model_ok {
            e.0 += 1;
        }
        let _ = std::fs::remove_dir_all(workdir());
    }
    st.samples.push(json!({"protocol_model": conformance}));
    st.count("distinct_union_groupings_overall", all_groupings.len() as u64);
    st.count("grid_cpu_seconds", grid_wall as u64);
    st.samples.push(json!({"schedule_exploration": table}));
    st.samples.push(json!({"example_union_groupings": all_groupings.iter().take(4).collect::<Vec<_>>()}));

    // ---- (2) the real binary, free-running
    if std::path::Path::new(&real_bin()).exists() {
        std::env::set_var("TMPDIR", workdir());
        std::fs::create_dir_all(workdir()).unwrap();
        let real: Vec<&Job> = gjobs.iter().filter(|j| tier == Tier::Thorough || (j.files[0].len() == 3 && j.threads != 1 && j.fd <= 3) || j.files.len() == 2 || j.files[0].len() >= 9_000).collect();
        let next = std::sync::atomic::AtomicUsize::new(0);
        let cnt = std::sync::atomic::AtomicU64::new(0);
        std::thread::scope(|s| {
            for _ in 0..nthreads {
                s.spawn(|| loop {
                    let i = next.fetch_add(1, std::sync::atomic::Ordering::SeqCst);
                    if i >= real.len() || rep.stopped() {
                        break;
                    }
                    cnt.fetch_add(1, std::sync::atomic::Ordering::SeqCst);
                    if let Err(msg) = run_real(real[i]) {
                        if msg.starts_with("machinery") {
                            eprintln!("{}", msg);
                            std::process::exit(2);
                        }
                        rep.violation(format!("real binary {}", real[i].describe()), msg, case_json(real[i], &[]));
                    }
                });
            }
        });
        let n = cnt.load(std::sync::atomic::Ordering::SeqCst);
        st.count("real_binary_free_running_runs", 3 * n);
        st.count("real_binary_configurations", n);
        st.evals += n;
        let e = scopes.entry("real-binary-free-running (uncontrolled schedules, not an enumeration)".into()).or_insert((0, 0));
        e.0 += 1;
        e.1 += 1;
        let _ = std::fs::remove_dir_all(workdir());
    } else {
        eprintln!("machinery: {} is missing (run ./setup.sh)", real_bin());
        std::process::exit(2);
    }

    let mut extra = BTreeMap::new();
    extra.insert("engine".to_string(), json!("stateful DFS over channel-level scheduling points of the real merge pipeline, full branching (no preemption bound), happens-before fingerprint state cache"));
    ev::finish_run(
        "C19",
        "model_checking",
        tier,
        st,
        &rep,
        "SCHED: the real cmd::map::run / cmd::set::run (merge.rs, util.rs, app.rs included by path) run in-process; every channel send/receive, spawn and thread exit is a scheduling point; for each listed (input, batch size, fd-limit, threads, merge mode) ALL interleavings are explored with happens-before state caching; additionally, for some configurations, every schedule with at most k deviations from the default schedule (k = 1..3, delay bounding) is explored statelessly (no cache, hence no assumption about shared state); in every complete execution: exit Ok, no deadlock, output opens, verifies, conforms to the v3 format (independent decoder), content == model merge (sum/max/min per key over all rows; distinct lines for sets), bytes identical across all schedules; configuration grid under the default schedule: every row sequence of length <= 3 (thorough 4) over {a,1 a,2 b,1 b,2} (sets: {a,b,ab}) x batch 1..R x fd-limit 2..4 x threads 1..4 x 3 modes x one/two/three input files (incl. an empty file in first, middle and last position); input files without a final newline; rows whose keys have leading / trailing blanks and tabs, inner blanks, upper case, non-ASCII characters, quoted CSV fields with commas and quotes; rounds of 60..260 batches (default schedule; deadlocks are detected as 'no enabled thread'); many-batches family: 5..24 (thorough 40) rows with batch size 1 x fd-limit 2..4 x threads {1,2,4,8,16} with distinct keys, keys repeated in three batches (3 modes) and line sets; plus byte identity with the --sorted build and a library build for inputs without repeated keys; the real binary free-running on a subset, each configuration three ways: fresh output path; an existing, longer output file (--force); the first input through /dev/stdin fed by a pipe; the same input path named twice; input files of about 100 KB and 300 KB. non-trivial = distinct happens-before states of explored configurations".into(),
        vec![
            "threads of merge.rs interact only through the channels (immutable Arcs otherwise); files are written by one batch and read only in later generations; checked by the unique-file-name trace".into(),
            "two prefixes with equal per-thread histories (incl. identities of received messages) are the same Mazurkiewicz trace and have the same futures".into(),
            "fd-limit 1, --threads 0, I/O errors and --tmp-dir are outside the contract".into(),
            "protocol model (model/MergeRound.tla, one generation of the pipeline, one action per scheduling point) is bound to the code by outcome conformance: for every round (N items, W workers, channel capacity) of every exhausted exploration the set of result orders reachable in the model (TLC state dump) equals the set observed in the code; the model is then checked alone (TLC: deadlock freedom, nothing lost or duplicated) for larger rounds".into(),
        ],
        true,
        extra,
        vec!["grid_configurations".into(), "real_binary_free_running_runs".into(), "distinct_union_groupings_overall".into()],
        scopes,
        capped_any,
        t0,
    )
}
