//! SCHED engine: a controlled scheduler plus the `chan` / `thread` shims that
//! the real `fst-bin/src/merge.rs` uses when it is compiled with
//! `--cfg burntsushi_fst_verif` (hook H5).
//!
//! Threads are real OS threads gated by a baton: exactly one runs at a time.
//! Every channel operation, spawn and thread exit is a scheduling point with
//! full branching over all enabled threads. A blocked operation is a
//! predicate; "no enabled thread while some are unfinished" is a deadlock.
//! Each thread carries a hash of its own event history (operations plus, for
//! every receive, the identity (sender, sequence number) of the message it
//! got); the global fingerprint is the hash of all per-thread histories and
//! statuses (happens-before state caching): a prefix that reaches a
//! fingerprint seen before is pruned.

use std::collections::{HashSet, VecDeque};
use std::path::PathBuf;
use std::sync::{Arc, Condvar, Mutex};

type Pred = Box<dyn Fn() -> bool + Send>;

enum Status {
    Runnable,
    Blocked(Pred),
    Finished,
}

#[derive(Clone, Debug, PartialEq, Eq)]
pub struct Choice {
    /// number of enabled threads at this point
    pub n: usize,
    /// index into the canonical order (running thread first, then ascending ids)
    pub chosen: usize,
    /// was the running thread itself still enabled? (then choosing another
    /// thread is a preemption; otherwise the switch is forced and free)
    pub cur_enabled: bool,
}

struct Inner {
    status: Vec<Status>,
    current: usize,
    prefix: Vec<usize>,
    choices: Vec<Choice>,
    aborted: Option<String>,
    trace: Vec<String>,
    hist: Vec<u64>,
    visited: Option<Arc<Mutex<HashSet<u64>>>>,
    pruned: bool,
    steps: u64,
    diverged: bool,
    /// one condition variable per thread (all used with the `inner` mutex),
    /// so that a hand-off wakes exactly the thread that runs next
    cvs: Vec<Arc<Condvar>>,
}

impl Inner {
    fn wake_all(&self) {
        for c in &self.cvs {
            c.notify_all();
        }
    }
    fn wake(&self, i: usize) {
        self.cvs[i].notify_all();
    }
}

pub struct Sched {
    inner: Mutex<Inner>,
}

thread_local! { static ME: std::cell::Cell<usize> = std::cell::Cell::new(usize::MAX); }

static CUR: Mutex<Option<Arc<Sched>>> = Mutex::new(None);

fn sched() -> Arc<Sched> {
    CUR.lock().unwrap().as_ref().expect("verif_rt used outside run_one").clone()
}

struct Abort;

fn mix(a: u64, b: u64) -> u64 {
    let mut h = a ^ b.wrapping_mul(0x9E37_79B9_7F4A_7C15);
    h = (h ^ (h >> 30)).wrapping_mul(0xBF58_476D_1CE4_E5B9);
    h = (h ^ (h >> 27)).wrapping_mul(0x94D0_49BB_1331_11EB);
    h ^ (h >> 31)
}

fn note(me: usize, tag: u64, a: u64, b: u64) {
    let s = sched();
    let mut g = s.inner.lock().unwrap();
    let h = g.hist[me];
    g.hist[me] = mix(mix(mix(h, tag), a), b);
}

const HANG_SECS: u64 = 120;

impl Sched {
    fn fingerprint(inner: &Inner) -> u64 {
        let mut h = 0x1234u64;
        for (i, x) in inner.hist.iter().enumerate() {
            let st = match &inner.status[i] {
                Status::Finished => 2,
                _ => 1,
            };
            h = mix(mix(mix(h, i as u64), *x), st);
        }
        h
    }

    fn enabled(inner: &Inner) -> Vec<usize> {
        let is_en = |i: usize| match &inner.status[i] {
            Status::Runnable => true,
            Status::Blocked(p) => p(),
            Status::Finished => false,
        };
        let mut v = vec![];
        if is_en(inner.current) {
            v.push(inner.current);
        }
        for i in 0..inner.status.len() {
            if i != inner.current && is_en(i) {
                v.push(i);
            }
        }
        v
    }

    /// Decides who runs next. Returns None if the execution is over/aborted.
    fn decide(&self, g: &mut Inner) -> Option<usize> {
        let en = Self::enabled(g);
        if en.is_empty() {
            if !g.status.iter().all(|s| matches!(s, Status::Finished)) {
                g.aborted = Some("deadlock".to_string());
            }
            return None;
        }
        let step = g.choices.len();
        g.steps += 1;
        if en.len() > 1 && step >= g.prefix.len() {
            if let Some(v) = &g.visited {
                let fp = Self::fingerprint(g);
                if !v.lock().unwrap().insert(fp) {
                    g.pruned = true;
                    g.aborted = Some("pruned".to_string());
                    return None;
                }
            }
        }
        let chosen = if en.len() == 1 {
            0
        } else if step < g.prefix.len() {
            let c = g.prefix[step];
            if c >= en.len() {
                // a diverging replay prefix is a hard error
                g.diverged = true;
                g.aborted = Some(format!("replay divergence at choice {}: {} of {} enabled", step, c, en.len()));
                return None;
            }
            c
        } else {
            0
        };
        if en.len() > 1 {
            let cur_enabled = en[0] == g.current && !matches!(g.status[g.current], Status::Finished);
            g.choices.push(Choice { n: en.len(), chosen, cur_enabled });
        }
        let next = en[chosen];
        g.current = next;
        if let Status::Blocked(_) = g.status[next] {
            g.status[next] = Status::Runnable;
        }
        Some(next)
    }

    /// Scheduling point of thread `me` (which holds the baton).
    fn point(&self, me: usize) {
        let mut g = self.inner.lock().unwrap();
        let hh = g.hist[me];
        g.hist[me] = mix(hh, 5);
        if g.aborted.is_some() {
            drop(g);
            std::panic::resume_unwind(Box::new(Abort));
        }
        let next = match self.decide(&mut g) {
            Some(n) => n,
            None => {
                let over = g.aborted.is_none();
                g.wake_all();
                drop(g);
                if over {
                    return;
                }
                std::panic::resume_unwind(Box::new(Abort));
            }
        };
        if next != me {
            g.wake(next);
            let mycv = g.cvs[me].clone();
            while g.current != me {
                if g.aborted.is_some() {
                    drop(g);
                    std::panic::resume_unwind(Box::new(Abort));
                }
                let (g2, to) = mycv.wait_timeout(g, std::time::Duration::from_secs(HANG_SECS)).unwrap();
                g = g2;
                if to.timed_out() && g.current != me && g.aborted.is_none() {
                    eprintln!("machinery: scheduler hang (thread {} waiting, current {})", me, g.current);
                    std::process::exit(2);
                }
            }
            if g.aborted.is_some() {
                drop(g);
                std::panic::resume_unwind(Box::new(Abort));
            }
        }
    }

    fn block_until(&self, me: usize, pred: Pred) {
        {
            let mut g = self.inner.lock().unwrap();
            g.status[me] = Status::Blocked(pred);
        }
        self.point(me);
    }

    fn finish(&self, me: usize) {
        let mut g = self.inner.lock().unwrap();
        g.status[me] = Status::Finished;
        if g.aborted.is_some() {
            g.wake_all();
            return;
        }
        match self.decide(&mut g) {
            Some(next) => g.wake(next),
            None => g.wake_all(),
        }
    }
}

pub fn trace_batch(index: usize) {
    let s = sched();
    s.inner.lock().unwrap().trace.push(format!("file:batch{}", index));
}

pub fn trace_union(gen: usize, index: usize, fsts: &[PathBuf]) {
    let s = sched();
    let names: Vec<String> =
        fsts.iter().map(|p| p.file_name().unwrap().to_string_lossy().to_string()).collect();
    let mut g = s.inner.lock().unwrap();
    g.trace.push(format!("file:union-gen{}-batch{}", gen, index));
    g.trace.push(format!("union g{}b{}:{}", gen, index, names.join("+")));
}

pub struct Outcome {
    pub choices: Vec<Choice>,
    pub aborted: Option<String>,
    pub trace: Vec<String>,
    pub main_result: Option<Result<(), String>>,
    pub pruned: bool,
    pub diverged: bool,
    pub steps: u64,
    pub threads: usize,
}

/// Runs `f` as thread 0 under the scheduler, replaying `prefix` and taking
/// the first enabled thread afterwards.
pub fn run_one<F>(prefix: Vec<usize>, visited: Option<Arc<Mutex<HashSet<u64>>>>, f: F) -> Outcome
where
    F: FnOnce() -> Result<(), String> + Send + 'static,
{
    let s = Arc::new(Sched {
        inner: Mutex::new(Inner {
            status: vec![Status::Runnable],
            current: 0,
            prefix,
            choices: vec![],
            aborted: None,
            trace: vec![],
            hist: vec![1],
            visited,
            pruned: false,
            steps: 0,
            diverged: false,
            cvs: vec![Arc::new(Condvar::new())],
        }),
    });
    *CUR.lock().unwrap() = Some(s.clone());
    let s2 = s.clone();
    let h = std::thread::spawn(move || {
        ME.with(|m| m.set(0));
        let r = std::panic::catch_unwind(std::panic::AssertUnwindSafe(f));
        let res = match r {
            Ok(r) => Some(r),
            Err(e) => {
                if e.is::<Abort>() {
                    None
                } else {
                    let mut g = s2.inner.lock().unwrap();
                    if g.aborted.is_none() {
                        g.aborted = Some("panic in main thread".to_string());
                    }
                    Some(Err(format!("panic in the main thread: {}", mc::ev::last_panic())))
                }
            }
        };
        s2.finish(0);
        res
    });
    let main_result = h.join().unwrap_or(None);
    // wait until every thread has finished or the run was aborted
    let t0 = std::time::Instant::now();
    loop {
        {
            let g = s.inner.lock().unwrap();
            if g.status.iter().all(|x| matches!(x, Status::Finished)) {
                break;
            }
            if g.aborted.is_some() {
                // aborted threads unwind on their own; wait until they are gone
                if g.status.iter().all(|x| matches!(x, Status::Finished)) {
                    break;
                }
            }
        }
        s.inner.lock().unwrap().wake_all();
        std::thread::sleep(std::time::Duration::from_micros(50));
        if t0.elapsed().as_secs() > HANG_SECS {
            eprintln!("machinery: threads did not wind down");
            std::process::exit(2);
        }
    }
    let mut g = s.inner.lock().unwrap();
    Outcome {
        choices: std::mem::take(&mut g.choices),
        aborted: g.aborted.clone(),
        trace: std::mem::take(&mut g.trace),
        main_result,
        pruned: g.pruned,
        diverged: g.diverged,
        steps: g.steps,
        threads: g.status.len(),
    }
}

pub mod thread {
    use super::*;

    pub fn spawn<F: FnOnce() + Send + 'static>(f: F) {
        let s = sched();
        let me = ME.with(|m| m.get());
        let id = {
            let mut g = s.inner.lock().unwrap();
            g.status.push(Status::Runnable);
            g.cvs.push(Arc::new(Condvar::new()));
            let n = g.status.len() as u64;
            g.hist.push(mix(7, n));
            let h = g.hist[me];
            g.hist[me] = mix(mix(h, 11), n);
            g.status.len() - 1
        };
        let s2 = s.clone();
        std::thread::spawn(move || {
            ME.with(|m| m.set(id));
            {
                let mut g = s2.inner.lock().unwrap();
                let mycv = g.cvs[id].clone();
                while g.current != id {
                    if g.aborted.is_some() {
                        g.status[id] = Status::Finished;
                        g.wake_all();
                        return;
                    }
                    g = mycv.wait(g).unwrap();
                }
                if g.aborted.is_some() {
                    g.status[id] = Status::Finished;
                    g.wake_all();
                    return;
                }
            }
            let r = std::panic::catch_unwind(std::panic::AssertUnwindSafe(f));
            if let Err(e) = r {
                if !e.is::<Abort>() {
                    let mut g = s2.inner.lock().unwrap();
                    if g.aborted.is_none() {
                        g.aborted = Some(format!("panic in thread {}: {}", id, mc::ev::last_panic()));
                    }
                }
            }
            s2.finish(id);
        });
        s.point(me);
    }
}

pub mod chan {
    use super::*;

    struct St<T> {
        /// (ticket, message id, value)
        q: VecDeque<(u64, u64, T)>,
        uid: u64,
        cap: usize,
        next_ticket: u64,
        taken: u64,
        senders: usize,
        receivers: usize,
    }

    pub struct Sender<T>(Arc<Mutex<St<T>>>);
    pub struct Receiver<T>(Arc<Mutex<St<T>>>);

    pub struct SendError<T>(pub T);
    impl<T> std::fmt::Debug for SendError<T> {
        fn fmt(&self, f: &mut std::fmt::Formatter<'_>) -> std::fmt::Result {
            write!(f, "SendError(..)")
        }
    }
    impl<T> std::fmt::Display for SendError<T> {
        fn fmt(&self, f: &mut std::fmt::Formatter<'_>) -> std::fmt::Result {
            write!(f, "sending on a disconnected channel")
        }
    }

    /// Channel identity = a function of the creating thread's history.
    fn chan_uid() -> u64 {
        let s = sched();
        let me = ME.with(|m| m.get());
        let mut g = s.inner.lock().unwrap();
        let h = g.hist[me];
        g.hist[me] = mix(h, 99);
        mix(h, me as u64)
    }

    pub fn bounded<T: Send + 'static>(cap: usize) -> (Sender<T>, Receiver<T>) {
        let st = Arc::new(Mutex::new(St {
            q: VecDeque::new(),
            uid: chan_uid(),
            cap,
            next_ticket: 0,
            taken: 0,
            senders: 1,
            receivers: 1,
        }));
        (Sender(st.clone()), Receiver(st))
    }

    impl<T: Send + 'static> Sender<T> {
        pub fn send(&self, v: T) -> Result<(), SendError<T>> {
            let s = sched();
            let me = ME.with(|m| m.get());
            let st = self.0.clone();
            // room: a bounded channel has a free slot; a rendezvous channel
            // has no pending deposit; or nobody can ever receive
            s.block_until(
                me,
                Box::new(move || {
                    let g = st.lock().unwrap();
                    g.receivers == 0 || g.q.len() < std::cmp::max(g.cap, 1)
                }),
            );
            let ticket;
            {
                let mut g = self.0.lock().unwrap();
                if g.receivers == 0 {
                    return Err(SendError(v));
                }
                ticket = g.next_ticket;
                g.next_ticket += 1;
                let mid = ((me as u64) << 32) | ticket;
                let uid = g.uid;
                g.q.push_back((ticket, mid, v));
                let cap = g.cap;
                drop(g);
                note(me, 1, uid, mid);
                if cap > 0 {
                    return Ok(());
                }
            }
            // rendezvous: the send completes when a receiver has taken it
            let st = self.0.clone();
            s.block_until(
                me,
                Box::new(move || {
                    let g = st.lock().unwrap();
                    g.taken > ticket || g.receivers == 0
                }),
            );
            let mut g = self.0.lock().unwrap();
            if g.taken > ticket {
                return Ok(());
            }
            // disconnected before anybody took it
            let pos = g.q.iter().position(|m| m.0 == ticket).expect("pending message");
            let (_, _, v) = g.q.remove(pos).unwrap();
            Err(SendError(v))
        }
    }

    impl<T> Clone for Sender<T> {
        fn clone(&self) -> Self {
            self.0.lock().unwrap().senders += 1;
            Sender(self.0.clone())
        }
    }
    impl<T> Drop for Sender<T> {
        fn drop(&mut self) {
            self.0.lock().unwrap().senders -= 1;
        }
    }
    impl<T> Clone for Receiver<T> {
        fn clone(&self) -> Self {
            self.0.lock().unwrap().receivers += 1;
            Receiver(self.0.clone())
        }
    }
    impl<T> Drop for Receiver<T> {
        fn drop(&mut self) {
            self.0.lock().unwrap().receivers -= 1;
        }
    }

    impl<T: Send + 'static> Receiver<T> {
        pub fn recv(&self) -> Option<T> {
            let s = sched();
            let me = ME.with(|m| m.get());
            let st = self.0.clone();
            s.block_until(
                me,
                Box::new(move || {
                    let g = st.lock().unwrap();
                    !g.q.is_empty() || g.senders == 0
                }),
            );
            let mut g = self.0.lock().unwrap();
            match g.q.pop_front() {
                Some((t, mid, v)) => {
                    g.taken = t + 1;
                    let uid = g.uid;
                    drop(g);
                    note(me, 2, uid, mid);
                    Some(v)
                }
                None => {
                    let uid = g.uid;
                    drop(g);
                    note(me, 3, uid, 0);
                    None
                }
            }
        }
    }

    pub struct IntoIter<T>(Receiver<T>);
    impl<T: Send + 'static> Iterator for IntoIter<T> {
        type Item = T;
        fn next(&mut self) -> Option<T> {
            self.0.recv()
        }
    }
    impl<T: Send + 'static> IntoIterator for Receiver<T> {
        type Item = T;
        type IntoIter = IntoIter<T>;
        fn into_iter(self) -> IntoIter<T> {
            IntoIter(self)
        }
    }
}
